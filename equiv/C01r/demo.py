
# ---------------------------------------------------------------------------
# Common part of the C01 equivalence demonstrations: a reference sorted map /
# sorted set ("the oracle"), a driver that replays random call histories
# against a BTrees container and the oracle in lock step, and helpers for
# reference-count and persistence-notification checks.
#
# The oracle is written from the property statement only (a dict / set kept
# in ascending key order, None smallest); it shares no code with BTrees.
# ---------------------------------------------------------------------------
import gc
import importlib
import pickle
import random
import sys

import persistent

import BTrees
import BTrees.check

FAMILIES = tuple(BTrees._FAMILIES)          # the 22 families
KINDS = ('BTree', 'Bucket', 'TreeSet', 'Set')
IMPLS = ('', 'Py')                          # C build, pure-Python build
# (max_leaf_size, max_internal_size); None = the family's defaults
NODE_SIZES = ((1, 2), (2, 2), (3, 2), (2, 3), (4, 4), None)

CHECKS = [0]


def check(cond, *what):
    CHECKS[0] += 1
    if not cond:
        raise AssertionError(' '.join(str(w) for w in what))


def get_class(family, kind, impl, sizes=None):
    mod = importlib.import_module('BTrees.%sBTree' % family)
    base = getattr(mod, family + kind + impl)
    if sizes is None or 'Tree' not in kind:
        return base
    leaf, internal = sizes
    return type(base)(
        '%s_%d_%d' % (base.__name__, leaf, internal), (base,),
        {'max_leaf_size': leaf, 'max_internal_size': internal})


# -- domains ----------------------------------------------------------------

INT_DOMAINS = {
    'I': (-2 ** 31, 2 ** 31 - 1),
    'U': (0, 2 ** 32 - 1),
    'L': (-2 ** 63, 2 ** 63 - 1),
    'Q': (0, 2 ** 64 - 1),
}


def key_pool(family):
    k = family[0]
    if family == 'fs':
        return [bytes([65 + i // 4, 97 + i % 4]) for i in range(16)]
    if k == 'O':
        return [None] + list(range(-3, 13))
    lo, hi = INT_DOMAINS[k]
    pool = list(range(0, 14)) + [lo, hi, hi - 1, lo + 1]
    if lo < 0:
        pool += [-1, -2, -7]
    return sorted(set(pool))


def value_pool(family):
    v = family[1]
    if family == 'fs':
        return [bytes([48 + i]) * 6 for i in range(8)]
    if v == 'O':
        return [None, 0, 1, 'a', 'b', (1, 2), 2.5, -1]
    if v == 'F':
        return [0.0, 0.25, -0.5, 1.0, 3.75, -128.0, 1024.5]
    lo, hi = INT_DOMAINS[v]
    return [0, 1, 2, 3, 7, lo, hi]


def bad_keys(family):
    """Keys outside the family's domain (recorded expectations below)."""
    if family == 'fs':
        return [b'abc', b'', 7, None]
    if family[0] == 'O':
        return []
    lo, hi = INT_DOMAINS[family[0]]
    return ['x', None, 1.5, lo - 1, hi + 1, 2 ** 70]


def sort_key(k):
    # None is the smallest object key
    return (0, 0) if k is None else (1, k)


# -- the oracle -------------------------------------------------------------

class Raised:
    def __init__(self, cls):
        self.cls = cls

    def __eq__(self, other):
        return isinstance(other, Raised) and other.cls is self.cls

    def __repr__(self):
        return 'Raised(%s)' % self.cls.__name__


class MapOracle:
    """A dict kept in ascending key order."""

    def __init__(self):
        self.d = {}

    def keys(self):
        return sorted(self.d, key=sort_key)

    def items(self):
        return [(k, self.d[k]) for k in self.keys()]

    # every method returns the expected result or Raised(cls)
    def setitem(self, k, v):
        self.d[k] = v

    def delitem(self, k):
        if k not in self.d:
            return Raised(KeyError)
        del self.d[k]

    def insert(self, k, v):
        if k in self.d:
            return 0
        self.d[k] = v
        return 1

    def setdefault(self, k, v):
        return self.d.setdefault(k, v)

    def pop(self, k, *default):
        if k in self.d:
            return self.d.pop(k)
        if default:
            return default[0]
        return Raised(KeyError)

    def popitem(self):
        if not self.d:
            return Raised(KeyError)
        k = self.keys()[0]
        return (k, self.d.pop(k))

    def update(self, pairs):
        for k, v in pairs:
            self.d[k] = v

    def clear(self):
        self.d.clear()

    def get(self, k, *default):
        return self.d.get(k, default[0] if default else None)

    def getitem(self, k):
        if k in self.d:
            return self.d[k]
        return Raised(KeyError)

    def contains(self, k):
        return k in self.d


class SetOracle:
    """A set kept in ascending order."""

    def __init__(self):
        self.s = set()

    def keys(self):
        return sorted(self.s, key=sort_key)

    def add(self, k):
        if k in self.s:
            return 0
        self.s.add(k)
        return 1

    def remove(self, k):
        if k not in self.s:
            return Raised(KeyError)
        self.s.remove(k)

    def discard(self, k):
        self.s.discard(k)

    def pop(self):
        if not self.s:
            return Raised(KeyError)
        k = self.keys()[0]
        self.s.remove(k)
        return k

    def update(self, ks):
        self.s.update(ks)

    def clear(self):
        self.s.clear()

    def contains(self, k):
        return k in self.s

    def ior(self, ks):
        self.s |= set(ks)

    def iand(self, ks):
        self.s &= set(ks)

    def isub(self, ks):
        self.s -= set(ks)

    def ixor(self, ks):
        self.s ^= set(ks)


def attempt(f, *args):
    try:
        return f(*args)
    except Exception as e:
        return Raised(type(e))


# -- the lock-step driver ---------------------------------------------------

def verify_state(t, oracle, is_set, is_tree, label):
    keys = oracle.keys()
    check(list(t) == keys, label, 'iteration', list(t), keys)
    check(list(t.keys()) == keys, label, 'keys()')
    check(len(t) == len(keys), label, 'len', len(t), len(keys))
    check(bool(t) == bool(keys), label, 'bool')
    if not is_set:
        check(list(t.items()) == oracle.items(), label, 'items()',
              list(t.items()), oracle.items())
        check(list(t.values()) == [v for _, v in oracle.items()],
              label, 'values()')
    if keys:
        check(t.minKey() == keys[0] and t.maxKey() == keys[-1],
              label, 'minKey/maxKey')
    if is_tree:
        t._check()


def drive(family, kind, impl, sizes, seed, nops):
    """Replay one random history; returns the final container."""
    rnd = random.Random(seed)
    cls = get_class(family, kind, impl, sizes)
    is_set = 'Set' in kind
    is_tree = 'Tree' in kind
    label = '%s%s%s sizes=%s seed=%s' % (family, kind, impl, sizes, seed)
    keys = key_pool(family)
    values = value_pool(family)
    bad = bad_keys(family)
    t = cls()
    o = SetOracle() if is_set else MapOracle()
    verify_state(t, o, is_set, is_tree, label)

    def K():
        return rnd.choice(keys)

    def V():
        return rnd.choice(values)

    for step in range(nops):
        where = '%s step %d' % (label, step)
        r = rnd.random()
        if bad and r < 0.06:
            # a key outside the domain: recorded exception classes; the
            # contents must stay unchanged (verified below)
            b = rnd.choice(bad)
            if is_set:
                check(attempt(t.add, b) == Raised(TypeError), where, 'add bad')
                check(attempt(t.remove, b) == Raised(TypeError), where,
                      'remove bad')
                check(attempt(t.discard, b) is None, where, 'discard bad')
                # update() is not a single-key call: the good key in
                # front of the bad one is stored before TypeError is raised
                g = K()
                check(attempt(t.update, [g, b]) == Raised(TypeError),
                      where, 'update bad')
                o.add(g)
            else:
                check(attempt(t.__setitem__, b, V()) == Raised(TypeError),
                      where, 'setitem bad')
                check(attempt(t.__getitem__, b) == Raised(KeyError), where,
                      'getitem bad')
                check(attempt(t.get, b, 5) == 5, where, 'get bad')
                check(attempt(t.__delitem__, b) == Raised(TypeError), where,
                      'delitem bad')
                check(attempt(t.pop, b) == Raised(TypeError), where,
                      'pop bad')
                check(attempt(t.pop, b, 7) == Raised(TypeError), where,
                      'pop bad default')
                check(attempt(t.setdefault, b, V()) == Raised(TypeError),
                      where, 'setdefault bad')
            check(attempt(t.__contains__, b) is False, where, 'in bad')
            check(not attempt(t.has_key, b), where, 'has_key bad')
            verify_state(t, o, is_set, is_tree, where)
            continue

        if is_set:
            op = rnd.choice((
                'add', 'add', 'add', 'insert', 'remove', 'remove', 'discard',
                'discard', 'pop', 'update', 'clear', 'contains', 'has_key',
                'ior', 'iand', 'isub', 'ixor', 'ior_set', 'isub_set',
                'ixor_self', 'isub_self'))
            if op == 'clear' and rnd.random() < 0.7:
                op = 'add'
            if op in ('add', 'insert'):
                k = K()
                got = attempt(getattr(t, op), k)
                check(int(got) == o.add(k), where, op, k, got)
            elif op == 'remove':
                k = K()
                check(attempt(t.remove, k) == o.remove(k), where, op, k)
            elif op == 'discard':
                k = K()
                check(attempt(t.discard, k) == o.discard(k), where, op, k)
            elif op == 'pop':
                check(attempt(t.pop) == o.pop(), where, op)
            elif op == 'update':
                ks = [K() for _ in range(rnd.randrange(5))]
                attempt(t.update, ks)
                o.update(ks)
            elif op == 'clear':
                check(t.clear() is None, where, op)
                o.clear()
            elif op == 'contains':
                k = K()
                check((k in t) is o.contains(k), where, op, k)
            elif op == 'has_key':
                k = K()
                check(bool(t.has_key(k)) is o.contains(k), where, op, k)
            elif op in ('ior', 'iand', 'isub', 'ixor'):
                ks = [K() for _ in range(rnd.randrange(6))]
                if op == 'iand':
                    # the operand of &= gets sorted with the plain < of its
                    # elements, which None does not support
                    ks = [k for k in ks if k is not None]
                same = t
                if op == 'ior':
                    t |= ks
                elif op == 'iand':
                    t &= ks
                elif op == 'isub':
                    t -= ks
                else:
                    t ^= ks
                check(t is same, where, op, 'returns self')
                getattr(o, op)(ks)
            elif op in ('ior_set', 'isub_set'):
                other = get_class(family, rnd.choice(('Set', 'TreeSet')),
                                  impl)([K() for _ in range(4)])
                same = t
                if op == 'ior_set':
                    t |= other
                    o.ior(list(other))
                else:
                    t -= other
                    o.isub(list(other))
                check(t is same, where, op, 'returns self')
            elif op == 'ixor_self':
                same = t
                t ^= t
                check(t is same, where, op)
                o.clear()
            elif op == 'isub_self':
                same = t
                t -= t
                check(t is same, where, op)
                o.clear()
        else:
            op = rnd.choice((
                'setitem', 'setitem', 'setitem', 'setitem', 'delitem',
                'delitem', 'insert', 'setdefault', 'pop', 'pop_default',
                'popitem', 'update', 'update_dict', 'clear', 'get',
                'get_default', 'getitem', 'contains', 'has_key'))
            if op == 'clear' and rnd.random() < 0.7:
                op = 'setitem'
            if op == 'setitem':
                k, v = K(), V()
                check(attempt(t.__setitem__, k, v) == o.setitem(k, v),
                      where, op, k, v)
            elif op == 'delitem':
                k = K()
                check(attempt(t.__delitem__, k) == o.delitem(k), where, op, k)
            elif op == 'insert':
                if not hasattr(t, 'insert'):
                    continue
                k, v = K(), V()
                got = attempt(t.insert, k, v)
                check(int(got) == o.insert(k, v), where, op, k, got)
            elif op == 'setdefault':
                k, v = K(), V()
                check(attempt(t.setdefault, k, v) == o.setdefault(k, v),
                      where, op, k, v)
            elif op == 'pop':
                k = K()
                check(attempt(t.pop, k) == o.pop(k), where, op, k)
            elif op == 'pop_default':
                k = K()
                check(attempt(t.pop, k, 'dflt') == o.pop(k, 'dflt'),
                      where, op, k)
            elif op == 'popitem':
                check(attempt(t.popitem) == o.popitem(), where, op)
            elif op == 'update':
                pairs = [(K(), V()) for _ in range(rnd.randrange(5))]
                check(attempt(t.update, pairs) is None, where, op)
                o.update(pairs)
            elif op == 'update_dict':
                pairs = dict((K(), V()) for _ in range(rnd.randrange(5)))
                check(attempt(t.update, pairs) is None, where, op)
                o.update(pairs.items())
            elif op == 'clear':
                check(t.clear() is None, where, op)
                o.clear()
            elif op == 'get':
                k = K()
                check(t.get(k) == o.get(k), where, op, k)
            elif op == 'get_default':
                k = K()
                check(t.get(k, 'dflt') == o.get(k, 'dflt'), where, op, k)
            elif op == 'getitem':
                k = K()
                check(attempt(t.__getitem__, k) == o.getitem(k), where, op, k)
            elif op == 'contains':
                k = K()
                check((k in t) is o.contains(k), where, op, k)
            elif op == 'has_key':
                k = K()
                check(bool(t.has_key(k)) is o.contains(k), where, op, k)
        verify_state(t, o, is_set, is_tree, where)
    if is_tree and sizes is None:
        BTrees.check.check(t)   # (does not know subclasses)
    return t, o


def sweep(families=FAMILIES, kinds=KINDS, impls=IMPLS, node_sizes=NODE_SIZES,
          seeds=(1,), nops=120):
    n = 0
    for family in families:
        for kind in kinds:
            for impl in impls:
                for sizes in (node_sizes if 'Tree' in kind else (None,)):
                    for seed in seeds:
                        drive(family, kind, impl, sizes, seed, nops)
                        n += 1
    return n


def shape(x):
    """The pickled state of a container with the nodes it refers to
    replaced by *their* states: the full structure (splits, separators,
    leaf chain) as nested tuples."""
    if isinstance(x, tuple):
        return tuple(shape(s) for s in x)
    if isinstance(x, persistent.Persistent):
        name = type(x).__name__
        for kind in ('TreeSet', 'BTree', 'Bucket', 'Set'):
            if kind in name:
                break
        return (kind, shape(x.__getstate__()))
    return x


DIGEST_FAMILIES = ('OO', 'II', 'fs', 'LF', 'OQ', 'UO')

# sha1 over the structures reached by fixed histories, recorded from the
# unmodified sources (C build, pure-Python build).  The two builds split
# roots at different moments, hence two constants.
RECORDED_DIGESTS = {
    '': 'a4ce0a076ce11fcae3cf1fdc230dc55e1e41178e',
    'Py': 'd009fc9ca016a89efe1e3e7f3c76ef91efc0b3a1',
}


def structure_digest(impl, nops=120, seeds=(1, 2)):
    import hashlib
    h = hashlib.sha1()
    for family in DIGEST_FAMILIES:
        for kind in KINDS:
            for sizes in (NODE_SIZES[:5] if 'Tree' in kind else (None,)):
                for seed in seeds:
                    t, _ = drive(family, kind, impl, sizes, seed, nops)
                    h.update(repr(shape(t.__getstate__())).encode())
                    h.update(pickle.dumps(t.__getstate__(), 2)
                             if 'Tree' not in kind else b'')
    return h.hexdigest()


def check_structures():
    """Same histories -> same node structure and same pickled leaf states as
    before; and leaves of the two builds have equal states."""
    for impl in IMPLS:
        got = structure_digest(impl)
        check(got == RECORDED_DIGESTS[impl], 'structure digest',
              impl or 'C', got)
    for family in DIGEST_FAMILIES:
        for kind in ('Bucket', 'Set'):
            for seed in (1, 2, 3):
                tc, _ = drive(family, kind, '', None, seed, 100)
                tp, _ = drive(family, kind, 'Py', None, seed, 100)
                check(tc.__getstate__() == tp.__getstate__(),
                      family, kind, seed, 'C/Py leaf states')


# -- persistence notifications ---------------------------------------------

class Jar:
    """Just enough of a data manager to see change registrations."""

    def __init__(self):
        self.registered = []
        self.read_current = 0

    def register(self, obj):
        self.registered.append(obj)

    def readCurrent(self, obj):
        self.read_current += 1

    def setstate(self, obj):
        raise AssertionError('no ghosts expected')


def adopt(t, jar, n=1):
    t._p_jar = jar
    t._p_oid = n.to_bytes(8, 'big')
    t._p_serial = (1).to_bytes(8, 'big')
    t._p_changed = False


def changed_after(t, f, *args):
    """Run f(*args); report whether t was marked changed by it."""
    t._p_changed = False
    result = attempt(f, *args)
    flag = bool(t._p_changed)
    t._p_changed = False
    return flag, result


def persistence_leaf(family, kind, impl, seed, nops=150):
    """A leaf container registers a change exactly when its contents (or a
    stored value) change; lookups and failed calls never do."""
    rnd = random.Random(seed)
    cls = get_class(family, kind, impl)
    is_set = 'Set' in kind
    keys = key_pool(family)[:8]
    values = value_pool(family)
    # C skips the notification when an unboxed value is replaced by itself
    same_value_is_noop = impl == '' and family[1] != 'O'
    t = cls()
    jar = Jar()
    adopt(t, jar)
    model = {}
    label = 'persistence %s%s%s' % (family, kind, impl)
    for step in range(nops):
        k, v = rnd.choice(keys), rnd.choice(values)
        if is_set:
            op = rnd.choice(('add', 'remove', 'discard', 'contains', 'pop'))
            if op == 'add':
                expect = k not in model
                flag, _ = changed_after(t, t.add, k)
                model[k] = None
            elif op in ('remove', 'discard'):
                expect = k in model
                flag, _ = changed_after(t, getattr(t, op), k)
                model.pop(k, None)
            elif op == 'pop':
                expect = bool(model)
                flag, got = changed_after(t, t.pop)
                if model:
                    model.pop(got)
            else:
                expect = False
                flag, _ = changed_after(t, t.__contains__, k)
        else:
            op = rnd.choice(('set', 'set', 'del', 'setdefault', 'get',
                             'getitem', 'pop', 'popd'))
            if op == 'set':
                expect = not (k in model and same_value_is_noop
                              and model[k] == v)
                flag, _ = changed_after(t, t.__setitem__, k, v)
                model[k] = v
            elif op == 'del':
                expect = k in model
                flag, _ = changed_after(t, t.__delitem__, k)
                model.pop(k, None)
            elif op == 'setdefault':
                expect = k not in model
                flag, _ = changed_after(t, t.setdefault, k, v)
                model.setdefault(k, v)
            elif op == 'get':
                expect = False
                flag, _ = changed_after(t, t.get, k)
            elif op == 'getitem':
                expect = False
                flag, _ = changed_after(t, t.__getitem__, k)
            elif op == 'pop':
                expect = k in model
                flag, _ = changed_after(t, t.pop, k)
                model.pop(k, None)
            else:
                expect = k in model
                flag, _ = changed_after(t, t.pop, k, None)
                model.pop(k, None)
        check(flag is expect, label, 'step', step, op, k, v, flag, expect)
        check(sorted(model, key=sort_key) == list(t), label, 'contents')
    t._p_jar = None


# -- reference counts -------------------------------------------------------

class Obj:
    """An object key/value with a total order, never interned or cached."""
    __slots__ = ('n',)

    def __init__(self, n):
        self.n = n

    def __lt__(self, other):
        return self.n < other.n

    def __eq__(self, other):
        return isinstance(other, Obj) and self.n == other.n

    def __hash__(self):
        return hash(self.n)

    def __repr__(self):
        return 'Obj(%r)' % self.n


def refcount_history(kind, impl, sizes, seed, nops=300):
    """Object keys and values: while the history runs a leaf container owns
    exactly one reference per stored key and per stored value; when the
    container is gone every reference has been given back."""
    rnd = random.Random(seed)
    cls = get_class('OO', kind, impl, sizes)
    is_set = 'Set' in kind
    is_leaf = 'Tree' not in kind
    keys = [Obj(i) for i in range(12)]
    values = [Obj(100 + i) for i in range(5)]
    gc.collect()
    def counts(objs):
        return [sys.getrefcount(objs[n]) for n in range(len(objs))]

    base_k = counts(keys)
    base_v = counts(values)
    t = cls()
    present = {}        # index of key -> index of value
    label = 'refcounts OO%s%s %s' % (kind, impl, sizes)
    for step in range(nops):
        i = rnd.randrange(len(keys))
        j = rnd.randrange(len(values))
        op = rnd.choice(('set', 'set', 'del', 'del', 'setdefault', 'pop',
                         'popmin', 'miss', 'clear'))
        if op == 'clear' and rnd.random() < 0.8:
            op = 'set'
        if is_set:
            if op in ('set', 'setdefault'):
                t.add(keys[i])
                present[i] = None
            elif op == 'del':
                if i in present:
                    t.remove(keys[i])
                    del present[i]
                else:
                    t.discard(keys[i])
            elif op in ('pop', 'popmin'):
                if present:
                    got = t.pop()
                    check(got is keys[min(present)], label, 'pop identity')
                    del got
                    del present[min(present)]
            elif op == 'miss':
                if i not in present:
                    check(attempt(t.remove, keys[i]) == Raised(KeyError),
                          label, 'remove missing')
            else:
                t.clear()
                present.clear()
        else:
            if op == 'set':
                t[keys[i]] = values[j]
                present[i] = j
            elif op == 'setdefault':
                got = t.setdefault(keys[i], values[j])
                present.setdefault(i, j)
                check(got is values[present[i]], label, 'setdefault identity')
                del got
            elif op == 'del':
                if i in present:
                    del t[keys[i]]
                    del present[i]
            elif op == 'pop':
                got = t.pop(keys[i], None)
                check(got is (values[present[i]] if i in present else None),
                      label, 'pop identity')
                del got
                present.pop(i, None)
            elif op == 'popmin':
                if present:
                    got = t.popitem()
                    m = min(present)
                    check(got[0] is keys[m] and got[1] is values[present[m]],
                          label, 'popitem identity')
                    del got
                    del present[m]
            elif op == 'miss':
                if i not in present:
                    check(attempt(t.__delitem__, keys[i]) == Raised(KeyError),
                          label, 'del missing')
            else:
                t.clear()
                present.clear()
        if is_leaf:
            now = counts(keys)
            for n in range(len(keys)):
                check(now[n] - base_k[n] == (n in present),
                      label, 'step', step, op, 'key refcount', n)
            if not is_set:
                held = list(present.values())
                now = counts(values)
                for n in range(len(values)):
                    check(now[n] - base_v[n] == held.count(n),
                          label, 'step', step, op, 'value refcount', n)
        check([k.n for k in t] == sorted(present), label, 'contents')
    del t
    gc.collect()
    check(counts(keys) == base_k, label, 'key references not balanced')
    check(counts(values) == base_v, label, 'value references not balanced')

# ---------------------------------------------------------------------------
# C01r: the pure-Python leaf mutators Bucket._set / Bucket._del / Bucket.pop
# and Set._set / Set._del (_base.py).  Checked directly (status codes as
# documented in Bucket._set's docstring), through every public caller, and
# against the C build driven by the same calls.
# ---------------------------------------------------------------------------

def leaf_status_codes():
    for family in FAMILIES:
        pool = key_pool(family)[:7]
        vals = value_pool(family)
        B = get_class(family, 'Bucket', 'Py')
        S = get_class(family, 'Set', 'Py')
        label = 'r/%s status' % family
        for n in range(0, 7):
            for k in pool:
                stored = pool[:n]
                model = dict((x, vals[i % len(vals)])
                             for i, x in enumerate(stored))
                v_new = vals[-1]
                # Bucket._set
                b = B(model)
                jar = Jar()
                adopt(b, jar)
                got = b._set(k, v_new)
                if k in model:
                    check(got == (0, v_new), label, '_set replace', got)
                else:
                    check(got == (1, v_new), label, '_set insert', got)
                check(b._p_changed is True, label, '_set notifies')
                model2 = dict(model)
                model2[k] = v_new
                check(list(b.items()) ==
                      sorted(model2.items(), key=lambda kv: sort_key(kv[0])),
                      label, '_set contents')
                check(len(b._keys) == len(b._values) == len(model2), label)
                # Bucket._set(..., ifunset=True)
                b = B(model)
                adopt(b, jar)
                got = b._set(k, v_new, True)
                if k in model:
                    check(got == (None, model[k]), label, 'ifunset', got)
                    check(b._p_changed is False, label, 'ifunset is silent')
                    check(list(b.items()) == sorted(
                        model.items(), key=lambda kv: sort_key(kv[0])), label)
                else:
                    check(got == (1, v_new), label, 'ifunset insert', got)
                    check(b._p_changed is True, label)
                # Bucket._del
                b = B(model)
                adopt(b, jar)
                if k in model:
                    check(b._del(k) == (0, model[k]), label, '_del')
                    check(b._p_changed is True, label, '_del notifies')
                    check(list(b) == [x for x in stored if x != k], label)
                    check(len(b._keys) == len(b._values) == n - 1, label)
                else:
                    try:
                        b._del(k)
                    except KeyError as e:
                        check(e.args == (k,), label, 'KeyError args', e.args)
                    else:
                        check(False, label, '_del absent did not raise')
                    check(b._p_changed is False, label, 'failed _del silent')
                    check(list(b.items()) == sorted(
                        model.items(), key=lambda kv: sort_key(kv[0])), label)
                # Bucket.pop
                b = B(model)
                adopt(b, jar)
                if k in model:
                    check(b.pop(k) == model[k], label, 'pop')
                    check(b._p_changed is True, label)
                    check(b.pop(k, 'again') == 'again', label)
                else:
                    check(attempt(b.pop, k) == Raised(KeyError), label)
                    check(b.pop(k, None) is None, label, 'pop default None')
                    check(b.pop(k, 'd') == 'd', label, 'pop default')
                    check(b._p_changed is False, label, 'failed pop silent')
                b._p_jar = None
                # Set._set / Set._del
                s = S(stored)
                adopt(s, jar)
                got = s._set(k)
                check(got == ((False, None) if k in stored else (True, None)),
                      label, 'Set._set', got)
                check(got[0] is (k not in stored), label, 'Set._set is bool')
                check(s._p_changed is (k not in stored), label,
                      'Set._set notification')
                check(list(s) == sorted(set(stored) | {k}, key=sort_key),
                      label, 'Set._set contents')
                s = S(stored)
                adopt(s, jar)
                if k in stored:
                    check(s._del(k) == (0, 0), label, 'Set._del')
                    check(s._p_changed is True, label)
                    check(list(s) == [x for x in stored if x != k], label)
                else:
                    try:
                        s._del(k)
                    except KeyError as e:
                        check(e.args == (k,), label, 'KeyError args', e.args)
                    else:
                        check(False, label, 'Set._del absent did not raise')
                    check(s._p_changed is False, label)
                    check(list(s) == stored, label)
                s._p_jar = None


def value_same_check_hook():
    """A subclass may switch VALUE_SAME_CHECK on: storing an equal value is
    then 'no change' (status None, no notification)."""
    from BTrees.IIBTree import IIBucketPy

    class Same(IIBucketPy):
        VALUE_SAME_CHECK = True

    b = Same({1: 10, 2: 20})
    adopt(b, Jar())
    check(b._set(1, 10) == (None, 10) and b._p_changed is False, 'r/same')
    check(b._set(1, 11) == (0, 11) and b._p_changed is True, 'r/differs')
    b._p_changed = False
    check(b._set(3, 30) == (1, 30) and b._p_changed is True, 'r/new')
    b._p_changed = False
    check(b._set(3, 31, True) == (None, 30) and b._p_changed is False,
          'r/ifunset')
    b[2] = 20
    check(b._p_changed is False and list(b.items()) ==
          [(1, 11), (2, 20), (3, 30)], 'r/same via []')
    b._p_jar = None


def python_against_c():
    """The same calls on the C and the pure-Python leaf: same results, same
    exception classes, same pickled state after every call."""
    for family in FAMILIES:
        pool = key_pool(family)
        vals = value_pool(family)
        for seed in (1, 2):
            rnd = random.Random(seed)
            bc = get_class(family, 'Bucket', '')()
            bp = get_class(family, 'Bucket', 'Py')()
            sc = get_class(family, 'Set', '')()
            sp = get_class(family, 'Set', 'Py')()
            label = 'r/%s C vs Py seed %d' % (family, seed)
            for step in range(150):
                k, v = rnd.choice(pool), rnd.choice(vals)
                op = rnd.choice(('set', 'set', 'del', 'pop', 'popd',
                                 'setdefault', 'popitem', 'get'))
                for c, p in ((bc, bp),):
                    if op == 'set':
                        args = ('__setitem__', k, v)
                    elif op == 'del':
                        args = ('__delitem__', k)
                    elif op == 'pop':
                        args = ('pop', k)
                    elif op == 'popd':
                        args = ('pop', k, 'd')
                    elif op == 'setdefault':
                        args = ('setdefault', k, v)
                    elif op == 'popitem':
                        args = ('popitem',)
                    else:
                        args = ('get', k, 'd')
                    rc = attempt(getattr(c, args[0]), *args[1:])
                    rp = attempt(getattr(p, args[0]), *args[1:])
                    check(rc == rp, label, step, args, rc, rp)
                    check(c.__getstate__() == p.__getstate__(), label, step,
                          'bucket states')
                sop = rnd.choice(('add', 'add', 'remove', 'discard', 'pop'))
                sargs = (sop,) if sop == 'pop' else (sop, k)
                rc = attempt(getattr(sc, sargs[0]), *sargs[1:])
                rp = attempt(getattr(sp, sargs[0]), *sargs[1:])
                if sop == 'add':
                    rc, rp = int(rc), int(rp)
                check(rc == rp, label, step, sargs, rc, rp)
                check(sc.__getstate__() == sp.__getstate__(), label, step,
                      'set states')


def main():
    leaf_status_codes()
    value_same_check_hook()
    python_against_c()
    for family in ('OO', 'II', 'IF', 'OI', 'fs', 'LQ'):
        for kind in ('Bucket', 'Set'):
            for impl in IMPLS:
                if family == 'fs' and kind == 'Bucket':
                    continue
                persistence_leaf(family, kind, impl, 3)
                persistence_leaf(family, kind, impl, 4)
    for kind in KINDS:
        for sizes in (((1, 2), (2, 2), None) if 'Tree' in kind
                      else (None,)):
            for seed in (5, 6):
                refcount_history(kind, 'Py', sizes, seed)
    n = sweep(nops=100)
    check_structures()
    print('C01r demo: %d histories, %d checks, all passed' % (n, CHECKS[0]))


if __name__ == '__main__':
    main()
