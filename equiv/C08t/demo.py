"""Demo for refactoring C08/t: the write path of interior tree nodes in C
(_BTree_set in BTreeTemplate.c with its new helpers BTree_child_for_write,
BTree_leftmost_leaf and BTree_child_too_big).  The pure-Python _Tree._set /
_Tree._del are held to the same specification (with the documented
differences between the two implementations spelled out in the checks).

Run as:  PYTHONPATH=<tree>/src /venv/bin/python demo.py

What is checked (exit 0 iff everything holds):

 1. in-memory differential test: random inserts / deletes / setdefault / pop
    / clear on trees with tiny nodes (subclasses with max_leaf_size and
    max_internal_size of 2..4, eleven families) against a dict model;
    soundness of the node structure (separators, bucket chain, firstbucket)
    all along;
 2. read dependencies: on trees stored in a tiny stand-in object database
    (storage with revisions, connections with a PickleCache, ghosts,
    optimistic commit with conflict resolution - no ZODB needed), every
    write - successful or not - calls jar.readCurrent() exactly for the
    stored interior nodes on the descent path, root first; pure reads call
    neither readCurrent() nor register();
 3. error paths: unconvertible keys and values, failing comparisons (in the
    search and in the separator test after a delete), failing
    readCurrent() at every level, children/leaves that cannot be loaded
    (every node of the tree in turn), unusable node sizes on the class;
 4. reference counts of object keys (separator keys are released exactly
    once, nothing leaks);
 5. the concurrency property itself on random schedules: two short
    transactions started from the same committed tree and committed one
    after the other either conflict (leaving no trace) or yield a sound
    tree equal to the serial result or to the key-wise merge;
 6. the same for the dangerous schedules: delete-smallest-key against
    insert-just-above/below, emptying a leaf against inserting into it,
    splitting against deleting, clear against leaf-local changes;
 7. order of events inside one write (comparisons, declarations, loads,
    registrations) and writes during which the object cache is swept;
 8. a digest over everything observable in 1-7 (results, exception types,
    jar call logs, stored pickles, node shapes) equals the value recorded
    on the unmodified tree.
"""
import hashlib
import os
import importlib
import io
import pickle
import random
import sys
import gc
import time
from bisect import bisect_right

from persistent import Persistent, PickleCache
from BTrees.Interfaces import BTreesConflictError

T0 = time.time()
SEED = 80808
FOCUS = 'c'          # which implementation gets the larger iteration counts

_digest = hashlib.sha256()
_digest_count = [0]


def note(*things):
    """Feed something observable into the behaviour digest."""
    _digest.update(repr(things).encode('utf-8', 'backslashreplace'))
    _digest.update(b'\n')
    _digest_count[0] += 1


class Failure(Exception):
    pass


def ensure(cond, *msg):
    if not cond:
        raise Failure(' '.join(str(m) for m in msg))


# --------------------------------------------------------------------------
# families
# --------------------------------------------------------------------------

def _fs_key(i):
    return bytes((i // 256 % 256, i % 256))


def _fs_val(i):
    return (b'%06d' % (i % 1000000))


class Family:
    def __init__(self, prefix, is_set, impl, leaf, internal):
        mod = importlib.import_module('BTrees.%sBTree' % prefix)
        suffix = 'Py' if impl == 'py' else ''
        if prefix == 'fs':
            base = getattr(mod, 'fsBTree' + suffix)
            self.key = _fs_key
            self.val = _fs_val
        else:
            base = getattr(mod, prefix + ('TreeSet' if is_set else 'BTree')
                           + suffix)
            self.key = (lambda i: i)
            if prefix[1] == 'F':
                self.val = (lambda i: float(i) / 2)
            else:
                self.val = (lambda i: i)
        self.prefix = prefix
        self.is_set = is_set
        self.impl = impl
        name = 'T_%s_%s_%s_%d_%d' % (prefix, 'set' if is_set else 'map',
                                     impl, leaf, internal)
        self.cls = type(base)(name, (base,), {
            'max_leaf_size': leaf, 'max_internal_size': internal})
        self.cls.__module__ = '__main__'
        globals()[name] = self.cls
        self.name = name
        self.base = base

    def __repr__(self):
        return self.name


def families(impls, shapes):
    out = []
    for impl in impls:
        for prefix, is_set in (('OO', False), ('OO', True), ('II', False),
                               ('IO', False), ('OI', False), ('LL', True),
                               ('LF', False), ('fs', False), ('QQ', False),
                               ('UO', False), ('IU', True)):
            for leaf, internal in shapes:
                out.append(Family(prefix, is_set, impl, leaf, internal))
    return out


# --------------------------------------------------------------------------
# structure walker (works for C and Python trees alike)
# --------------------------------------------------------------------------

def is_tree(node):
    return hasattr(node, '_firstbucket')


def node_state(node):
    return node.__getstate__()


def descent_path(tree, key):
    """Nodes a write of key walks through, root first, leaf last."""
    path = []
    node = tree
    while True:
        path.append(node)
        if not is_tree(node):
            return path
        st = node_state(node)
        if st is None:
            return path
        if len(st) == 1:
            path.append(node._firstbucket)
            return path
        data = st[0]
        seps = list(data[1::2])
        node = data[0::2][bisect_right(seps, key)]


def check_sound(tree):
    """Raise Failure unless tree is a sound B+tree; return its item list."""
    tree._check()
    leaves = []
    everything = []

    def walk(node, lo, hi, top):
        if is_tree(node):
            st = node_state(node)
            if st is None:
                ensure(top, 'empty interior node')
                ensure(node._firstbucket is None, 'empty tree w/ firstbucket')
                return
            if len(st) == 1:
                n_before = len(leaves)
                walk(node._firstbucket, lo, hi, False)
                ensure(len(leaves) == n_before + 1, 'inline child not a leaf')
                return
            data, first = st
            children = data[0::2]
            seps = data[1::2]
            ensure(len(children) == len(seps) + 1, 'odd state')
            for a, b in zip(seps, seps[1:]):
                ensure(a < b, 'separators out of order', a, b)
            if seps:
                ensure(lo is None or lo <= seps[0], 'separator below range')
                ensure(hi is None or seps[-1] < hi, 'separator above range')
            n_before = len(leaves)
            for i, c in enumerate(children):
                walk(c, seps[i - 1] if i else lo,
                     seps[i] if i < len(seps) else hi, False)
            ensure(first is leaves[n_before], 'wrong firstbucket')
            ensure(node._firstbucket is first, 'firstbucket attr')
        else:
            keys = list(node.keys())
            ensure(keys, 'empty leaf')
            for a, b in zip(keys, keys[1:]):
                ensure(a < b, 'leaf keys out of order')
            ensure(lo is None or lo <= keys[0], 'leaf key below separator',
                   lo, keys[0])
            ensure(hi is None or keys[-1] < hi, 'leaf key above separator',
                   keys[-1], hi)
            leaves.append(node)
            everything.extend(keys)

    walk(tree, None, None, True)
    chain = []
    b = tree._firstbucket
    while b is not None:
        chain.append(b)
        b = b._next
    ensure(len(chain) == len(leaves), 'bucket chain length')
    for a, b in zip(chain, leaves):
        ensure(a is b, 'bucket chain differs from leaves')
    ensure(list(tree.keys()) == everything, 'iteration differs from leaves')
    return everything


def contents(tree, fam):
    if fam.is_set:
        return dict((k, None) for k in tree.keys())
    return dict(tree.items())


def shape(tree):
    """A picklable description of the node structure (for the digest)."""
    def walk(node):
        if is_tree(node):
            st = node_state(node)
            if st is None:
                return ('T',)
            if len(st) == 1:
                return ('T', walk(node._firstbucket))
            data = st[0]
            return ('T',) + tuple(
                walk(x) if not i % 2 else ('k', x)
                for i, x in enumerate(data))
        return ('B', len(node))
    return walk(tree)


# --------------------------------------------------------------------------
# a tiny object database: storage with revisions, connections with a
# snapshot, optimistic commits with conflict resolution and readCurrent
# --------------------------------------------------------------------------

class MiniConflict(Exception):
    pass


class Ref:
    """Stand-in for a persistent reference during conflict resolution."""
    __slots__ = ('oid', 'clsname')

    def __init__(self, oid, clsname):
        self.oid = oid
        self.clsname = clsname

    def __eq__(self, other):
        return isinstance(other, Ref) and other.oid == self.oid

    def __ne__(self, other):
        return not self.__eq__(other)

    __hash__ = None


CLASSES = {}


def clsname(cls):
    name = cls.__module__ + ':' + cls.__name__
    CLASSES[name] = cls
    return name


class Storage:
    def __init__(self):
        self.revs = {}      # oid -> [(tid, clsname, data), ...]
        self.tid = 0
        self.n_oid = 0

    def new_oid(self):
        self.n_oid += 1
        return b'%08d' % self.n_oid

    def clone(self):
        other = Storage()
        other.revs = dict((k, list(v)) for k, v in self.revs.items())
        other.tid = self.tid
        other.n_oid = self.n_oid
        return other

    def load_before(self, oid, tid):
        """Newest revision with a transaction id <= tid."""
        for rev in reversed(self.revs[oid]):
            if rev[0] <= tid:
                return rev
        raise KeyError(oid)

    def current_tid(self, oid):
        return self.revs[oid][-1][0]


def tid_bytes(tid):
    return tid.to_bytes(8, 'big')


class Connection:
    def __init__(self, storage):
        self.storage = storage
        self.snapshot = storage.tid
        self.cache = PickleCache(self)
        self.registered = []
        self.read_current = {}
        self.added = {}
        self.log = []
        self.muted = 0
        self.fail_setstate = ()
        self.fail_read_current = ()
        self.on_event = None

    # -- the data manager interface used by persistent objects --------------
    def _event(self, what, obj):
        if not self.muted:
            self.log.append((what, obj._p_oid))
        if self.on_event is not None:
            self.on_event(what, obj)

    def setstate(self, obj):
        self._event('setstate', obj)
        if obj._p_oid in self.fail_setstate:
            raise IOError('cannot load', obj._p_oid)
        tid, _, data = self.storage.load_before(obj._p_oid, self.snapshot)
        obj.__setstate__(self.loads(data))
        obj._p_serial = tid_bytes(tid)

    def register(self, obj):
        self._event('register', obj)
        self.registered.append(obj)

    def readCurrent(self, obj):
        self._event('readCurrent', obj)
        if obj._p_oid in self.fail_read_current:
            raise MiniConflict('read conflict (injected)', obj._p_oid)
        self.read_current.setdefault(obj._p_oid, obj._p_serial)

    # -- object access --------------------------------------------------------
    def get(self, oid, name=None):
        obj = self.cache.get(oid)
        if obj is None:
            obj = self.added.get(oid)
        if obj is None:
            if name is None:
                name = self.storage.load_before(oid, self.snapshot)[1]
            cls = CLASSES[name]
            obj = cls.__new__(cls)
            self.cache.new_ghost(oid, obj)
        return obj

    def add(self, obj):
        ensure(obj._p_oid is None, 'already stored')
        obj._p_jar = self
        obj._p_oid = self.storage.new_oid()
        self.added[obj._p_oid] = obj
        self.registered.append(obj)
        return obj._p_oid

    # -- (de)serialisation ----------------------------------------------------
    def dumps(self, state, new_objects):
        f = io.BytesIO()
        p = pickle.Pickler(f, 3)

        def persistent_id(o):
            if isinstance(o, Ref):
                return (o.oid, o.clsname)
            if isinstance(o, Persistent):
                if o._p_oid is None:
                    o._p_jar = self
                    o._p_oid = self.storage.new_oid()
                    self.added[o._p_oid] = o
                    new_objects.append(o)
                else:
                    ensure(o._p_jar is self, 'cross-connection reference')
                return (o._p_oid, clsname(type(o)))
            return None

        p.persistent_id = persistent_id
        p.dump(state)
        return f.getvalue()

    def loads(self, data, refs=None):
        u = pickle.Unpickler(io.BytesIO(data))
        if refs is None:
            u.persistent_load = lambda pid: self.get(*pid)
        else:
            u.persistent_load = (
                lambda pid: refs.setdefault(pid[0], Ref(*pid)))
        return u.load()

    # -- commit ---------------------------------------------------------------
    def commit(self):
        st = self.storage
        ensure(not self.muted, 'commit while muted')
        self.muted += 1
        try:
            return self._commit(st)
        finally:
            self.muted -= 1

    def _commit(self, st):
        pending = {}
        # Like ZODB: registered objects in order; the new objects a record
        # refers to are written right after it, last found first (so the
        # chain of new leaves is written before the new interior nodes and
        # no interior node below the root embeds a leaf that has no oid yet).
        queue = list(reversed(self.registered))
        outcome = []
        while queue:
            obj = queue.pop()
            oid = obj._p_oid
            if oid in pending:
                continue
            new_objects = []
            data = self.dumps(obj.__getstate__(), new_objects)
            queue.extend(new_objects)
            name = clsname(type(obj))
            resolved = False
            if oid in st.revs and tid_bytes(st.current_tid(oid)) \
                    != obj._p_serial:
                old = st.load_before(oid, int.from_bytes(obj._p_serial,
                                                         'big'))
                ensure(tid_bytes(old[0]) == obj._p_serial, 'odd serial')
                com = st.revs[oid][-1]
                data = self.resolve(type(obj), old[2], com[2], data)
                resolved = True
                outcome.append(('resolved', oid))
            pending[oid] = (name, data, obj, resolved)
        for oid, serial in sorted(self.read_current.items()):
            if oid in pending or oid not in st.revs:
                continue
            if tid_bytes(st.current_tid(oid)) != serial:
                raise MiniConflict('read conflict', oid)
        st.tid += 1
        for oid, (name, data, obj, resolved) in pending.items():
            st.revs.setdefault(oid, []).append((st.tid, name, data))
            if oid in self.added:
                self.cache[oid] = obj
            if resolved:
                obj._p_invalidate()
            else:
                obj._p_changed = False
                obj._p_serial = tid_bytes(st.tid)
        self.registered = []
        self.read_current = {}
        self.added = {}
        self.snapshot = st.tid
        return outcome

    def resolve(self, cls, old, com, new):
        refs = {}
        states = [self.loads(x, refs) for x in (old, com, new)]
        inst = cls.__new__(cls)
        try:
            merged = inst._p_resolveConflict(*states)
        except BTreesConflictError as e:
            raise MiniConflict('unresolved', tuple(e.args))
        return self.dumps(merged, [])


def store_tree(fam, items):
    """A storage holding one committed tree; return (storage, root oid)."""
    st = Storage()
    conn = Connection(st)
    tree = fam.cls()
    fill(tree, fam, items)
    oid = conn.add(tree)
    conn.commit()
    return st, oid


def fill(tree, fam, ints):
    for i in ints:
        if fam.is_set:
            tree.add(fam.key(i))
        else:
            tree[fam.key(i)] = fam.val(i)


def open_tree(st, oid):
    conn = Connection(st)
    return conn, conn.get(oid)


# --------------------------------------------------------------------------
# operations and their model
# --------------------------------------------------------------------------

def outcome_of(fn, *args):
    try:
        return ('ok', fn(*args))
    except BaseException as e:
        if isinstance(e, (Failure, KeyboardInterrupt, SystemExit,
                          MemoryError)):
            raise
        args = tuple(a for a in e.args
                     if isinstance(a, (int, bytes, float)))
        return ('exc', type(e).__name__, args)


def apply_op(tree, fam, op):
    kind, i, j = op
    k = fam.key(i)
    if kind == 'set':
        if fam.is_set:
            return tree.add(k)
        tree[k] = fam.val(j)
        return None
    if kind == 'del':
        if fam.is_set:
            return tree.remove(k)
        del tree[k]
        return None
    if kind == 'setdefault':
        return tree.setdefault(k, fam.val(j))
    if kind == 'pop':
        return tree.pop(k)
    if kind == 'popd':
        return tree.pop(k, 'nope')
    if kind == 'clear':
        return tree.clear()
    if kind == 'insert':        # unique insert; 1 if inserted
        return tree.insert(k, fam.val(j))
    if kind == 'discard':
        return tree.discard(k)
    raise Failure('unknown op %r' % (op,))


def apply_model(model, fam, op):
    kind, i, j = op
    k = fam.key(i)
    v = None if fam.is_set else fam.val(j)
    if kind == 'set':
        if fam.is_set:
            r = 0 if k in model else 1
            model[k] = None
            return r
        model[k] = v
        return None
    if kind == 'del':
        del model[k]        # KeyError if missing
        return None
    if kind == 'setdefault':
        return model.setdefault(k, v)
    if kind == 'pop':
        return model.pop(k)
    if kind == 'popd':
        return model.pop(k, 'nope')
    if kind == 'clear':
        return model.clear()
    if kind == 'insert':
        if k in model:
            return 0
        model[k] = v
        return 1
    if kind == 'discard':
        model.pop(k, None)
        return None
    raise Failure('unknown op %r' % (op,))


def ops_for(fam):
    if fam.is_set:
        return ('set', 'del', 'set', 'del', 'discard')
    return ('set', 'del', 'setdefault', 'pop', 'popd', 'set', 'del',
            'insert')


# --------------------------------------------------------------------------
# 1. in-memory differential test
# --------------------------------------------------------------------------

def section_memory(fams, steps):
    rng = random.Random(SEED + 1)
    for fam in fams:
        tree = fam.cls()
        model = {}
        span = rng.choice((12, 30, 70))
        kinds = ops_for(fam)
        for n in range(steps):
            if rng.random() < 0.01:
                op = ('clear', 0, 0)
            else:
                op = (rng.choice(kinds), rng.randrange(span),
                      rng.randrange(1000))
            got = outcome_of(apply_op, tree, fam, op)
            want = outcome_of(apply_model, model, fam, op)
            if want[0] == 'exc':
                ensure(got[:2] == want[:2], fam, op, got, want)
            elif op[0] in ('discard',):
                ensure(got[0] == 'ok', fam, op, got)
            else:
                ensure(got == want, fam, op, got, want)
            if n % 7 == 0 or n == steps - 1:
                keys = check_sound(tree)
                ensure(keys == sorted(model), fam, 'keys differ')
                ensure(contents(tree, fam) == model, fam, 'contents differ')
                ensure(len(tree) == len(model), fam, 'len')
                if model:
                    ensure(tree.minKey() == min(model), fam, 'minKey')
                    ensure(tree.maxKey() == max(model), fam, 'maxKey')
            if n % 40 == 0:
                note('mem', fam.name, n, shape(tree))
        note('mem-end', fam.name, sorted(model.items()), shape(tree))


# --------------------------------------------------------------------------
# 2. read dependencies
# --------------------------------------------------------------------------

def expected_reads(path, impl):
    # The C code goes through cPersistence's readCurrent(), which talks to
    # the jar only for objects without uncommitted changes (a changed object
    # is checked by the commit anyway); the Python code asks the jar always.
    return [('readCurrent', n._p_oid) for n in path
            if is_tree(n) and n._p_oid is not None and n._p_jar is not None
            and not (impl == 'c' and n._p_changed)]


DELETES = ('del', 'pop', 'popd', 'discard')


def takes_write_path(fam, kind, present, empty):
    """Does this operation walk down the tree with the intent to write?

    Some entry points look the key up first (a pure read) and only go down
    the write path when there is something to do.
    """
    if fam.impl == 'c':
        if kind == 'setdefault':
            return not present
        if kind in ('pop', 'popd'):
            return present
        if empty and kind in DELETES:
            # deleting from an empty root is refused before anything is
            # looked at
            return False
        return True
    if kind == 'discard':
        return present
    return True


def only(log, what):
    return [e for e in log if e[0] == what]


def section_reads(fams):
    rng = random.Random(SEED + 2)
    for fam in fams:
        for nkeys in (0, 1, 3, 9, 30):
            base = list(range(0, 2 * nkeys, 2))
            st0, oid = store_tree(fam, base)
            st = st0.clone()
            probes = sorted(set(
                [-1, 0, 1] + [rng.randrange(-2, 2 * nkeys + 2)
                              for _ in range(3)] + base[-1:]))
            # -- one write per fresh connection: all nodes start as ghosts
            for i in probes:
                for kind in ops_for(fam):
                    if i < 0 and fam.prefix in ('fs', 'UO', 'IU', 'QQ'):
                        continue
                    shadow, stree = open_tree(st, oid)
                    path = descent_path(stree, fam.key(i))
                    want = [('readCurrent', n._p_oid) for n in path
                            if is_tree(n)]
                    if not takes_write_path(fam, kind, i in base, not base):
                        want = []
                    conn, tree = open_tree(st, oid)
                    model = dict((fam.key(b), None if fam.is_set
                                  else fam.val(b)) for b in base)
                    op = (kind, i, i + 500)
                    got = outcome_of(apply_op, tree, fam, op)
                    exp = outcome_of(apply_model, model, fam, op)
                    ensure(got[:2] == exp[:2], fam, op, got, exp)
                    log = list(conn.log)
                    ensure(only(log, 'readCurrent') == want,
                           fam, nkeys, op, 'readCurrent calls', log, want)
                    if exp[0] == 'exc' or kind in ('setdefault', 'insert',
                                                   'popd', 'discard'):
                        pass
                    changed = contents(tree, fam) != dict(
                        (fam.key(b), None if fam.is_set else fam.val(b))
                        for b in base)
                    if changed:
                        ensure(only(log, 'register'), fam, op,
                               'change without register')
                    ensure(contents(tree, fam) == model, fam, op, 'contents')
                    note('rc1', fam.name, nkeys, op, got, log)
                    # the change survives a commit and a reload
                    conn.commit()
                    c3, t3 = open_tree(st, oid)
                    check_sound(t3)
                    ensure(contents(t3, fam) == model, fam, op, 'reloaded')
                    note('rc1-stored', fam.name, nkeys, op,
                         sorted(st.revs), st.revs[oid][-1][2])
                    # undo for the next probe: restore the base tree
                    st = st0.clone()

            # -- several writes in one transaction; nodes created by splits
            #    have no oid yet and must not be declared
            conn, tree = open_tree(st, oid)
            model = dict((fam.key(b), None if fam.is_set else fam.val(b))
                         for b in base)
            for n in range(40):
                op = (rng.choice(ops_for(fam)), rng.randrange(2 * nkeys + 6),
                      rng.randrange(1000))
                conn.muted += 1
                path = descent_path(tree, fam.key(op[1]))
                conn.muted -= 1
                want = expected_reads(path, fam.impl)
                if not takes_write_path(fam, op[0], fam.key(op[1]) in model,
                                        not model):
                    want = []
                del conn.log[:]
                got = outcome_of(apply_op, tree, fam, op)
                exp = outcome_of(apply_model, model, fam, op)
                ensure(got[:2] == exp[:2], fam, op, got, exp)
                ensure(only(conn.log, 'readCurrent') == want, fam, op,
                       'readCurrent calls (multi)', conn.log, want)
                note('rc2', fam.name, nkeys, op, got, list(conn.log))
                if n % 10 == 9:
                    conn.commit()
                    note('rc2-commit', sorted(st.revs))
            conn.muted += 1
            check_sound(tree)
            ensure(contents(tree, fam) == model, fam, 'multi contents')
            conn.muted -= 1

            # -- pure reads declare nothing and register nothing
            conn, tree = open_tree(st0, oid)
            ks = [fam.key(i) for i in range(0, 2 * nkeys + 2)]
            for k in ks[:12]:
                if not fam.is_set:
                    tree.get(k)
                k in tree
                tree.has_key(k)
            len(tree)
            list(tree.keys())
            list(tree.keys(ks[1], ks[-1]))
            list(iter(tree))
            if not fam.is_set:
                list(tree.items(ks[0], ks[-1], True, True))
                list(tree.values())
                list(tree.iteritems())
            if nkeys:
                tree.minKey()
                tree.maxKey()
                note('rd-minmax', outcome_of(tree.minKey, ks[1]),
                     outcome_of(tree.maxKey, ks[-2]))
            bool(tree)
            ensure(not only(conn.log, 'readCurrent'), fam, 'read declared')
            ensure(not only(conn.log, 'register'), fam, 'read registered')
            ensure(not conn.registered and not conn.read_current, fam)
            note('rd', fam.name, nkeys, list(conn.log))


# --------------------------------------------------------------------------
# 3. error paths
# --------------------------------------------------------------------------

class Key:
    """Object key with scriptable comparison failures."""
    boom = None         # set to a value: comparing that key raises
    hook = None
    trace = None
    alive = 0

    def __init__(self, v):
        self.v = v
        Key.alive += 1

    def __del__(self):
        Key.alive -= 1

    def _cmp(self, other, opname):
        if Key.trace is not None:
            Key.trace.append((opname, self.v, getattr(other, 'v', other)))
        if Key.hook is not None:
            Key.hook(self, other)
        if Key.boom is not None and (self.v == Key.boom or
                                     getattr(other, 'v', None) == Key.boom):
            raise RuntimeError('boom', Key.boom)

    def __lt__(self, other):
        self._cmp(other, 'lt')
        return self.v < other.v

    def __eq__(self, other):
        self._cmp(other, 'eq')
        return isinstance(other, Key) and self.v == other.v

    def __le__(self, other):
        self._cmp(other, 'le')
        return self.v <= other.v

    def __gt__(self, other):
        self._cmp(other, 'gt')
        return self.v > other.v

    def __ge__(self, other):
        self._cmp(other, 'ge')
        return self.v >= other.v

    def __ne__(self, other):
        return not self.__eq__(other)

    def __hash__(self):
        return hash(self.v)

    def __repr__(self):
        return 'Key(%r)' % (self.v,)


def snapshot_keys(tree):
    Key.boom, saved = None, Key.boom
    hook, Key.hook = Key.hook, None
    trace, Key.trace = Key.trace, None
    try:
        return [getattr(k, 'v', k) for k in tree.keys()]
    finally:
        Key.boom = saved
        Key.hook = hook
        Key.trace = trace


def section_errors(impls):
    for impl in impls:
        # -- unconvertible keys: nothing is declared, nothing changes
        for prefix in ('II', 'LF', 'IO', 'fs'):
            fam = Family(prefix, False, impl, 3, 3)
            st, oid = store_tree(fam, range(20))
            conn, tree = open_tree(st, oid)
            for bad in ('x', None, 2 ** 70, 1.5, b'abc', ()):
                for fn in (lambda t, k: t.__setitem__(k, fam.val(1)),
                           lambda t, k: t.__delitem__(k),
                           lambda t, k: t.pop(k),
                           lambda t, k: t.setdefault(k, fam.val(1))):
                    got = outcome_of(fn, tree, bad)
                    ensure(got[0] == 'exc', fam, bad, got)
                    note('badkey', fam.name, repr(bad), got)
            ensure(not only(conn.log, 'readCurrent'), fam, conn.log)
            ensure(not only(conn.log, 'register'), fam, conn.log)
            ensure(contents(tree, fam) == dict(
                (fam.key(i), fam.val(i)) for i in range(20)), fam)
            note('badkey-log', fam.name, list(conn.log))

        # -- unconvertible value on insert into an empty stored tree: the
        #    tree must stay a legitimate empty tree
        fam = Family('OI', False, impl, 3, 3)
        st, oid = store_tree(fam, [])
        conn, tree = open_tree(st, oid)
        got = outcome_of(tree.__setitem__, 1, 'not an int')
        ensure(got[0] == 'exc', got)
        ensure(len(tree) == 0 and not tree, 'tree not empty')
        tree._check()
        note('badvalue', impl, got, list(conn.log), shape(tree))
        tree[1] = 2
        check_sound(tree)
        note('badvalue2', impl, list(conn.log), shape(tree))

        # -- default-comparison keys are refused on insert
        fam = Family('OO', False, impl, 3, 3)
        tree = fam.cls()
        got = outcome_of(tree.__setitem__, object(), 1)
        ensure(got[:2] == ('exc', 'TypeError'), got)
        ensure(len(tree) == 0, 'tree not empty')
        tree._check()

        # -- failing comparisons while searching a node, or (deletes) when
        #    the deleted key is compared with the separator afterwards
        for is_set in (False, True):
            fam = Family('OO', is_set, impl, 2, 2)
            for boom in (0, 2, 8, 16, 20, 30, 38):
                for probe in (boom, boom + 1, boom - 1, 39):
                    for kind in ('set', 'del'):
                        tree = fam.cls()
                        keys = [Key(i) for i in range(0, 40, 2)]
                        for k in keys:
                            if is_set:
                                tree.add(k)
                            else:
                                tree[k] = k.v
                        before = shape_keys(tree)
                        Key.boom = boom
                        Key.trace = []
                        k = Key(probe)
                        if kind == 'set':
                            fn = tree.add if is_set else (
                                lambda key: tree.__setitem__(key, 1))
                        else:
                            fn = tree.remove if is_set else tree.__delitem__
                        got = outcome_of(fn, k)
                        trace = Key.trace
                        Key.boom = None
                        Key.trace = None
                        after = shape_keys(tree)
                        note('cmpfail', impl, is_set, boom, probe, kind, got,
                             trace, after)
                        if got[:2] == ('exc', 'RuntimeError') and \
                                kind == 'set':
                            ensure(after == before,
                                   'failed insert changed the tree')
                        check_sound_keys(tree)
                        del k, tree, keys, fn
                        gc.collect()
                        ensure(Key.alive == 0, 'leaked keys', Key.alive)

        # -- readCurrent() itself fails at some level of the descent
        fam = Family('OO', False, impl, 2, 2)
        st, oid = store_tree(fam, range(0, 60, 2))
        shadow, stree = open_tree(st, oid)
        for i in (0, 1, 31, 58, 59):
            path = [n for n in descent_path(stree, i) if is_tree(n)]
            for level in range(len(path)):
                for kind in ('set', 'del', 'setdefault', 'pop'):
                    conn, tree = open_tree(st, oid)
                    conn.fail_read_current = (path[level]._p_oid,)
                    got = outcome_of(apply_op, tree, fam, (kind, i, 7))
                    if not takes_write_path(fam, kind, i % 2 == 0, False):
                        ensure(not only(conn.log, 'readCurrent'), conn.log)
                        note('rcfail-read', impl, i, level, kind, got)
                        continue
                    ensure(got[:2] == ('exc', 'MiniConflict'), got)
                    want = [('readCurrent', n._p_oid)
                            for n in path[:level + 1]]
                    ensure(only(conn.log, 'readCurrent') == want,
                           'readCurrent prefix', conn.log, want)
                    ensure(not only(conn.log, 'register'), conn.log)
                    ensure(not conn.registered, 'registered')
                    conn.fail_read_current = ()
                    conn.muted += 1
                    check_sound(tree)
                    ensure(contents(tree, fam) == dict(
                        (j, j) for j in range(0, 60, 2)), 'changed')
                    conn.muted -= 1
                    note('rcfail', impl, i, level, kind, got, list(conn.log))
        # ... and on an empty stored tree, which must stay empty and usable
        st, oid = store_tree(fam, [])
        conn, tree = open_tree(st, oid)
        conn.fail_read_current = (oid,)
        got = outcome_of(tree.__setitem__, 5, 5)
        ensure(got[:2] == ('exc', 'MiniConflict'), got)
        conn.fail_read_current = ()
        ensure(len(tree) == 0 and not tree and list(tree.keys()) == [],
               'not empty')
        tree._check()
        note('rcfail-empty', impl, got, list(conn.log), tree._p_changed,
             shape(tree))
        tree[5] = 5
        check_sound(tree)
        ensure(list(tree.items()) == [(5, 5)], 'insert after failure')

        # -- a node on the way cannot be loaded
        fam = Family('OO', False, impl, 2, 2)
        st, oid = store_tree(fam, range(0, 60, 2))
        shadow, stree = open_tree(st, oid)
        all_oids = sorted(st.revs)
        for i in (0, 1, 14, 31, 58):
            path = descent_path(stree, i)
            for level in range(len(path)):
                for kind in ('set', 'del'):
                    conn, tree = open_tree(st, oid)
                    conn.fail_setstate = (path[level]._p_oid,)
                    got = outcome_of(apply_op, tree, fam, (kind, i, 7))
                    ensure(got[:2] == ('exc', 'OSError'), got)
                    ensure(not conn.registered, 'registered')
                    conn.fail_setstate = ()
                    want = [('readCurrent', n._p_oid)
                            for n in path[:level] if is_tree(n)]
                    ensure(only(conn.log, 'readCurrent') == want,
                           'readCurrent before failed load', conn.log, want)
                    note('loadfail', impl, i, level, kind, got,
                         list(conn.log))
                    conn.muted += 1
                    check_sound(tree)
                    conn.muted -= 1
        # deleting the smallest key of an interior child whose leaf goes
        # away makes the parent look at the child's *new* first leaf, which
        # is still a ghost; every node that can fail to load is tried
        prepared = {}
        for i in (8, 24, 48):
            stp = st.clone()
            conn, tree = open_tree(stp, oid)
            # empty the leaf holding i but for i itself
            leaf = descent_path(tree, i)[-1]
            for k in list(leaf.keys()):
                if k != i:
                    del tree[k]
            conn.commit()
            prepared[i] = stp
        for victim in all_oids:
            for i in sorted(prepared):
                c2, t2 = open_tree(prepared[i].clone(), oid)
                c2.fail_setstate = (victim,)
                got = outcome_of(lambda: t2.__delitem__(i))
                c2.fail_setstate = ()
                note('loadfail2', impl, victim, i, got, list(c2.log),
                     [o._p_oid for o in c2.registered])
                if got[0] == 'ok':
                    c2.muted += 1
                    check_sound(t2)
                    ensure(i not in t2, 'key still there')
                    c2.muted -= 1
                else:
                    ensure(got[:2] == ('exc', 'OSError'), got)

        # -- unusable node sizes on the class
        for prefix in ('OO', 'II'):
            for attr in ('max_leaf_size', 'max_internal_size'):
                for bad in (0, -3, 'big'):
                    fam = Family(prefix, False, impl, 3, 3)
                    t = fam.cls()
                    setattr(fam.cls, attr, bad)
                    got = outcome_of(t.__setitem__, 1, 1)
                    note('badsize', impl, prefix, attr, bad, got, len(t))
                    if impl == 'c':
                        ensure(got[0] == 'exc', attr, bad, got)
                        ensure(len(t) == 0, 'tree not empty')
                        t._check()
                        got = outcome_of(t.__delitem__, 1)
                        ensure(got[:2] == ('exc', 'KeyError'), got)


def shape_keys(tree):
    Key.boom, saved = None, Key.boom
    trace, Key.trace = Key.trace, None
    try:
        def walk(node):
            if is_tree(node):
                st = node_state(node)
                if st is None:
                    return ('T',)
                if len(st) == 1:
                    return ('T', walk(node._firstbucket))
                return ('T',) + tuple(
                    walk(x) if not i % 2 else ('k', x.v)
                    for i, x in enumerate(st[0]))
            return ('B',) + tuple(k.v for k in node.keys())
        return walk(tree)
    finally:
        Key.boom = saved
        Key.trace = trace


def check_sound_keys(tree):
    trace, Key.trace = Key.trace, None
    try:
        check_sound(tree)
    finally:
        Key.trace = trace


# --------------------------------------------------------------------------
# 4. reference counts
# --------------------------------------------------------------------------

def section_refcounts(impls):
    rng = random.Random(SEED + 4)
    for impl in impls:
        for is_set in (False, True):
            fam = Family('OO', is_set, impl, 2, 2)
            tree = fam.cls()
            keys = [Key(i) for i in range(64)]

            def refs():
                return [sys.getrefcount(keys[x]) for x in range(len(keys))]

            base = refs()
            inside = set()
            history = []
            for n in range(1500):
                i = rng.randrange(64)
                if i in inside and rng.random() < 0.6:
                    if is_set:
                        tree.remove(Key(i))
                    else:
                        del tree[Key(i)]
                    inside.discard(i)
                else:
                    if is_set:
                        tree.add(keys[i])
                    else:
                        tree[keys[i]] = i
                    inside.add(i)
                if n % 50 == 0:
                    check_sound_keys(tree)
                    gc.collect()    # check_sound's closure is cyclic garbage
                    counts = [a - b for a, b in zip(refs(), base)]
                    for i, c in enumerate(counts):
                        if i not in inside:
                            # (the Python nodes keep the old separator in
                            # the unused key slot 0 of a split-off node)
                            ensure(c == 0 or impl == 'py',
                                   'stale reference to key', i, c)
                        else:
                            # the leaf, plus separators above it
                            ensure(1 <= c <= 12, 'odd refcount', i, c)
                    history.append(tuple(counts))
            note('refs', impl, is_set, history)
            # delete everything in ascending order: every leaf's smallest
            # key goes first, so separators are rewritten all the time
            for i in sorted(inside):
                if is_set:
                    tree.remove(keys[i])
                else:
                    del tree[keys[i]]
                ensure(sys.getrefcount(keys[i]) == base[i] or impl == 'py',
                       'ref kept', i)
            ensure(len(tree) == 0, 'not empty')
            tree._check()
            ensure(refs() == base, 'refs differ')
            del tree, keys
            gc.collect()
            ensure(Key.alive == 0, 'leaked keys', Key.alive)


# --------------------------------------------------------------------------
# 5. the concurrency property
# --------------------------------------------------------------------------

def txn_ops(rng, fam, base, universe):
    """A short transaction valid on the base contents."""
    ops = []
    model = dict(base)
    for _ in range(rng.choice((1, 1, 1, 2, 3))):
        r = rng.random()
        present = sorted(model)
        if r < 0.04:
            ops.append(('clear', 0, 0))
            model.clear()
        elif r < 0.45 and present:
            k = rng.choice(present[:2] + present[-1:] + present)
            ops.append(('del', k, 0))
            del model[k]
        elif r < 0.6 and present and not fam.is_set:
            k = rng.choice(present)
            v = rng.randrange(1000, 2000)
            ops.append(('set', k, v))
            model[k] = v
        else:
            k = rng.randrange(universe)
            v = rng.randrange(1000, 2000)
            ops.append(('set', k, v))
            model[k] = v
    return ops


def run_ops(tree, fam, ops):
    for op in ops:
        apply_op(tree, fam, op)


def model_after(fam, model, ops):
    model = dict(model)
    for op in ops:
        apply_model(model, fam, op)
    return model


def check_schedule(fam, ints, first, second, stats):
    """Commit `first` then `second`, both started from the same tree."""
    st, oid = store_tree(fam, ints)
    c1, t1 = open_tree(st, oid)
    c2, t2 = open_tree(st, oid)
    run_ops(t1, fam, first)
    run_ops(t2, fam, second)
    fbase = dict((fam.key(i), None if fam.is_set else fam.val(i))
                 for i in ints)
    m1 = model_after(fam, fbase, first)
    m2 = model_after(fam, fbase, second)
    ensure(contents(t1, fam) == m1 and contents(t2, fam) == m2,
           'transaction sees foreign changes')
    c1.commit()
    try:
        res = c2.commit()
        outcome = ('committed', tuple(res))
    except MiniConflict as e:
        outcome = ('conflict',) + tuple(e.args)
    c3, t3 = open_tree(st, oid)
    check_sound(t3)
    final = contents(t3, fam)
    if outcome[0] == 'conflict':
        ensure(final == m1, fam, first, second, 'failed commit left traces')
        kind = 'conflict'
    else:
        allowed = []
        try:
            allowed.append(model_after(fam, m1, second))
        except KeyError:
            pass
        d1 = delta(fbase, m1)
        d2 = delta(fbase, m2)
        if not set(d1) & set(d2):
            merged = dict(fbase)
            patch(merged, d1)
            patch(merged, d2)
            allowed.append(merged)
        ensure(final in allowed, fam, ints, first, second, outcome,
               'unexplainable outcome', final)
        kind = 'merged' if outcome[1] else 'committed'
    stats[kind] = stats.get(kind, 0) + 1
    note('conc', fam.name, ints, first, second, outcome,
         sorted(final.items()), shape(t3))
    return outcome


def section_concurrency(fams, rounds):
    rng = random.Random(SEED + 5)
    stats = {}
    for fam in fams:
        for nkeys in (1, 2, 4, 7, 12, 24):
            for r in range(rounds):
                step = rng.choice((2, 3))
                ints = list(range(1, step * nkeys + 1, step))
                universe = step * nkeys + 3
                base = dict((i, i) for i in ints)
                ops1 = txn_ops(rng, fam, base, universe)
                ops2 = txn_ops(rng, fam, base, universe)
                check_schedule(fam, ints, ops1, ops2, stats)
                check_schedule(fam, ints, ops2, ops1, stats)
    return stats


def section_dangerous(fams):
    """The schedules that combine a structural change by one transaction
    with a leaf-local change by the other."""
    stats = {}
    for fam in fams:
        for nkeys in (2, 5, 9):
            ints = list(range(10, 10 + 4 * nkeys, 4))
            st, oid = store_tree(fam, ints)
            conn, tree = open_tree(st, oid)
            leaves = []
            b = tree._firstbucket
            while b is not None:
                leaves.append([k for k in ints if fam.key(k) in b])
                b = b._next
            for n, leaf in enumerate(leaves):
                lo = leaf[0]
                pairs = [
                    # delete the smallest key of a leaf / insert just above
                    # it (below the separator the parent gets afterwards)
                    ([('del', lo, 0)], [('set', lo + 1, 5)]),
                    ([('del', lo, 0)], [('set', lo - 1, 5)]),
                    # empty a leaf altogether / insert into it
                    ([('del', k, 0) for k in leaf], [('set', lo + 1, 5)]),
                    ([('del', k, 0) for k in leaf], [('del', leaf[-1], 0)]),
                    # split a leaf / delete from it
                    ([('set', lo + 1, 1), ('set', lo + 2, 2),
                      ('set', lo + 3, 3)], [('del', lo, 0)]),
                    ([('set', lo + 1, 1), ('set', lo + 2, 2),
                      ('set', lo + 3, 3)], [('set', leaf[-1] + 1, 0)]),
                    # clear / leaf-local change
                    ([('clear', 0, 0)], [('set', lo + 1, 5)]),
                    ([('clear', 0, 0)], [('del', lo, 0)]),
                    ([('clear', 0, 0), ('set', lo, 9)], [('set', lo + 1, 5)]),
                ]
                if not fam.is_set:
                    pairs.append(([('del', lo, 0)], [('set', lo, 77)]))
                    pairs.append(([('clear', 0, 0)], [('set', lo, 77)]))
                for first, second in pairs:
                    o1 = check_schedule(fam, ints, first, second, stats)
                    o2 = check_schedule(fam, ints, second, first, stats)
                    if len(leaves) > 1 and first[0][0] == 'clear':
                        # the cleared root was read by the other writer
                        ensure(o1[0] == 'conflict', fam, ints, first, second,
                               'insert under a cleared root committed')
    return stats


_gone = object()


def delta(base, after):
    d = {}
    for k in set(base) | set(after):
        a = base.get(k, _gone)
        b = after.get(k, _gone)
        if (a is _gone) != (b is _gone) or a != b:
            d[k] = b
    return d


def patch(model, d):
    for k, v in d.items():
        if v is _gone:
            del model[k]
        else:
            model[k] = v


# --------------------------------------------------------------------------
# 7. order of events inside one write; cache sweeps in the middle of a write
# --------------------------------------------------------------------------

EVENTS = []


class PKey:
    """Picklable object key that reports its comparisons."""
    hook = None

    def __init__(self, v):
        self.v = v

    def _c(self, other):
        EVENTS.append(('cmp', self.v, getattr(other, 'v', None)))
        if PKey.hook is not None:
            PKey.hook()

    def __lt__(self, other):
        self._c(other)
        return self.v < other.v

    def __le__(self, other):
        self._c(other)
        return self.v <= other.v

    def __gt__(self, other):
        self._c(other)
        return self.v > other.v

    def __ge__(self, other):
        self._c(other)
        return self.v >= other.v

    def __eq__(self, other):
        self._c(other)
        return isinstance(other, PKey) and self.v == other.v

    def __ne__(self, other):
        return not self.__eq__(other)

    def __hash__(self):
        return hash(self.v)

    def __repr__(self):
        return 'PKey(%r)' % (self.v,)


def plain_keys(tree):
    hook, PKey.hook = PKey.hook, None
    n = len(EVENTS)
    try:
        return [k.v for k in tree.keys()]
    finally:
        del EVENTS[n:]
        PKey.hook = hook


def section_order(impls):
    for impl in impls:
        for is_set in (False, True):
            fam = Family('OO', is_set, impl, 2, 3)
            fam.key = PKey
            ints = list(range(0, 44, 2))
            st0, oid = store_tree(fam, ints)
            for i in (0, 1, 7, 20, 21, 42, 43, 50):
                for kind in ('set', 'del'):
                    conn, tree = open_tree(st0.clone(), oid)
                    conn.on_event = (
                        lambda what, obj: EVENTS.append((what, obj._p_oid)))
                    del EVENTS[:]
                    got = outcome_of(apply_op, tree, fam, (kind, i, 1))
                    events = list(EVENTS)
                    conn.on_event = None
                    note('order', impl, is_set, i, kind, got, events)
                    reads = [n for n, e in enumerate(events)
                             if e[0] == 'readCurrent']
                    cmps = [n for n, e in enumerate(events)
                            if e[0] == 'cmp']
                    ensure(reads and cmps, 'nothing happened?', events)
                    ensure(events[reads[0]][1] == oid, 'root not first')
                    if impl == 'py':
                        # a node is declared before it is searched
                        ensure(reads[0] < cmps[0], 'py: search before '
                               'declaration', events)
                    else:
                        # a node is searched, then declared, then left
                        ensure(cmps[0] < reads[0], 'c: declaration before '
                               'search', events)
                    # nothing is registered before the last declaration
                    regs = [n for n, e in enumerate(events)
                            if e[0] == 'register']
                    ensure(not regs or regs[0] > reads[-1],
                           'modified before all declarations', events)
                    want = sorted(set(ints) | {i}) if kind == 'set' \
                        else sorted(set(ints) - {i})
                    ensure(plain_keys(tree) == want, 'contents')

            # the object cache is swept in the middle of a write: every
            # unmodified node that is not pinned turns into a ghost and is
            # loaded again when touched
            for i in (0, 1, 6, 20, 21, 42, 43):
                for kind in ('set', 'del'):
                    conn, tree = open_tree(st0.clone(), oid)
                    conn.muted += 1
                    plain_keys(tree)        # load everything
                    conn.muted -= 1
                    del EVENTS[:]
                    total = len([1 for e in events_of(
                        lambda: apply_op(open_tree(st0.clone(), oid)[1],
                                         fam, (kind, i, 1)))
                        if e[0] == 'cmp'])
                    for when in range(1, total + 1):
                        conn, tree = open_tree(st0.clone(), oid)
                        conn.muted += 1
                        plain_keys(tree)
                        conn.muted -= 1
                        counter = [0]

                        def hook():
                            counter[0] += 1
                            if counter[0] == when:
                                conn.cache.minimize()

                        del EVENTS[:]
                        PKey.hook = hook
                        got = outcome_of(apply_op, tree, fam, (kind, i, 1))
                        PKey.hook = None
                        want = sorted(set(ints) | {i}) if kind == 'set' \
                            else sorted(set(ints) - {i})
                        if got[0] == 'exc':
                            want = sorted(ints)
                        conn.muted += 1
                        ensure(plain_keys(tree) == want, impl, is_set, i,
                               kind, when, 'contents after a sweep', got)
                        hookless_check(tree)
                        conn.muted -= 1
                        conn.commit()
                        c3, t3 = open_tree(conn.storage, oid)
                        ensure(plain_keys(t3) == want, 'stored contents')
                        hookless_check(t3)
                        note('sweep', impl, is_set, i, kind, when, got,
                             list(conn.log), sorted(conn.storage.revs))


def events_of(fn):
    del EVENTS[:]
    hook, PKey.hook = PKey.hook, None
    try:
        outcome_of(fn)
        return list(EVENTS)
    finally:
        PKey.hook = hook
        del EVENTS[:]


def hookless_check(tree):
    hook, PKey.hook = PKey.hook, None
    n = len(EVENTS)
    try:
        check_sound(tree)
    finally:
        PKey.hook = hook
        del EVENTS[n:]


# --------------------------------------------------------------------------

# Recorded on the unmodified tree (worktree HEAD) with /venv/bin/python.
# Set DEMO_NO_DIGEST=1 to skip the comparison (all other checks stay on).
EXPECTED_DIGEST = (
    'd0bb09180204bcf48cfb92b6dd880f800e26449cbe4c3d2e034c38eb1068509f')


def main():
    impls = ('c', 'py')
    big = 3 if FOCUS == 'c' else 1
    pbig = 1 if FOCUS == 'c' else 3
    shapes = ((2, 2), (3, 2), (4, 3))
    section_memory(families(('c',), shapes), 120 * big)
    section_memory(families(('py',), shapes), 120 * pbig)
    print('1 memory        ok  %5.1fs' % (time.time() - T0))
    section_reads([f for f in families(impls, ((2, 2), (3, 3)))
                   if f.prefix in ('OO', 'LF', 'fs', 'IU')
                   or (f.prefix == 'II' and FOCUS == f.impl)])
    print('2 read deps     ok  %5.1fs' % (time.time() - T0))
    section_errors(impls)
    print('3 error paths   ok  %5.1fs' % (time.time() - T0))
    section_refcounts(impls)
    print('4 refcounts     ok  %5.1fs' % (time.time() - T0))
    stats = section_concurrency(families(('c',), ((2, 2), (3, 3))), 2 * big)
    stats2 = section_concurrency(families(('py',), ((2, 2), (3, 3))),
                                 2 * pbig)
    print('5 concurrency   ok  %5.1fs  %r %r' % (time.time() - T0,
                                                 sorted(stats.items()),
                                                 sorted(stats2.items())))
    some = [f for f in families(impls, ((2, 2), (3, 3)))
            if f.prefix in ('OO', 'LF', 'IU')]
    stats = section_dangerous(some)
    print('6 dangerous     ok  %5.1fs  %r' % (time.time() - T0,
                                              sorted(stats.items())))
    section_order(impls)
    print('7 event order   ok  %5.1fs' % (time.time() - T0))
    digest = _digest.hexdigest()
    print('digest', digest, 'over', _digest_count[0], 'observations')
    if (EXPECTED_DIGEST is not None and digest != EXPECTED_DIGEST
            and not os.environ.get('DEMO_NO_DIGEST')):
        raise Failure('behaviour digest differs from the recorded one')
    print('OK')


if __name__ == '__main__':
    try:
        main()
    except Failure as e:
        print('FAILED:', e)
        sys.exit(1)
