"""Differential demo for refactoring v
(Length.__init__, Length.__setstate__, Length.set, Length.__getstate__).

Run as:  PYTHONPATH=<tree>/src /venv/bin/python demo.py
Exits 0 when the four methods behave as a plain cell around the single
attribute ``value``:
  * __init__(v=0), __setstate__(v), set(v): exactly one attribute store of the
    very object passed in, return None, no dispatch through an overridable
    method of ``self``;
  * __getstate__(): exactly one attribute read, the stored object is returned
    by identity, the object is not marked changed;
  * pickles are byte-for-byte what they were and round trip in all protocols;
  * persistence effects through a stand-in jar (ghost loading, registration).
"""
import copy
import copyreg
import pickle
import random
import sys

from persistent import PickleCache

from BTrees.Length import Length

FAILS = []


def check(cond, what):
    if not cond:
        FAILS.append(what)
        print("FAIL:", what)


class Jar(object):
    """Tiny stand-in for a ZODB connection; states are kept as pickles."""

    def __init__(self):
        self.store = {}
        self.setstates = []
        self.registered = []
        self._cache = PickleCache(self)
        self._n = 0

    def add(self, obj):
        self._n += 1
        oid = ('%08d' % self._n).encode('ascii')
        obj._p_jar = self
        obj._p_oid = oid
        self._cache[oid] = obj
        self.commit(obj)
        return oid

    def setstate(self, obj):
        self.setstates.append(obj._p_oid)
        obj.__setstate__(pickle.loads(self.store[obj._p_oid]))

    def register(self, obj):
        self.registered.append(obj._p_oid)

    def commit(self, obj):
        self.store[obj._p_oid] = pickle.dumps(obj.__getstate__(), 3)
        obj._p_changed = False

    def reset(self):
        del self.setstates[:]
        del self.registered[:]


LOG = []


class Boom(Exception):
    pass


class Logged(Length):
    """Length whose ``value`` attribute is a logging property."""
    fail_get = False
    fail_set = False

    def _get(self):
        LOG.append(('get',))
        if self.fail_get:
            raise Boom('get')
        return self.__dict__.get('_cell', 0)

    def _set(self, v):
        LOG.append(('set', v))
        if self.fail_set:
            raise Boom('set')
        self.__dict__['_cell'] = v

    value = property(_get, _set)


class Hostile(Length):
    """Every overridable entry point except the one under test explodes.

    The base-class methods must store/read the attribute themselves and
    must not dispatch through ``self.<method>``.
    """
    armed = ()

    def set(self, v):
        if 'set' in self.armed:
            raise AssertionError("dispatched through self.set")
        return Length.set(self, v)

    def __setstate__(self, v):
        if 'setstate' in self.armed:
            raise AssertionError("dispatched through self.__setstate__")
        return Length.__setstate__(self, v)

    def __getstate__(self):
        if 'getstate' in self.armed:
            raise AssertionError("dispatched through self.__getstate__")
        return Length.__getstate__(self)

    def __call__(self, *args):
        if 'call' in self.armed:
            raise AssertionError("dispatched through self.__call__")
        return Length.__call__(self, *args)

    def change(self, delta):
        raise AssertionError("dispatched through self.change")


def rand_int(rng):
    kind = rng.randrange(5)
    if kind == 0:
        return rng.randrange(-5, 6)
    if kind == 1:
        return rng.randrange(-2 ** 31, 2 ** 31)
    if kind == 2:
        return rng.randrange(-2 ** 64, 2 ** 64)
    if kind == 3:
        return rng.randrange(-2 ** 300, 2 ** 300)
    return rng.choice([0, 1, -1, 255, 256, 65535, 65536, sys.maxsize,
                       -sys.maxsize - 1, 2 ** 63, 2 ** 64 - 1])


def expected_pickle_p2(n):
    # protocol 2 pickle of Length(n): class by global name, copyreg
    # __newobj__ with no arguments, then BUILD with the bare integer state
    body = pickle.dumps(n, 2)
    assert body[:2] == b'\x80\x02' and body[-1:] == b'.'
    return (b'\x80\x02cBTrees.Length\nLength\nq\x00)\x81q\x01'
            + body[2:-1] + b'b.')


def main():
    rng = random.Random(19001912)

    # ---- 0. golden pickle (fixed bytes, not computed) ---------------------
    check(pickle.dumps(Length(5), 2) ==
          b'\x80\x02cBTrees.Length\nLength\nq\x00)\x81q\x01K\x05b.',
          "golden protocol 2 pickle of Length(5): %r"
          % (pickle.dumps(Length(5), 2),))
    check(pickle.dumps(Length(), 2) ==
          b'\x80\x02cBTrees.Length\nLength\nq\x00)\x81q\x01K\x00b.',
          "golden protocol 2 pickle of Length()")

    # ---- 1. randomized differential run against a model -------------------
    jar = Jar()
    cells = []
    for i in range(8):
        start = rand_int(rng)
        how = i % 4
        if how == 0:
            obj = Length(start)
        elif how == 1:
            obj = Length(v=start)
        elif how == 2:
            obj = Length.__new__(Length)
            obj.__setstate__(start)
        else:
            obj = Length()
            check(obj.__dict__ == {'value': 0}, "Length() stores 0")
            obj.set(start)
        if i >= 4:
            jar.add(obj)
        cells.append([obj, start])
    for step in range(30000):
        k = rng.randrange(len(cells))
        cell = cells[k]
        obj, model = cell
        op = rng.randrange(12)
        saved = obj._p_jar is not None
        if op < 3:
            v = rand_int(rng)
            clean = saved and not obj._p_changed
            nreg = len(jar.registered)
            res = obj.set(v)
            cell[1] = v
            check(res is None, "set returns None")
            check(obj.__dict__['value'] is v, "set stores the very object")
            if saved:
                check(obj._p_changed is True, "set marks changed")
                check(len(jar.registered) == nreg + (1 if clean else 0),
                      "set registers a clean object once")
        elif op < 6:
            st = obj.__getstate__()
            check(st == model and type(st) is int, "getstate == model")
            check(st is obj.__dict__['value'], "getstate returns stored object")
        elif op == 6:
            v = rand_int(rng)
            res = obj.__setstate__(v)
            cell[1] = v
            check(res is None, "__setstate__ returns None")
            check(obj.__dict__['value'] is v, "__setstate__ stores the object")
        elif op == 7:
            proto = rng.randrange(0, pickle.HIGHEST_PROTOCOL + 1)
            data = pickle.dumps(obj, proto)
            if proto == 2:
                check(data == expected_pickle_p2(model),
                      "protocol 2 bytes for %r" % (model,))
            clone = pickle.loads(data)
            check(type(clone) is Length and clone.__getstate__() == model
                  and clone() == model, "pickle round trip p%d" % proto)
            check(clone._p_jar is None and clone._p_oid is None,
                  "clone is unsaved")
            check(clone.__dict__ == {'value': model}, "clone dict")
            check(obj.__reduce__() == (copyreg.__newobj__, (Length,), model),
                  "__reduce__")
        elif op == 8:
            c1 = copy.copy(obj)
            c2 = copy.deepcopy(obj)
            check(c1() == model and c2() == model, "copy / deepcopy")
            c1.set(model + 1)
            check(obj.__getstate__() == model, "copies are independent")
        elif op == 9 and saved:
            jar.commit(obj)
            check(pickle.loads(jar.store[obj._p_oid]) == model, "stored state")
            obj._p_deactivate()
            check(obj._p_state == -1 and obj.__dict__ == {}, "ghost")
            nload = len(jar.setstates)
            nreg = len(jar.registered)
            which = rng.randrange(3)
            if which == 0:
                check(obj.__getstate__() == model, "ghost getstate loads")
                check(obj._p_state == 0, "still clean after getstate")
                check(len(jar.registered) == nreg, "getstate: no register")
            elif which == 1:
                v = rand_int(rng)
                obj.set(v)
                cell[1] = v
                check(obj._p_state == 1 and len(jar.registered) == nreg + 1,
                      "ghost set: changed + registered")
            else:
                obj._p_activate()
                check(obj._p_state == 0 and obj.__dict__ == {'value': model},
                      "activate goes through __setstate__")
            check(len(jar.setstates) == nload + 1, "exactly one load")
        elif op == 10:
            # conflict resolution over the pickled states of two edits
            x = rand_int(rng)
            y = rand_int(rng)
            t1 = pickle.loads(pickle.dumps(obj, 2))
            t2 = pickle.loads(pickle.dumps(obj, 2))
            t1.set(model + x)
            t2.set(model + y)
            r = Length.__new__(Length)
            m = r._p_resolveConflict(obj.__getstate__(), t1.__getstate__(),
                                     t2.__getstate__())
            m2 = r._p_resolveConflict(obj.__getstate__(), t2.__getstate__(),
                                      t1.__getstate__())
            check(m == m2 == model + x + y, "counter law")
        elif op == 11:
            # replace the cell by a freshly constructed one now and then
            if not saved and rng.randrange(4) == 0:
                v = rand_int(rng)
                cell[0] = Length(v)
                cell[1] = v
    for obj, model in cells:
        check(obj() == model and obj.__getstate__() == model, "final value")
    check(Length.value == 0, "class default untouched")
    check(len(jar.setstates) > 100, "ghost paths exercised")

    # ---- 2. persistence effects in detail ---------------------------------
    jar = Jar()
    a = Length(10)
    oid = jar.add(a)
    jar.reset()
    check(a.__getstate__() == 10 and (a._p_state, jar.registered) == (0, []),
          "getstate leaves object clean")
    check(a.set(11) is None and (a._p_state, jar.registered) == (1, [oid]),
          "set -> changed, registered")
    a.set(12)
    check(jar.registered == [oid], "no second registration")
    jar.commit(a)
    jar.reset()
    # __setstate__ called directly on a clean saved object is an ordinary
    # attribute store as far as Persistent is concerned
    a.__setstate__(13)
    direct = (a._p_state, list(jar.registered))
    check(direct == (1, [oid]),
          "direct __setstate__ on clean object: %r" % (direct,))
    jar.commit(a)
    jar.reset()
    # __setstate__ called by the jar while loading a ghost: clean afterwards
    a._p_deactivate()
    a._p_activate()
    check((a._p_state, jar.setstates, jar.registered, a.__dict__) ==
          (0, [oid], [], {'value': 13}), "load via jar: clean, unregistered")
    # set on a ghost: load first, then store
    a._p_deactivate()
    jar.reset()
    a.set(14)
    check((a._p_state, jar.setstates, jar.registered, a.__dict__) ==
          (1, [oid], [oid], {'value': 14}), "set on ghost")
    jar.commit(a)
    # __init__ re-run on a saved clean object behaves like a store
    jar.reset()
    a.__init__()
    check((a._p_state, jar.registered, a.__dict__) == (1, [oid], {'value': 0}),
          "__init__ re-run stores the default 0")
    jar.commit(a)
    a.__init__(v=21)
    check(a() == 21, "__init__(v=...)")

    # ---- 3. signatures -----------------------------------------------------
    b = Length()
    check(b.__dict__ == {'value': 0} and b.__getstate__() == 0, "default 0")
    b.set(v=3)
    check(b() == 3, "set(v=...)")
    b.__setstate__(v=4)
    check(b() == 4, "__setstate__(v=...)")
    for fn, args, kw in [
            (Length, (1, 2), {}), (Length, (), {'value': 1}),
            (b.set, (), {}), (b.set, (1, 2), {}), (b.set, (), {'value': 1}),
            (b.__setstate__, (), {}), (b.__setstate__, (1, 2), {}),
            (b.__getstate__, (1,), {}), (b.__getstate__, (), {'v': 1})]:
        try:
            fn(*args, **kw)
        except TypeError:
            pass
        else:
            check(False, "TypeError expected for %r %r %r" % (fn, args, kw))
    check(b() == 4, "unchanged by failed calls")

    # ---- 4. arbitrary objects are stored by identity, never inspected -----
    class Opaque(object):
        __slots__ = ()

        def __eq__(self, other):
            raise AssertionError("value compared")

        def __bool__(self):
            raise AssertionError("value truth-tested")

        __hash__ = None

    for make in (lambda v: Length(v),
                 lambda v: (lambda o: (o.set(v), o)[1])(Length()),
                 lambda v: (lambda o: (o.__setstate__(v), o)[1])(
                     Length.__new__(Length))):
        for v in [Opaque(), None, [], 'text', 1.5, (), {}]:
            o = make(v)
            check(o.__getstate__() is v and o() is v and
                  o.__dict__['value'] is v, "identity of %r" % (type(v),))
    # None / falsy states survive pickling like any other
    for v in [None, 0, '', (), 0.0, False, [1, [2]], 'text', 2 ** 100]:
        for proto in range(0, pickle.HIGHEST_PROTOCOL + 1):
            o = pickle.loads(pickle.dumps(Length(v), proto))
            want = 0 if v is None else v     # state None: BUILD is skipped
            got = o.__getstate__()
            check(got == want and type(got) is type(want),
                  "round trip of state %r p%d -> %r" % (v, proto, got))

    # ---- 5. no dispatch through overridable methods ------------------------
    Hostile.armed = ('set', 'setstate', 'getstate', 'call')
    h = Hostile(5)                                   # __init__
    check(h.__dict__ == {'value': 5}, "__init__ stores directly")
    Length.set(h, 6)
    check(h.__dict__ == {'value': 6}, "set stores directly")
    Length.__setstate__(h, 7)
    check(h.__dict__ == {'value': 7}, "__setstate__ stores directly")
    check(Length.__getstate__(h) == 7, "__getstate__ reads directly")
    Hostile.armed = ()

    # ---- 6. attribute traffic (value as a logging property) ---------------
    del LOG[:]
    p = Logged(3)
    check(LOG == [('set', 3)], "__init__: exactly one write: %r" % (LOG,))
    del LOG[:]
    p = Logged()
    check(LOG == [('set', 0)], "__init__ default: one write of 0")
    del LOG[:]
    check(p.set(4) is None and LOG == [('set', 4)], "set: one write")
    del LOG[:]
    check(p.__setstate__(5) is None and LOG == [('set', 5)],
          "__setstate__: one write")
    del LOG[:]
    check(p.__getstate__() == 5 and LOG == [('get',)], "__getstate__: one read")
    p.fail_set = True
    for name, call in [('init', lambda: p.__init__(9)),
                       ('set', lambda: p.set(9)),
                       ('setstate', lambda: p.__setstate__(9))]:
        del LOG[:]
        try:
            call()
        except Boom:
            pass
        else:
            check(False, "failing store must propagate from %s" % name)
        check(LOG == [('set', 9)], "%s: one failed write attempt" % name)
    p.fail_set = False
    p.fail_get = True
    del LOG[:]
    try:
        p.__getstate__()
    except Boom:
        pass
    else:
        check(False, "failing read must propagate from __getstate__")
    check(LOG == [('get',)], "__getstate__: one failed read")
    p.fail_get = False
    check(p.__getstate__() == 5, "value survived the failures")

    # ---- 7. introspection that clients may rely on -------------------------
    check(Length.set.__doc__ == "Set the length value to v.", "set docstring")
    check(Length.__setstate__.__doc__ is None and Length.__init__.__doc__ is None
          and Length.__getstate__.__doc__ is None, "no new docstrings")
    check(Length.__init__.__defaults__ == (0,), "__init__ default")
    check([f.__code__.co_varnames[:f.__code__.co_argcount] for f in
           (Length.__init__, Length.__setstate__, Length.set,
            Length.__getstate__)] ==
          [('self', 'v'), ('self', 'v'), ('self', 'v'), ('self',)],
          "parameter names")
    check(Length.__setstate__ is not Length.set, "distinct functions")

    if FAILS:
        print("%d check(s) failed" % len(FAILS))
        return 1
    print("demo v: OK")
    return 0


if __name__ == '__main__':
    sys.exit(main())
