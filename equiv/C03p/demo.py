# ---------------------------------------------------------------------------
# Common harness (identical in all four C03 demos).
#
# Drives insert / delete / update / clear histories through BTree and TreeSet,
# C and pure-Python implementation, several families, several node-size
# settings, and after EVERY step checks property C03 against an independent
# model:
#   * t._check() and BTrees.check.check(t) succeed;
#   * an independent walk over __getstate__() / _firstbucket / _next agrees
#     (leaf chain == leaves by descent, in key order, ends with None, no empty
#     node, children of one kind, keys inside the separator ranges, size
#     limits), and the content equals a dict/set model;
#   * the C and the Python implementation build the *same* structure and the
#     same pickle;
#   * (C only) the reference counts of every leaf, interior node and key
#     object are exactly what the structure implies;
#   * persistence notifications (jar.register / jar.readCurrent) seen by a
#     recording jar hash to constants recorded on the unmodified source.
# ---------------------------------------------------------------------------
import gc
import hashlib
import importlib
import pickle
import random
import sys
from collections import Counter

import BTrees.check

ALL_FAMILIES = ['OO', 'OI', 'OL', 'OU', 'OQ', 'IO', 'II', 'IF', 'IU',
                'LO', 'LL', 'LF', 'LQ', 'UO', 'UU', 'UI', 'UF',
                'QO', 'QQ', 'QL', 'QF']

FAILURES = []


def fail(msg):
    FAILURES.append(msg)
    print("FAIL:", msg)


def expect(cond, msg):
    if not cond:
        fail(msg)


def classes(family):
    mod = importlib.import_module('BTrees.%sBTree' % family)
    return {
        ('map', 'C'): getattr(mod, family + 'BTree'),
        ('map', 'Py'): getattr(mod, family + 'BTreePy'),
        ('set', 'C'): getattr(mod, family + 'TreeSet'),
        ('set', 'Py'): getattr(mod, family + 'TreeSetPy'),
    }


class node_sizes:
    """Temporarily configure max_leaf_size / max_internal_size on classes."""

    def __init__(self, clss, leaf, internal):
        self.clss = list(clss)
        self.leaf = leaf
        self.internal = internal

    def __enter__(self):
        self.saved = [(c, c.max_leaf_size, c.max_internal_size)
                      for c in self.clss]
        for c in self.clss:
            c.max_leaf_size = self.leaf
            c.max_internal_size = self.internal

    def __exit__(self, *exc):
        for c, leaf, internal in self.saved:
            c.max_leaf_size = leaf
            c.max_internal_size = internal


# --- independent walk ------------------------------------------------------

class Shape:
    __slots__ = ('leaves', 'interior', 'firstbucket_refs', 'key_refs',
                 'items', 'depth', 'tree')


def walk(t, is_map, max_leaf=None, max_internal=None, where=''):
    """Independent structural walk.  Returns a Shape; reports via fail()."""
    sh = Shape()
    sh.leaves = []          # leaf objects in descent order
    sh.interior = []        # interior nodes (root excluded)
    sh.firstbucket_refs = Counter()   # id(leaf) -> number of firstbucket refs
    sh.key_refs = Counter()           # id(key) -> references held by nodes
    sh.items = []
    sh.depth = 0
    tree_type = type(t)
    leaf_depths = set()

    def leaf_items(b, lo, hi, depth):
        st = b.__getstate__()
        data = st[0]
        if is_map:
            keys = list(data[0::2])
            values = list(data[1::2])
        else:
            keys = list(data)
            values = [None] * len(keys)
        expect(len(keys) >= 1, where + ': empty leaf')
        if max_leaf is not None:
            expect(len(keys) <= max_leaf,
                   where + ': leaf of %d > max_leaf_size' % len(keys))
        for k in keys:
            sh.key_refs[id(k)] += 1
            expect(lo is None or lo <= k, where + ': key below range')
            expect(hi is None or k < hi, where + ': key above range')
        expect(keys == sorted(set(keys)), where + ': leaf keys not sorted')
        nxt = st[1] if len(st) == 2 else None
        expect(nxt is b._next, where + ': state next is not _next')
        leaf_depths.add(depth)
        sh.items.extend(zip(keys, values))

    def node(n, lo, hi, depth, is_root):
        """Return the leftmost leaf of n's subtree."""
        st = n.__getstate__()
        if st is None:
            expect(is_root, where + ': empty interior node')
            expect(n._firstbucket is None, where + ': empty, firstbucket')
            return None
        if len(st) == 1:
            # a node whose only child is an oid-less leaf:  the leaf's state
            # is embedded, the leaf itself is reachable as _firstbucket
            b = n._firstbucket
            expect(b is not None, where + ': no firstbucket')
            expect(b.__getstate__() == st[0][0], where + ': squashed state')
            sh.leaves.append(b)
            sh.firstbucket_refs[id(b)] += 1
            leaf_items(b, lo, hi, depth + 1)
            return b
        data, firstbucket = st
        expect(len(data) & 1, where + ': even state length')
        kids = data[0::2]
        seps = data[1::2]
        nkids = len(kids)
        expect(nkids >= 1, where + ': interior node without children')
        if max_internal is not None:
            if is_root:
                expect(nkids < 2 * max_internal, where + ': root too wide')
            else:
                expect(nkids <= max_internal,
                       where + ': interior node of %d children' % nkids)
        for s in seps:
            sh.key_refs[id(s)] += 1
            expect(lo is None or lo <= s, where + ': separator below range')
            expect(hi is None or s < hi, where + ': separator above range')
        expect(list(seps) == sorted(set(seps)), where + ': separators')
        kinds = {type(k) is tree_type for k in kids}
        expect(len(kinds) == 1, where + ': children of mixed kinds')
        first = None
        for i, kid in enumerate(kids):
            klo = seps[i - 1] if i > 0 else lo
            khi = seps[i] if i < nkids - 1 else hi
            if type(kid) is tree_type:
                sh.interior.append(kid)
                leftmost = node(kid, klo, khi, depth + 1, False)
                expect(leftmost is kid._firstbucket,
                       where + ': child firstbucket is not its leftmost leaf')
            else:
                leftmost = kid
                sh.leaves.append(kid)
                leaf_items(kid, klo, khi, depth + 1)
            if i == 0:
                first = leftmost
        expect(firstbucket is first, where + ': state firstbucket')
        expect(n._firstbucket is first, where + ': _firstbucket not leftmost')
        sh.firstbucket_refs[id(first)] += 1
        return first

    node(t, None, None, 0, True)
    node = leaf_items = None    # break the closure cycle (it holds sh)
    expect(len(leaf_depths) <= 1, where + ': leaves at different depths')
    sh.depth = max(leaf_depths) if leaf_depths else 0

    # the chain
    chain = []
    b = t._firstbucket
    while b is not None:
        chain.append(b)
        expect(len(chain) <= len(sh.leaves) + 1, where + ': chain too long')
        if len(chain) > len(sh.leaves) + 1:
            break
        b = b._next
    expect(len(chain) == len(sh.leaves)
           and all(x is y for x, y in zip(chain, sh.leaves)),
           where + ': leaf chain differs from leaves reached by descent')
    keys = [k for k, _ in sh.items]
    expect(keys == sorted(set(keys)), where + ': keys not in order/unique')
    return sh


def plain(t):
    """Nested plain-data rendering of the structure (for C vs Py compare)."""
    st = t.__getstate__()
    if st is None:
        return None
    if len(st) == 1:
        return ('one', st[0][0][0])
    out = []
    for i, x in enumerate(st[0]):
        if i & 1:
            out.append(x)
        elif type(x) is type(t):
            out.append(plain(x))
        else:
            out.append(('leaf', x.__getstate__()[0]))
    return tuple(out)


def _refcount_base():
    o = object()
    holder = [o]
    del o
    for x in holder:
        return sys.getrefcount(x) - 1   # minus the list's own reference


def check_refcounts(t, sh, keyobjs, model, where):
    """C implementation only: exact reference counts implied by structure."""
    base = _refcount_base()
    prev = None
    for b in sh.leaves:
        want = 1                       # parent's child pointer
        want += 1 if prev is not None else 0     # predecessor's next
        want += sh.firstbucket_refs[id(b)]       # firstbucket pointers
        got = sys.getrefcount(b) - base - 1      # minus sh.leaves
        expect(got == want,
               '%s: leaf refcount %d, structure implies %d' % (where, got, want))
        prev = b
    for n in sh.interior:
        got = sys.getrefcount(n) - base - 1
        expect(got == 1, '%s: interior refcount %d != 1' % (where, got))
    if keyobjs is not None:
        for k in keyobjs:
            want = sh.key_refs[id(k)] + (1 if k in model else 0)
            got = sys.getrefcount(k) - base - 1  # minus keyobjs
            expect(got == want,
                   '%s: key %r refcount %d, structure implies %d'
                   % (where, k, got, want))


def verify(t, model, is_map, leaf, internal, where, keyobjs=None,
           use_check_module=True, is_c=False):
    try:
        t._check()
    except Exception as e:           # AssertionError expected if broken
        fail('%s: _check(): %r' % (where, e))
    if use_check_module:
        try:
            BTrees.check.check(t)
        except Exception as e:
            fail('%s: check.check(): %r' % (where, e))
    sh = walk(t, is_map, leaf, internal, where)
    items = sh.items
    sh.items = None        # (holds key references; see check_refcounts)
    if is_map:
        expect(items == sorted(model.items()), where + ': content differs')
        expect(list(t.items()) == items, where + ': items() differs')
    else:
        expect([k for k, _ in items] == sorted(model),
               where + ': content differs')
        expect(list(t.keys()) == sorted(model), where + ': keys() differs')
    del items
    expect(len(t) == len(model), where + ': len differs')
    expect(bool(t) == bool(model), where + ': bool differs')
    if is_c:
        check_refcounts(t, sh, keyobjs, model, where)
    return sh


# --- histories -------------------------------------------------------------

def history(seed, nsteps, nkeys):
    """A deterministic list of ('set'|'del'|'update'|'clear', ...) steps that
    grows the tree to several levels and drains it from the left, from the
    right and from the middle (emptied first / middle / last leaves,
    firstbucket hand-off up the spine), then mixes randomly."""
    rng = random.Random(seed)
    ops = []
    keys = list(range(nkeys))
    # ascending fill, drain from the left
    for k in keys:
        ops.append(('set', k))
    for k in keys:
        ops.append(('del', k))
    # descending fill, drain from the right
    for k in reversed(keys):
        ops.append(('set', k))
    for k in reversed(keys):
        ops.append(('del', k))
    # bulk update, drain from the middle outwards
    ops.append(('update', keys[::2]))
    ops.append(('update', keys[1::2]))
    mid = nkeys // 2
    order = []
    for d in range(nkeys):
        for k in (mid + d, mid - d - 1):
            if 0 <= k < nkeys and k not in order:
                order.append(k)
    for k in order:
        ops.append(('del', k))
    # random mix with phases
    for phase in range(4):
        p_ins = (0.75, 0.3, 0.6, 0.2)[phase]
        for _ in range(nsteps // 4):
            k = rng.randrange(nkeys)
            r = rng.random()
            if r < 0.01:
                ops.append(('clear',))
            elif r < 0.04:
                ops.append(('update', [rng.randrange(nkeys)
                                       for _ in range(rng.randrange(1, 9))]))
            elif rng.random() < p_ins:
                ops.append(('set', k))
            else:
                ops.append(('del', k))
    # leave nothing behind
    ops.append(('drain',))
    return ops


def apply_op(t, model, op, is_map, key_of, stepno):
    """Apply op to tree and model; return a plain description of the result
    (results / exception classes are compared C vs Py)."""
    kind = op[0]
    try:
        if kind == 'set':
            k = key_of(op[1])
            if is_map:
                t[k] = stepno
                model[k] = stepno
                return None
            r = t.add(k)
            want = 0 if k in model else 1
            model.add(k)
            expect(r == want, 'add() returned %r, want %r' % (r, want))
            return r
        if kind == 'del':
            k = key_of(op[1])
            present = k in model
            try:
                if is_map:
                    del t[k]
                else:
                    t.remove(k)
            except KeyError:
                expect(not present, 'KeyError for a present key')
                return 'KeyError'
            expect(present, 'no KeyError for an absent key')
            if is_map:
                del model[k]
            else:
                model.remove(k)
            return None
        if kind == 'update':
            ks = [key_of(k) for k in op[1]]
            if is_map:
                t.update([(k, stepno) for k in ks])
                model.update((k, stepno) for k in ks)
                return None
            r = t.update(ks)
            # the C TreeSet reports the number of new keys, the Python one
            # returns None (a known, documented-by-test difference)
            want = (len(set(ks) - set(model))
                    if not type(t).__name__.endswith('Py') else None)
            model.update(ks)
            expect(r == want, 'update() returned %r, want %r' % (r, want))
            return None
        if kind == 'clear':
            t.clear()
            model.clear()
            return None
        if kind == 'drain':
            for k in sorted(model):
                if is_map:
                    expect(t.pop(k) == model[k], 'pop() value')
                else:
                    t.remove(k)
            model.clear()
            return None
    except Exception as e:
        fail('unexpected %r in step %d %r' % (e, stepno, op))
        return type(e).__name__
    raise AssertionError(op)


class KeyPool:
    """Distinct key *objects* (so reference counts are meaningful) for the
    object-keyed families; plain ints otherwise."""

    def __init__(self, family, nkeys):
        self.objects = family[0] == 'O'
        # ints > 256 are not cached by the interpreter: one object per key
        self.keys = [1000 + 7 * i for i in range(nkeys)] if self.objects \
            else list(range(nkeys))

    def __call__(self, i):
        return self.keys[i]


def run_histories(family, leaf, internal, seed, nsteps, nkeys, impls=('C', 'Py'),
                  kinds=('map', 'set')):
    """Run one history through C and Py, map and set, compare everything."""
    clss = classes(family)
    depth_seen = 0
    with node_sizes(clss.values(), leaf, internal):
        for kind in kinds:
            is_map = kind == 'map'
            pools = {impl: KeyPool(family, nkeys) for impl in impls}
            trees = {impl: clss[(kind, impl)]() for impl in impls}
            models = {impl: ({} if is_map else set()) for impl in impls}
            ops = history(seed, nsteps, nkeys)
            for stepno, op in enumerate(ops):
                results = {}
                for impl in impls:
                    where = '%s %s/%s leaf=%d internal=%d step %d %r' % (
                        family, kind, impl, leaf, internal, stepno, op[:2])
                    results[impl] = apply_op(trees[impl], models[impl], op,
                                             is_map, pools[impl], stepno)
                    sh = verify(trees[impl], models[impl], is_map, leaf,
                                internal, where,
                                keyobjs=(pools[impl].keys
                                         if pools[impl].objects else None),
                                is_c=(impl == 'C'))
                    depth_seen = max(depth_seen, sh.depth)
                    del sh
                if len(impls) == 2:
                    expect(results['C'] == results['Py'],
                           where + ': C and Py results differ')
                    expect(plain(trees['C']) == plain(trees['Py']),
                           where + ': C and Py structures differ')
                    if stepno % 16 == 0:
                        pc = pickle.dumps(trees['C'], 2)
                        pp = pickle.dumps(trees['Py'], 2)
                        expect(pc == pp, where + ': pickles differ')
                        # (no structural check of the copy:  a plain pickle
                        # embeds the state of an oid-less only-child leaf)
                        copy = pickle.loads(pc)
                        expect(list(copy.keys()) == sorted(models['C']),
                               where + ': unpickled content differs')
                if FAILURES:
                    return depth_seen
    return depth_seen


# --- persistence notifications --------------------------------------------

class RecordingJar:
    def __init__(self):
        self.log = []
        self.next_oid = 1
        self.fail_register_for = None

    def register(self, obj):
        if obj._p_oid == self.fail_register_for:
            raise JarFailure('register')
        self.log.append(('reg', obj._p_oid))

    def readCurrent(self, obj):
        self.log.append(('cur', obj._p_oid))

    def setstate(self, obj):      # never reached: nothing is ghostified
        raise JarFailure('setstate')

    def adopt(self, obj):
        if obj._p_oid is None:
            obj._p_jar = self
            obj._p_oid = b'%08d' % self.next_oid
            self.next_oid += 1


class JarFailure(Exception):
    pass


def all_nodes(t):
    out = [t]
    st = t.__getstate__()
    if st is None:
        return out
    if len(st) == 1:
        out.append(t._firstbucket)
        return out
    for x in st[0][0::2]:
        if type(x) is type(t):
            out.extend(all_nodes(x))
        else:
            out.append(x)
    return out


def notification_digest(cls, is_map, leaf, internal, seed, nsteps, nkeys,
                        adopt_all):
    """Run a history with a recording jar.  After every step every node is
    'committed' (_p_changed = False, and given an oid when adopt_all).  The
    digest covers which oids registered / readCurrent-ed in which step."""
    h = hashlib.sha256()
    with node_sizes([cls], leaf, internal):
        jar = RecordingJar()
        t = cls()
        jar.adopt(t)
        model = {} if is_map else set()
        for stepno, op in enumerate(history(seed, nsteps, nkeys)):
            jar.log.append(('step', stepno))
            apply_op(t, model, op, is_map, lambda i: i, stepno)
            nodes = all_nodes(t)
            changed = sorted(n._p_oid for n in nodes
                             if n._p_oid is not None and n._p_changed)
            jar.log.append(('changed', tuple(changed)))
            for n in nodes:
                if adopt_all:
                    jar.adopt(n)
                if n._p_jar is not None:
                    n._p_changed = False
            t._check()
        h.update(repr(jar.log).encode())
    return h.hexdigest()[:16]
# ---------------------------------------------------------------------------
# C03p specific part:  the too-big test of _BTree_set (BTreeTemplate.c).
# ---------------------------------------------------------------------------
from BTrees.OOBTree import OOBTree, OOTreeSet


def split_points():
    """When exactly does a leaf / an interior node / the root split?
    Expectation computed from the documented rule:  a child is split when it
    holds more than max_*_size entries; the root when it reaches twice
    max_internal_size children."""
    from BTrees.LLBTree import LLBTree
    for leaf, internal in ((2, 2), (3, 2), (4, 3), (5, 4)):
        with node_sizes([LLBTree], leaf, internal):
            t = LLBTree()
            for k in range(leaf):
                t[k] = k
            expect(len(t.__getstate__()) == 1,
                   'p: %d keys must fit one leaf of %d' % (leaf, leaf))
            t[leaf] = leaf          # one too many -> leaf split at midpoint
            st = t.__getstate__()
            sizes = [len(b.__getstate__()[0]) // 2 for b in st[0][0::2]]
            want = [(leaf + 1) // 2, (leaf + 1) - (leaf + 1) // 2]
            expect(sizes == want, 'p: first split gave %r, want %r'
                   % (sizes, want))
            # keep appending: the root stays a bottom-level node until it
            # has 2 * internal children
            k = leaf + 1
            widest = 0
            while True:
                st = t.__getstate__()
                kids = st[0][0::2]
                if type(kids[0]) is LLBTree:
                    break
                widest = max(widest, len(kids))
                t[k] = k
                k += 1
            expect(widest == 2 * internal - 1,
                   'p: root grew to %d children before splitting, want %d'
                   % (widest, 2 * internal - 1))
            expect(len(kids) == 2, 'p: split root must have two children')
            del st, kids
            verify(t, dict((i, i) for i in range(k)), True, leaf, internal,
                   'p: split_points %d/%d' % (leaf, internal), is_c=True)


def bad_sizes_before_mutation():
    """Bad sizes on the class are reported before anything is mutated."""
    for base, is_map in ((OOBTree, True), (OOTreeSet, False)):
        for attr in ('max_leaf_size', 'max_internal_size'):
            for bad, exc in ((0, ValueError), (-1, ValueError),
                             (-7, ValueError), ('x', TypeError)):
                cls = type('Bad', (base,), {attr: bad})
                t = cls()
                try:
                    if is_map:
                        t[1] = 1
                    else:
                        t.add(1)
                except exc as e:
                    if exc is ValueError:
                        expect(str(e) == 'non-positive max size in BTree '
                               'subclass', 'p: message %r' % str(e))
                else:
                    fail('p: %s=%r on %s: no %s' % (attr, bad, base.__name__,
                                                    exc.__name__))
                expect(len(t) == 0 and t.__getstate__() is None
                       and t._firstbucket is None,
                       'p: tree mutated although sizes are bad')
                t._check()


class HookKey:
    """Totally ordered key whose comparison runs a one-shot hook."""
    hook = None

    def __init__(self, v):
        self.v = v

    def _fire(self):
        h = HookKey.hook
        if h is not None:
            HookKey.hook = None
            h()

    def __lt__(self, other):
        self._fire()
        return self.v < other.v

    def __le__(self, other):
        self._fire()
        return self.v <= other.v

    def __gt__(self, other):
        self._fire()
        return self.v > other.v

    def __ge__(self, other):
        self._fire()
        return self.v >= other.v

    def __eq__(self, other):
        self._fire()
        return self.v == other.v

    def __hash__(self):
        return hash(self.v)

    def __repr__(self):
        return 'K%d' % self.v


def sizes_go_bad_mid_operation():
    """The error exit of the too-big test itself:  sizes are fine when the
    operation starts, the root's cached sizes are dropped and the class
    attribute turns negative while the key is being compared.  The key has
    then already been stored in the leaf; the operation must report
    ValueError, keep the key, not split, and leave a checkable tree.
    (Expectations recorded on the unmodified C implementation.)"""
    def root_children(t):
        st = t.__getstate__()
        return 1 if len(st) == 1 else (len(st[0]) + 1) // 2

    for base, is_map in ((OOBTree, True), (OOTreeSet, False)):
        for attr, leaf, internal, nkeys, child_is_tree in (
                ('max_leaf_size', 2, 2, 2, False),
                # (sizes chosen so that the nodes on the path to the new
                # key have their own sizes cached:  only the root re-reads)
                ('max_internal_size', 4, 3, 20, True)):
            cls = type('Flip', (base,), {'max_leaf_size': leaf,
                                         'max_internal_size': internal})
            t = cls()
            keys = [HookKey(i) for i in range(nkeys + 1)]
            for k in keys[:nkeys]:
                if is_map:
                    t[k] = k.v
                else:
                    t.add(k)
            t._check()
            st = t.__getstate__()
            if child_is_tree:
                expect(len(st) == 2 and type(st[0][0]) is cls,
                       'p: scenario needs a root over interior nodes')
            else:
                expect(len(st) == 1, 'p: scenario needs a single leaf')
            del st
            before = root_children(t)

            def hook():
                t._p_deactivate()         # drops the root's cached sizes
                setattr(cls, attr, -5)
            HookKey.hook = hook
            new = keys[nkeys]
            try:
                if is_map:
                    t[new] = new.v
                else:
                    t.add(new)
            except ValueError as e:
                expect(str(e) == 'non-positive max size in BTree subclass',
                       'p: message %r' % str(e))
            else:
                fail('p: no ValueError when %s went bad' % attr)
            expect(HookKey.hook is None, 'p: hook did not run')
            setattr(cls, attr, internal if child_is_tree else leaf)
            expect(len(t) == nkeys + 1 and new in t,
                   'p: key stored by the child must still be there (%s)' % attr)
            t._check()
            expect([k.v for k in t.keys()] == list(range(nkeys + 1)),
                   'p: content after failed too-big test')
            # nothing was split at the root: same number of root children
            expect(root_children(t) == before,
                   'p: root must not have been split/grown (%s)' % attr)
            if not child_is_tree:
                expect(len(t._firstbucket) == nkeys + 1
                       and t._firstbucket._next is None,
                       'p: the over-full leaf must not have been split')
            # reference counts of the keys: one per leaf slot + separators
            del new
            sh = walk(t, is_map, None, None, 'p: flip walk')
            sh.items = None
            base_rc = _refcount_base()
            for k in keys:
                got = sys.getrefcount(k) - base_rc - 1
                expect(got == sh.key_refs[id(k)],
                       'p: key %r refcount %d, structure implies %d'
                       % (k, got, sh.key_refs[id(k)]))
            del sh
            # and the tree is still fully usable
            for k in list(t.keys()):
                if is_map:
                    del t[k]
                else:
                    t.remove(k)
                t._check()
            expect(len(t) == 0 and t._firstbucket is None, 'p: drain')


def specific():
    split_points()
    bad_sizes_before_mutation()
    sizes_go_bad_mid_operation()


# notification digests recorded on the unmodified source
# (class name, adopt_all) -> digest
DIGESTS = {
    ('OOBTree', False): 'cd7ce16e308b3af3',
    ('OOBTree', True): 'ad666ca154663931',
    ('OOBTreePy', False): '94597414d2235a4b',
    ('OOBTreePy', True): '003945184756fbb6',
    ('OOTreeSet', False): 'cd7ce16e308b3af3',
    ('OOTreeSet', True): 'c294ed433fd69a6f',
    ('OOTreeSetPy', False): '94597414d2235a4b',
    ('OOTreeSetPy', True): '4d9069e04b4e8df9',
}
# ---------------------------------------------------------------------------
# driver (identical in all four C03 demos)
# ---------------------------------------------------------------------------

def main():
    deepest = 0
    # every family, smallest legal node sizes
    for family in ALL_FAMILIES:
        deepest = max(deepest, run_histories(family, 2, 2, 11, 200, 30))
        if FAILURES:
            return 1
    # a few families, several node-size settings, longer histories
    for family, configs in (('OO', ((2, 2), (2, 3), (3, 2), (4, 3), (7, 5))),
                            ('LL', ((2, 2), (3, 4), (5, 2))),
                            ('IF', ((3, 3),))):
        for n, (leaf, internal) in enumerate(configs):
            deepest = max(deepest, run_histories(family, leaf, internal,
                                                 100 + n, 800, 60))
            if FAILURES:
                return 1
    expect(deepest >= 4, 'histories never reached 3+ levels (%d)' % deepest)
    # default sizes as well (subclass-free, big tree, one verification)
    from BTrees.IIBTree import IIBTree, IIBTreePy
    for cls in (IIBTree, IIBTreePy):
        t = cls()
        model = {}
        rng = random.Random(7)
        for i in range(40000):
            k = rng.randrange(30000)
            t[k] = i
            model[k] = i
        verify(t, model, True, cls.max_leaf_size, cls.max_internal_size,
               'default sizes ' + cls.__name__)
        for k in sorted(model)[:20000:1] + sorted(model)[::-3]:
            if k in model:
                del t[k]
                del model[k]
        verify(t, model, True, cls.max_leaf_size, cls.max_internal_size,
               'default sizes after deletes ' + cls.__name__)
    # persistence notifications against recorded constants
    from BTrees.OOBTree import OOBTree, OOBTreePy, OOTreeSet, OOTreeSetPy
    for cls, is_map in ((OOBTree, True), (OOBTreePy, True),
                        (OOTreeSet, False), (OOTreeSetPy, False)):
        for adopt_all in (False, True):
            d = notification_digest(cls, is_map, 2, 2, 5, 300, 30, adopt_all)
            if '--record' in sys.argv:
                print('    (%r, %r): %r,' % (cls.__name__, adopt_all, d))
            else:
                expect(DIGESTS.get((cls.__name__, adopt_all)) == d,
                       'notification digest %s adopt_all=%s: %s'
                       % (cls.__name__, adopt_all, d))
    specific()
    if FAILURES:
        print('%d failure(s)' % len(FAILURES))
        return 1
    print('OK')
    return 0


if __name__ == '__main__':
    sys.exit(main())
