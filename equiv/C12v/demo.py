#!/usr/bin/env python
"""Differential demo for refactoring C12/v.

Exercises the pure-Python weightedUnion / weightedIntersection of
BTrees/_base.py (and their helpers) for all numeric-valued families.

Run as:  PYTHONPATH=<tree>/src python demo.py      (exit status 0 == OK)
"""
import importlib
import pickle
import random
import sys
from fractions import Fraction

SEED = 0xC12
NUMERIC = ['IF', 'II', 'IU', 'LF', 'LL', 'LQ', 'OI', 'OL', 'OQ', 'OU',
           'QF', 'QL', 'QQ', 'UF', 'UI', 'UU']
OBJECTVAL = ['IO', 'LO', 'OO', 'QO', 'UO']
KINDS = ['Bucket', 'BTree', 'Set', 'TreeSet']
SIZES = [0, 1, 2, 3, 7, 25, 70]

checks = 0


def ok(cond, *what):
    global checks
    checks += 1
    if not cond:
        print('FAILED:', *what)
        raise SystemExit(1)


# --------------------------------------------------------------------------
# families


class Family:
    def __init__(self, prefix):
        self.prefix = prefix
        self.kcode, self.vcode = prefix[0], prefix[1]
        self.mod = M = importlib.import_module('BTrees.%sBTree' % prefix)
        # the pure-Python implementation
        self.Bucket = getattr(M, prefix + 'BucketPy')
        self.Set = getattr(M, prefix + 'SetPy')
        B = getattr(M, prefix + 'BTreePy')
        TS = getattr(M, prefix + 'TreeSetPy')
        self.one = 1.0 if self.vcode == 'F' else 1
        # small nodes, so that operands of modest size are multi-level trees
        self.trees = [
            type('Small' + prefix + 'BTree', (B,),
                 dict(max_leaf_size=ls, max_internal_size=is_))
            for ls, is_ in ((2, 2), (3, 2), (4, 3))
        ]
        self.treesets = [
            type('Small' + prefix + 'TreeSet', (TS,),
                 dict(max_leaf_size=ls, max_internal_size=is_))
            for ls, is_ in ((2, 2), (3, 2), (4, 3))
        ]
        self.BTree, self.TreeSet = B, TS

    def make(self, kind, data, rnd):
        if kind == 'Bucket':
            return self.Bucket(data)
        if kind == 'Set':
            return self.Set(data)
        if kind == 'BTree':
            return rnd.choice(self.trees + [self.BTree])(data)
        return rnd.choice(self.treesets + [self.TreeSet])(data)

    # -- random material -------------------------------------------------
    def key(self, rnd):
        c = self.kcode
        if c == 'I':
            return rnd.randint(-40, 40)
        if c == 'L':
            return rnd.choice([rnd.randint(-40, 40),
                               rnd.randint(-40, 40) + (1 << 40),
                               rnd.randint(-40, 40) - (1 << 40)])
        if c == 'U':
            return rnd.randint(0, 80)
        if c == 'Q':
            return rnd.choice([rnd.randint(0, 80),
                               rnd.randint(0, 40) + (1 << 40)])
        return rnd.randint(-40, 40)       # 'O': any ordered objects

    def value(self, rnd):
        c = self.vcode
        if c == 'I':
            return rnd.randint(-20, 20)
        if c == 'L':
            return rnd.choice([rnd.randint(-20, 20),
                               rnd.randint(-20, 20) * (1 << 33)])
        if c == 'U':
            return rnd.randint(0, 20)
        if c == 'Q':
            return rnd.choice([rnd.randint(0, 20),
                               rnd.randint(0, 20) * (1 << 33)])
        if c == 'F':
            return rnd.randint(-64, 64) / 4.0
        return ('v', rnd.randint(0, 5))   # 'O'

    def weight(self, rnd):
        c = self.vcode
        if c in 'IL':
            return rnd.choice([0, 1, 1, -1, rnd.randint(-9, 9)])
        if c in 'UQ':
            return rnd.choice([0, 1, 1, rnd.randint(0, 9)])
        return rnd.choice([0.0, 1.0, 1, -1.0, rnd.randint(-16, 16) / 4.0])

    def valtype(self):
        return float if self.vcode == 'F' else int

    def data(self, kind, n, rnd):
        keys = set()
        while len(keys) < n:
            keys.add(self.key(rnd))
        if kind in ('Bucket', 'BTree'):
            return {k: self.value(rnd) for k in keys}
        return keys


# --------------------------------------------------------------------------
# the model


def ismap(d):
    return isinstance(d, dict)


ONE = [1]       # the value a set member counts for (1.0 in float families)


def val(d, k):
    return d[k] if ismap(d) else ONE[0]


def model_wunion(a, b, w1, w2):
    if not ismap(a) and not ismap(b):
        return 1, sorted(set(a) | set(b))
    out = {}
    for k in set(a) | set(b):
        if k in a and k in b:
            out[k] = val(a, k) * w1 + val(b, k) * w2
        elif k in a:
            out[k] = val(a, k) * w1
        else:
            out[k] = val(b, k) * w2
    return 1, sorted(out.items())


def model_wintersection(a, b, w1, w2):
    common = set(a) & set(b)
    if not ismap(a) and not ismap(b):
        return w1 + w2, sorted(common)
    return 1, sorted((k, val(a, k) * w1 + val(b, k) * w2) for k in common)


def check_result(fam, res, expected, is_mapping, what):
    rtype = fam.Bucket if is_mapping else fam.Set
    ok(type(res) is rtype, what, 'result type', type(res), rtype)
    got = list(res.items()) if is_mapping else list(res.keys())
    ok(got == expected, what, 'contents', got, expected)
    ok(len(res) == len(expected), what, 'len')
    if is_mapping and fam.vcode != 'O':
        vt = fam.valtype()
        ok(all(type(v) is vt for _, v in got), what, 'value types', got)
    # same state / same pickle as a container built the ordinary way
    ref = rtype(dict(expected)) if is_mapping else rtype(expected)
    ok(res.__getstate__() == ref.__getstate__(), what, 'state',
       res.__getstate__(), ref.__getstate__())
    ok(pickle.dumps(res, 2) == pickle.dumps(ref, 2), what, 'pickle')
    ok(res._p_changed is False or res._p_changed is None or
       res._p_changed is True, what)
    ok(res._p_jar is None and res._p_oid is None, what, 'persistence')
    # the result is an ordinary, growable container
    if expected:
        k0 = expected[0][0] if is_mapping else expected[0]
        ok(k0 in res, what, 'membership')


# --------------------------------------------------------------------------
# helpers


def same(x, y):
    return type(x) is type(y) and x == y


def raises(exc, msg, f, *args, **kw):
    try:
        f(*args, **kw)
    except exc as e:
        ok(type(e) is exc, 'exception type', repr(e), exc)
        ok(msg is None or str(e) == msg, 'message', repr(str(e)), repr(msg))
    except BaseException as e:
        ok(False, 'wrong exception', repr(e), exc)
    else:
        ok(False, 'no exception', exc, msg, args)


def py_ops(fam):
    M = fam.mod
    return M.weightedUnionPy, M.weightedIntersectionPy


# --------------------------------------------------------------------------
# sections


def section_differential(rnd):
    for prefix in NUMERIC:
        fam = Family(prefix)
        ONE[0] = fam.one
        wu, wi = py_ops(fam)
        for k1 in KINDS:
            for k2 in KINDS:
                for n1 in SIZES:
                    n2 = rnd.choice(SIZES)
                    d1 = fam.data(k1, n1, rnd)
                    d2 = fam.data(k2, n2, rnd)
                    if rnd.random() < 0.4 and d1:
                        for k in rnd.sample(sorted(d1), (len(d1) + 1) // 2):
                            if ismap(d2):
                                d2[k] = fam.value(rnd)
                            else:
                                d2.add(k)
                    o1 = fam.make(k1, d1, rnd)
                    o2 = fam.make(k2, d2, rnd)
                    s1, s2 = o1.__getstate__(), o2.__getstate__()
                    w1, w2 = fam.weight(rnd), fam.weight(rnd)
                    what = (prefix, k1, n1, k2, len(d2), w1, w2)
                    mapping = ismap(d1) or ismap(d2)
                    for op, model, args, kw in (
                            (wu, model_wunion, (w1, w2), {}),
                            (wi, model_wintersection, (w1, w2), {}),
                            (wu, model_wunion, (w1,), {}),
                            (wi, model_wintersection, (w1,), {}),
                            (wu, model_wunion, (), {}),
                            (wi, model_wintersection, (), {}),
                            (wu, model_wunion, (), {'w1': w1, 'w2': w2}),
                            (wi, model_wintersection, (), {'w2': w2}),
                    ):
                        ws = [1, 1]
                        ws[:len(args)] = args
                        ws[0] = kw.get('w1', ws[0])
                        ws[1] = kw.get('w2', ws[1])
                        t = op(o1, o2, *args, **kw)
                        ok(type(t) is tuple and len(t) == 2, what)
                        w, r = t
                        ew, er = model(d1, d2, *ws)
                        # no coercion of the weight in the Python version
                        ok(same(w, ew), what, op.__name__, 'weight', w, ew)
                        check_result(fam, r, er, mapping,
                                     what + (op.__name__,))
                    ok(o1.__getstate__() == s1 and o2.__getstate__() == s2,
                       what, 'operand modified')
                    ok(not o1._p_changed and not o2._p_changed, what)
    ONE[0] = 1


def section_none():
    rnd = random.Random(3)
    for prefix in NUMERIC:
        fam = Family(prefix)
        others = [fam.make(k, fam.data(k, 4, rnd), rnd) for k in KINDS]
        others += ['a string', [3, 1], object(), 7]
        for op in py_ops(fam):
            for x in others:
                for w1, w2 in ((2, 3), (0.5, Fraction(1, 3)), ('a', None)):
                    t = op(None, x, w1, w2)
                    ok(type(t) is tuple and t[0] is w2 and t[1] is x)
                    t = op(x, None, w1, w2)
                    ok(type(t) is tuple and t[0] is w1 and t[1] is x)
                    t = op(None, None, w1, w2)
                    ok(type(t) is tuple and same(t[0], 0) and t[1] is None)
                    t = op(o2=x, o1=None, w2=w2)
                    ok(t[0] is w2 and t[1] is x)
                ok(op(None, x) == (1, x) and op(x, None) == (1, x))
                ok(op(None, None) == (0, None))
                ok(op(x, None, 5) == (5, x) and op(None, x, 5) == (1, x))
            raises(TypeError, None, op)
            raises(TypeError, None, op, None)
            raises(TypeError, None, op, None, None, 1, 2, 3)
            raises(TypeError, None, op, None, None, w3=1)


def section_odd_weights():
    """The Python version computes with whatever it is given."""
    fam = Family('II')
    ONE[0] = 1
    wu, wi = py_ops(fam)
    d1 = {1: 2, 2: 3, 5: 7}
    d2 = {2: 10, 3: 4, 5: 1}
    s2 = {2, 5, 9}
    for w1, w2 in ((Fraction(1, 3), Fraction(2, 7)), (0.25, 4), (2, 'ab'),
                   (10 ** 30, -10 ** 30), (True, False)):
        for a, da in ((fam.Bucket(d1), d1), (fam.make('BTree', d1, random), d1)):
            for b, db in ((fam.Bucket(d2), d2), (fam.Set(s2), s2),
                          (fam.make('TreeSet', s2, random), s2)):
                if isinstance(w2, str) and not ismap(db):
                    # 1 * 'ab' is fine but v1*w1 + 'ab' is not
                    raises(TypeError, None, wu, a, b, w1, w2)
                    raises(TypeError, None, wi, a, b, w1, w2)
                    continue
                if isinstance(w2, str):
                    raises(TypeError, None, wu, a, b, w1, w2)
                    continue
                for x, y, dx, dy, wx, wy in ((a, b, da, db, w1, w2),
                                             (b, a, db, da, w1, w2)):
                    w, r = wu(x, y, wx, wy)
                    ew, er = model_wunion(dx, dy, wx, wy)
                    ok(same(w, ew) and list(r.items()) == er and
                       all(same(p[1], q[1]) for p, q in zip(r.items(), er)),
                       'odd union', wx, wy, list(r.items()), er)
                    w, r = wi(x, y, wx, wy)
                    ew, er = model_wintersection(dx, dy, wx, wy)
                    ok(same(w, ew) and list(r.items()) == er and
                       all(same(p[1], q[1]) for p, q in zip(r.items(), er)),
                       'odd intersection', wx, wy)
    for w1, w2 in ((Fraction(1, 3), Fraction(2, 7)), (0.25, 4), ('a', 'b'),
                   ([1], [2])):
        w, r = wi(fam.Set(s2), fam.make('TreeSet', {5, 6}, random), w1, w2)
        ok(same(w, w1 + w2) and type(r) is fam.Set and list(r) == [5])
        w, r = wu(fam.Set(s2), fam.make('TreeSet', {5, 6}, random), w1, w2)
        ok(same(w, 1) and type(r) is fam.Set and list(r) == [2, 5, 6, 9])
    raises(TypeError, None, wi, fam.Set(s2), fam.Set(s2), 1, 'b')


# -- order of effects -------------------------------------------------------

LOG = []


class LKey:
    """A key whose comparisons are logged (and can be made to fail)."""
    fail_at = None

    def __init__(self, n):
        self.n = n

    def __gt__(self, other):
        LOG.append(('gt', self.n, other.n))
        if LKey.fail_at is not None:
            LKey.fail_at -= 1
            if LKey.fail_at < 0:
                raise ValueError('comparison failed')
        return self.n > other.n

    def __repr__(self):
        return 'k%d' % self.n


class LResult:
    def __init__(self, kind):
        self.kind = kind
        self._keys = []
        if kind == 'mapping':
            self._values = []

    def snapshot(self):
        return (self.kind, [k.n for k in self._keys],
                list(getattr(self, '_values', ())))


class Probe:
    """An operand that logs everything the algorithm asks of it."""

    def __init__(self, name, items, **attrs):
        self.__dict__['_name'] = name
        self.__dict__['_items'] = items
        self.__dict__['_attrs'] = attrs

    def __getattr__(self, attr):
        name = self._name
        LOG.append((name, 'getattr', attr))
        if attr == 'iteritems' and isinstance(self._items, dict):
            return self._iteritems
        if attr == '__iter__' and not isinstance(self._items, dict):
            return self._iter
        if attr == 'MERGE' and self._attrs.get('MERGE'):
            def MERGE(v1, w1, v2, w2):
                LOG.append((name, 'MERGE', v1, w1, v2, w2))
                return v1 * w1 + v2 * w2
            return MERGE
        if attr == 'MERGE_WEIGHT' and self._attrs.get('MERGE_WEIGHT'):
            def MERGE_WEIGHT(v, w):
                LOG.append((name, 'MERGE_WEIGHT', v, w))
                return v * w
            return MERGE_WEIGHT
        if attr == 'MERGE_DEFAULT' and 'MERGE_DEFAULT' in self._attrs:
            return self._attrs['MERGE_DEFAULT']
        if attr == '_mapping_type' and self._attrs.get('types'):
            def _mapping_type():
                LOG.append((name, 'new mapping'))
                return LResult('mapping')
            return _mapping_type
        if attr == '_set_type' and self._attrs.get('types'):
            def _set_type():
                LOG.append((name, 'new set'))
                return LResult('set')
            return _set_type
        raise AttributeError(attr)

    def _iteritems(self):
        LOG.append((self._name, 'iteritems()'))
        for k in sorted(self._items):
            LOG.append((self._name, 'next', k))
            yield LKey(k), self._items[k]
        LOG.append((self._name, 'exhausted'))

    def _iter(self):
        LOG.append((self._name, 'iter()'))
        for k in sorted(self._items):
            LOG.append((self._name, 'next', k))
            yield LKey(k)
        LOG.append((self._name, 'exhausted'))


FULL = dict(MERGE=True, MERGE_WEIGHT=True, MERGE_DEFAULT=1, types=True)


def run_logged(fn, a, b, *ws):
    from BTrees import _base
    del LOG[:]
    try:
        w, r = getattr(_base, fn)(None, a, b, *ws)
        out = ('ok', w, r.snapshot())
    except Exception as e:
        out = ('exc', type(e).__name__, str(e))
    return out, list(LOG)


def expected_trace(fn, a_items, a_attrs, b_items, ws, fail_at=None):
    """An independent, event-by-event transcription of the documented
    algorithm (what the unmodified functions do, in which order)."""
    log = []
    union = fn == 'weightedUnion'
    w1, w2 = ws
    A, B = 'A', 'B'

    class Fail(Exception):
        pass

    def get(attr, present):
        log.append((A, 'getattr', attr))
        return present

    class It:
        def __init__(self, name, items):
            self.name = name
            self.mapping = isinstance(items, dict)
            self.items = items
            self.keys = sorted(items)
            self.pos = -1
            self.key = self.value = None
            self.active = True

        def start(self, default):
            if self.mapping:
                log.append((self.name, 'getattr', 'iteritems'))
                log.append((self.name, 'iteritems()'))
            else:
                log.append((self.name, 'getattr', 'iteritems'))
                log.append((self.name, 'getattr', '__iter__'))
                log.append((self.name, 'iter()'))
            self.value = default
            self.advance()

        def advance(self):
            self.pos += 1
            if self.pos < len(self.keys):
                self.key = self.keys[self.pos]
                log.append((self.name, 'next', self.key))
                if self.mapping:
                    self.value = self.items[self.key]
            else:
                log.append((self.name, 'exhausted'))
                self.active = False

    def compare(x, y):
        nonlocal fail_at
        for p, q in ((x, y), (y, x)):
            log.append(('gt', p, q))
            if fail_at is not None:
                fail_at -= 1
                if fail_at < 0:
                    raise Fail('ValueError', 'comparison failed')
        return (x > y) - (y > x)

    try:
        if not get('MERGE_DEFAULT', 'MERGE_DEFAULT' in a_attrs):
            raise Fail('TypeError', 'invalid set operation')
        default = a_attrs['MERGE_DEFAULT']
        i1, i2 = It(A, a_items), It(B, b_items)
        i1.start(default)
        i2.start(default)
        have_merge = get('MERGE', a_attrs.get('MERGE'))
        if not have_merge and i1.mapping and i2.mapping:
            raise Fail('TypeError', 'invalid set operation')
        if union and not get('MERGE_WEIGHT', a_attrs.get('MERGE_WEIGHT')):
            raise Fail('AttributeError', 'MERGE_WEIGHT')
        if not i1.mapping and i2.mapping:
            i1, i2, w1, w2 = i2, i1, w2, w1
        merging = i1.mapping or i2.mapping
        tname = '_mapping_type' if merging else '_set_type'
        if not get(tname, a_attrs.get('types')):
            raise Fail('AttributeError', tname)
        log.append((A, 'new mapping' if merging else 'new set'))
        keys, values = [], []

        def copy(i, w):
            keys.append(i.key)
            if merging:
                log.append((A, 'MERGE_WEIGHT', i.value, w))
                values.append(i.value * w)

        while i1.active and i2.active:
            c = compare(i1.key, i2.key)
            if c < 0:
                if union:
                    copy(i1, w1)
                i1.advance()
            elif c == 0:
                keys.append(i1.key)
                if merging:
                    if not have_merge:
                        # MERGE is None (only one side has values, so this
                        # wasn't rejected up front)
                        raise Fail('TypeError',
                                   "'NoneType' object is not callable")
                    log.append((A, 'MERGE', i1.value, w1, i2.value, w2))
                    values.append(i1.value * w1 + i2.value * w2)
                i1.advance()
                i2.advance()
            else:
                if union:
                    copy(i2, w2)
                i2.advance()
        if union:
            while i1.active:
                copy(i1, w1)
                i1.advance()
            while i2.active:
                copy(i2, w2)
                i2.advance()
        weight = 1
        # (an LResult is never a Set/TreeSet, so the weight stays 1)
        out = ('ok', weight, ('mapping' if merging else 'set', keys, values))
    except Fail as e:
        out = ('exc',) + e.args
    return out, log


def section_order_of_effects():
    shapes = [
        ({1: 2, 3: 4, 5: 6, 8: 1}, {0: 7, 3: 5, 5: 1, 9: 2, 10: 3}),
        ({1: 2, 3: 4}, [3, 4, 6]),
        ([1, 3, 4], {3: 4, 9: 2}),
        ([1, 2, 7], [2, 3]),
        ({}, {1: 1}),
        ({2: 2}, []),
        ([], []),
        ([5], {1: 1, 5: 5, 7: 7}),
        ({1: 1, 2: 2, 3: 3}, {1: 5, 2: 6, 3: 7}),
    ]
    attr_sets = [
        FULL,
        dict(FULL, MERGE=False),
        dict(FULL, MERGE_WEIGHT=False),
        dict(FULL, types=False),
        {k: v for k, v in FULL.items() if k != 'MERGE_DEFAULT'},
        dict(FULL, MERGE_DEFAULT=7),
        dict(MERGE_DEFAULT=1),
    ]
    n = 0
    for fn in ('weightedUnion', 'weightedIntersection'):
        for a_items, b_items in shapes:
            for attrs in attr_sets:
                for ws in ((2, 3), (1, 1), (0, -1)):
                    out, log = run_logged(fn, Probe('A', a_items, **attrs),
                                          Probe('B', b_items), *ws)
                    eout, elog = expected_trace(fn, a_items, attrs, b_items,
                                                ws)
                    what = (fn, a_items, b_items, sorted(attrs.items()), ws)
                    ok(out[:2] == eout[:2], what, 'outcome', out, eout)
                    if out[0] == 'ok':
                        ok(out == eout, what, 'result', out, eout)
                    ok(log == elog, what, 'trace',
                       [(i, x, y) for i, (x, y) in enumerate(zip(log, elog))
                        if x != y][:3], len(log), len(elog))
                    n += 1
            # failing comparisons, at every comparison index
            out, log = run_logged(fn, Probe('A', a_items, **FULL),
                                  Probe('B', b_items), 2, 3)
            ncmp = sum(1 for e in log if e[0] == 'gt')
            for k in range(ncmp):
                LKey.fail_at = k
                try:
                    out, log = run_logged(fn, Probe('A', a_items, **FULL),
                                          Probe('B', b_items), 2, 3)
                finally:
                    LKey.fail_at = None
                eout, elog = expected_trace(fn, a_items, FULL, b_items,
                                            (2, 3), fail_at=k)
                ok(out == ('exc', 'ValueError', 'comparison failed') == eout,
                   fn, k, out, eout)
                ok(log == elog, fn, a_items, b_items, k, 'trace on failure')
    ok(n > 300, n)


# -- other error paths ------------------------------------------------------


def section_errors():
    from BTrees import _base
    rnd = random.Random(11)
    INVALID = 'invalid set operation'
    for prefix in NUMERIC:
        fam = Family(prefix)
        ONE[0] = fam.one
        m = fam.make('BTree', fam.data('BTree', 6, rnd), rnd)
        s = fam.make('TreeSet', fam.data('Set', 6, rnd), rnd)
        dm = dict(m.items())
        ds = set(s)
        for op, model in zip(py_ops(fam), (model_wunion, model_wintersection)):
            # no MERGE_DEFAULT on the left operand
            raises(TypeError, INVALID, op, [1, 2], m)
            raises(TypeError, INVALID, op, {1: 2}, m)
            raises(TypeError, INVALID, op, 'abc', s)
            raises(TypeError, INVALID, op, 5, s)
            # on the right, anything iterable is taken for a set of keys
            # (in iteration order: sorted input gives a sorted result) ...
            extra = sorted(ds)[:3] + [max(max(ds), max(dm)) + 1]
            extra.sort()
            for other in (list(extra), tuple(extra), iter(list(extra))):
                w, r = op(m, other, 2, 3)
                ew, er = model(dm, set(extra), 2, 3)
                ok(same(w, 1) and list(r.items()) == er, prefix, 'iterable')
            # ... and a dict for a mapping
            dd = {k: fam.value(rnd) for k in sorted(dm)[1:4]}
            w, r = op(m, dd, 2, 3)
            ew, er = model(dm, dd, 2, 3)
            ok(same(w, 1) and list(r.items()) == er, prefix, 'dict')
            w, r = op(s, dd, 2, 3)
            ew, er = model(ds, dd, 2, 3)
            ok(same(w, 1) and list(r.items()) == er, prefix, 'set, dict')
            raises(AttributeError, None, op, m, 5)
            raises(AttributeError, None, op, m, object())

            # an iterator that fails midway
            class Boom(Exception):
                pass

            def gen(n):
                for k in sorted(dm)[:n]:
                    yield k
                raise Boom()
            for n in range(4):
                raises(Boom, None, op, m, gen(n))
    ONE[0] = 1
    # object-valued families have no weighted operations ...
    for prefix in OBJECTVAL:
        M = importlib.import_module('BTrees.%sBTree' % prefix)
        ok(not hasattr(M, 'weightedUnionPy') and
           not hasattr(M, 'weightedIntersectionPy'), prefix)
        B = getattr(M, prefix + 'BucketPy')
        S = getattr(M, prefix + 'SetPy')
        # ... and the generic functions refuse their containers
        for fn in (_base.weightedUnion, _base.weightedIntersection):
            raises(TypeError, INVALID, fn, S, B({1: 'a'}), B({1: 'b'}))
            raises(TypeError, INVALID, fn, S, S([1]), S([1]))
            ok(fn(S, None, S([1]), 2, 3)[0] == 3)

    # keys that can't be compared
    from BTrees import OIBTree
    b1 = OIBTree.OIBucketPy({'a': 1, 'b': 2})
    b2 = OIBTree.OIBucketPy({1: 1, 2: 2})
    for op in (OIBTree.weightedUnionPy, OIBTree.weightedIntersectionPy):
        raises(TypeError, None, op, b1, b2)
        raises(TypeError, None, op, b2, OIBTree.OISetPy(['x']))
    # the set_operation wrapper passes everything through
    ok(OIBTree.weightedUnionPy.__name__ == 'weightedUnionPy')
    ok(OIBTree.weightedUnionPy.func is _base.weightedUnion)
    ok(OIBTree.weightedIntersectionPy.func is _base.weightedIntersection)
    ok(callable(_base._prepMergeIterators))


class Jar:
    def __init__(self):
        self.states = {}
        self.fail_after = None
        self.loads = 0
        self.registered = []

    def setstate(self, obj):
        self.loads += 1
        if self.fail_after is not None:
            self.fail_after -= 1
            if self.fail_after < 0:
                raise RuntimeError('load failed')
        obj.__setstate__(self.states[obj._p_oid])

    def register(self, obj):
        self.registered.append(obj)

    def adopt(self, obj):
        obj._p_jar = self
        obj._p_oid = ('%08d' % len(self.states)).encode()
        self.states[obj._p_oid] = obj.__getstate__()


def section_ghosts(rnd):
    for prefix in ('II', 'LF', 'OI', 'QQ'):
        fam = Family(prefix)
        ONE[0] = fam.one
        wu, wi = py_ops(fam)
        for k1 in KINDS:
            for k2 in KINDS:
                d1 = fam.data(k1, 9, rnd)
                d2 = fam.data(k2, 7, rnd)
                for k in sorted(d1)[::2]:
                    if ismap(d2):
                        d2[k] = fam.value(rnd)
                    else:
                        d2.add(k)
                jar = Jar()
                o1 = fam.make(k1, d1, rnd)
                o2 = fam.make(k2, d2, rnd)
                persistent = []
                for o in (o1, o2):
                    if hasattr(o, '_firstbucket'):
                        b = o._firstbucket
                        bs = []
                        while b is not None:
                            bs.append(b)
                            b = b._next
                        if len(bs) > 1:
                            persistent.extend(bs)
                    persistent.append(o)
                for p in persistent:
                    jar.adopt(p)

                def ghostify():
                    for p in persistent:
                        p._p_deactivate()
                        ok(p._p_changed is None, 'not a ghost')
                for op, ws, model in ((wu, (2, 3), model_wunion),
                                      (wi, (3, 2), model_wintersection)):
                    ghostify()
                    jar.loads = 0
                    w, r = op(o1, o2, *ws)
                    ew, er = model(d1, d2, *ws)
                    ok(same(w, ew), prefix, k1, k2, 'ghost weight')
                    check_result(fam, r, er, ismap(d1) or ismap(d2),
                                 (prefix, k1, k2, 'ghost'))
                    total = jar.loads
                    ok(total >= 2, 'loads', total)
                    ok(jar.registered == [], 'registered')
                    for n in range(total):
                        ghostify()
                        jar.fail_after = n
                        try:
                            op(o1, o2, *ws)
                        except RuntimeError as e:
                            ok(str(e) == 'load failed', 'message')
                        else:
                            ok(False, prefix, k1, k2, n, 'no exception')
                        finally:
                            jar.fail_after = None
                        ok(jar.registered == [], 'registered')
                    # None short-circuit doesn't load anything
                    ghostify()
                    jar.loads = 0
                    ok(op(o1, None, 4, 5) == (4, o1) and
                       op(None, o2, 4, 5)[0] == 5 and jar.loads == 0 or
                       # (== on a ghost may load it; identity is what counts)
                       True)
                    ghostify()
                    jar.loads = 0
                    ok(op(o1, None, 4, 5)[1] is o1 and
                       op(None, o2, 4, 5)[1] is o2 and jar.loads == 0,
                       prefix, k1, k2, 'ghost loaded by None case')
    ONE[0] = 1


def section_fakes():
    """The stand-ins used by the package's own unit tests (duck typing)."""
    from BTrees import _base

    class FSet:
        def __init__(self, *keys):
            self._keys = sorted(keys)

        def __iter__(self):
            return iter(self._keys)
    FSet._set_type = FSet

    class FMapping(dict):
        MERGE_DEFAULT = 42

        def __init__(self, source=None):
            self._keys = []
            self._values = []
            for k, v in sorted((source or {}).items()):
                self._keys.append(k)
                self._values.append(v)

        def MERGE_WEIGHT(self, v, w):
            return v

        def MERGE(self, v1, w1, v2, w2):
            return v1 * w1 + v2 * w2

        def iteritems(self):
            yield from zip(self._keys, self._values)

        def __iter__(self):
            return iter(self._keys)
    FMapping._mapping_type = FMapping
    FMapping._set_type = FSet

    lhs = FMapping({'a': 13, 'b': 12, 'c': 11})
    w, r = _base.weightedUnion(None, lhs, FSet('a', 'd'), 2, 3)
    ok(w == 1 and type(r) is FMapping)
    ok(r._keys == ['a', 'b', 'c', 'd'] and
       r._values == [13 * 2 + 42 * 3, 12, 11, 42], r._keys, r._values)
    w, r = _base.weightedIntersection(None, lhs, FSet('a', 'd'), 2, 3)
    ok(w == 1 and type(r) is FMapping and r._keys == ['a'] and
       r._values == [13 * 2 + 42 * 3])
    w, r = _base.weightedUnion(None, lhs, FMapping({'a': 1, 'z': 5}), 2, 3)
    ok(w == 1 and r._keys == ['a', 'b', 'c', 'z'] and
       r._values == [29, 12, 11, 5])
    s = FSet('a', 'd')
    s.MERGE = lambda v1, w1, v2, w2: (v1 * w1) + (v2 * w2)
    s.MERGE_WEIGHT = lambda v, w: v * w
    s.MERGE_DEFAULT = 1
    s._mapping_type = FMapping
    w, r = _base.weightedUnion(None, s, lhs, 2, 3)
    ok(w == 1 and type(r) is FMapping and r._keys == ['a', 'b', 'c', 'd'] and
       r._values == [13 * 3 + 2, 36, 33, 2], r._values)
    w, r = _base.weightedIntersection(None, s, lhs, 2, 3)
    ok(w == 1 and r._keys == ['a'] and r._values == [41])
    w, r = _base.weightedUnion(None, s, FSet('b'), 2, 3)
    ok(w == 1 and type(r) is FSet and r._keys == ['a', 'b', 'd'])
    w, r = _base.weightedIntersection(None, s, FSet('a'), 2, 3)
    # (FSet is no BTrees Set, so no w1 + w2 here)
    ok(w == 1 and type(r) is FSet and r._keys == ['a'])
    del s.MERGE_DEFAULT
    raises(TypeError, 'invalid set operation', _base.weightedUnion,
           None, s, lhs)
    raises(TypeError, 'invalid set operation', _base.weightedIntersection,
           None, s, FSet('a'))

    class NoMerge(dict):
        MERGE_DEFAULT = 1

        def MERGE_WEIGHT(self, v, w):
            return v
    raises(TypeError, 'invalid set operation', _base.weightedUnion, None,
           NoMerge({'a': 1}), FMapping({'a': 1}))
    raises(TypeError, 'invalid set operation', _base.weightedIntersection,
           None, NoMerge({'a': 1}), FMapping({'a': 1}))
    raises(TypeError, 'invalid set operation', _base.weightedUnion, None,
           {'a': 1}, {'b': 2})


def main():
    rnd = random.Random(SEED)
    for _ in range(3):
        section_differential(rnd)
    section_none()
    section_odd_weights()
    section_order_of_effects()
    section_errors()
    section_ghosts(rnd)
    section_fakes()
    print('OK: %d checks' % checks)
    return 0


if __name__ == '__main__':
    sys.exit(main())
