# ---------------------------------------------------------------------------
# Common harness (identical in all four C03 demos).
#
# Drives insert / delete / update / clear histories through BTree and TreeSet,
# C and pure-Python implementation, several families, several node-size
# settings, and after EVERY step checks property C03 against an independent
# model:
#   * t._check() and BTrees.check.check(t) succeed;
#   * an independent walk over __getstate__() / _firstbucket / _next agrees
#     (leaf chain == leaves by descent, in key order, ends with None, no empty
#     node, children of one kind, keys inside the separator ranges, size
#     limits), and the content equals a dict/set model;
#   * the C and the Python implementation build the *same* structure and the
#     same pickle;
#   * (C only) the reference counts of every leaf, interior node and key
#     object are exactly what the structure implies;
#   * persistence notifications (jar.register / jar.readCurrent) seen by a
#     recording jar hash to constants recorded on the unmodified source.
# ---------------------------------------------------------------------------
import gc
import hashlib
import importlib
import pickle
import random
import sys
from collections import Counter

import BTrees.check

ALL_FAMILIES = ['OO', 'OI', 'OL', 'OU', 'OQ', 'IO', 'II', 'IF', 'IU',
                'LO', 'LL', 'LF', 'LQ', 'UO', 'UU', 'UI', 'UF',
                'QO', 'QQ', 'QL', 'QF']

FAILURES = []


def fail(msg):
    FAILURES.append(msg)
    print("FAIL:", msg)


def expect(cond, msg):
    if not cond:
        fail(msg)


def classes(family):
    mod = importlib.import_module('BTrees.%sBTree' % family)
    return {
        ('map', 'C'): getattr(mod, family + 'BTree'),
        ('map', 'Py'): getattr(mod, family + 'BTreePy'),
        ('set', 'C'): getattr(mod, family + 'TreeSet'),
        ('set', 'Py'): getattr(mod, family + 'TreeSetPy'),
    }


class node_sizes:
    """Temporarily configure max_leaf_size / max_internal_size on classes."""

    def __init__(self, clss, leaf, internal):
        self.clss = list(clss)
        self.leaf = leaf
        self.internal = internal

    def __enter__(self):
        self.saved = [(c, c.max_leaf_size, c.max_internal_size)
                      for c in self.clss]
        for c in self.clss:
            c.max_leaf_size = self.leaf
            c.max_internal_size = self.internal

    def __exit__(self, *exc):
        for c, leaf, internal in self.saved:
            c.max_leaf_size = leaf
            c.max_internal_size = internal


# --- independent walk ------------------------------------------------------

class Shape:
    __slots__ = ('leaves', 'interior', 'firstbucket_refs', 'key_refs',
                 'items', 'depth', 'tree')


def walk(t, is_map, max_leaf=None, max_internal=None, where=''):
    """Independent structural walk.  Returns a Shape; reports via fail()."""
    sh = Shape()
    sh.leaves = []          # leaf objects in descent order
    sh.interior = []        # interior nodes (root excluded)
    sh.firstbucket_refs = Counter()   # id(leaf) -> number of firstbucket refs
    sh.key_refs = Counter()           # id(key) -> references held by nodes
    sh.items = []
    sh.depth = 0
    tree_type = type(t)
    leaf_depths = set()

    def leaf_items(b, lo, hi, depth):
        st = b.__getstate__()
        data = st[0]
        if is_map:
            keys = list(data[0::2])
            values = list(data[1::2])
        else:
            keys = list(data)
            values = [None] * len(keys)
        expect(len(keys) >= 1, where + ': empty leaf')
        if max_leaf is not None:
            expect(len(keys) <= max_leaf,
                   where + ': leaf of %d > max_leaf_size' % len(keys))
        for k in keys:
            sh.key_refs[id(k)] += 1
            expect(lo is None or lo <= k, where + ': key below range')
            expect(hi is None or k < hi, where + ': key above range')
        expect(keys == sorted(set(keys)), where + ': leaf keys not sorted')
        nxt = st[1] if len(st) == 2 else None
        expect(nxt is b._next, where + ': state next is not _next')
        leaf_depths.add(depth)
        sh.items.extend(zip(keys, values))

    def node(n, lo, hi, depth, is_root):
        """Return the leftmost leaf of n's subtree."""
        st = n.__getstate__()
        if st is None:
            expect(is_root, where + ': empty interior node')
            expect(n._firstbucket is None, where + ': empty, firstbucket')
            return None
        if len(st) == 1:
            # a node whose only child is an oid-less leaf:  the leaf's state
            # is embedded, the leaf itself is reachable as _firstbucket
            b = n._firstbucket
            expect(b is not None, where + ': no firstbucket')
            expect(b.__getstate__() == st[0][0], where + ': squashed state')
            sh.leaves.append(b)
            sh.firstbucket_refs[id(b)] += 1
            leaf_items(b, lo, hi, depth + 1)
            return b
        data, firstbucket = st
        expect(len(data) & 1, where + ': even state length')
        kids = data[0::2]
        seps = data[1::2]
        nkids = len(kids)
        expect(nkids >= 1, where + ': interior node without children')
        if max_internal is not None:
            if is_root:
                expect(nkids < 2 * max_internal, where + ': root too wide')
            else:
                expect(nkids <= max_internal,
                       where + ': interior node of %d children' % nkids)
        for s in seps:
            sh.key_refs[id(s)] += 1
            expect(lo is None or lo <= s, where + ': separator below range')
            expect(hi is None or s < hi, where + ': separator above range')
        expect(list(seps) == sorted(set(seps)), where + ': separators')
        kinds = {type(k) is tree_type for k in kids}
        expect(len(kinds) == 1, where + ': children of mixed kinds')
        first = None
        for i, kid in enumerate(kids):
            klo = seps[i - 1] if i > 0 else lo
            khi = seps[i] if i < nkids - 1 else hi
            if type(kid) is tree_type:
                sh.interior.append(kid)
                leftmost = node(kid, klo, khi, depth + 1, False)
                expect(leftmost is kid._firstbucket,
                       where + ': child firstbucket is not its leftmost leaf')
            else:
                leftmost = kid
                sh.leaves.append(kid)
                leaf_items(kid, klo, khi, depth + 1)
            if i == 0:
                first = leftmost
        expect(firstbucket is first, where + ': state firstbucket')
        expect(n._firstbucket is first, where + ': _firstbucket not leftmost')
        sh.firstbucket_refs[id(first)] += 1
        return first

    node(t, None, None, 0, True)
    node = leaf_items = None    # break the closure cycle (it holds sh)
    expect(len(leaf_depths) <= 1, where + ': leaves at different depths')
    sh.depth = max(leaf_depths) if leaf_depths else 0

    # the chain
    chain = []
    b = t._firstbucket
    while b is not None:
        chain.append(b)
        expect(len(chain) <= len(sh.leaves) + 1, where + ': chain too long')
        if len(chain) > len(sh.leaves) + 1:
            break
        b = b._next
    expect(len(chain) == len(sh.leaves)
           and all(x is y for x, y in zip(chain, sh.leaves)),
           where + ': leaf chain differs from leaves reached by descent')
    keys = [k for k, _ in sh.items]
    expect(keys == sorted(set(keys)), where + ': keys not in order/unique')
    return sh


def plain(t):
    """Nested plain-data rendering of the structure (for C vs Py compare)."""
    st = t.__getstate__()
    if st is None:
        return None
    if len(st) == 1:
        return ('one', st[0][0][0])
    out = []
    for i, x in enumerate(st[0]):
        if i & 1:
            out.append(x)
        elif type(x) is type(t):
            out.append(plain(x))
        else:
            out.append(('leaf', x.__getstate__()[0]))
    return tuple(out)


def _refcount_base():
    o = object()
    holder = [o]
    del o
    for x in holder:
        return sys.getrefcount(x) - 1   # minus the list's own reference


def check_refcounts(t, sh, keyobjs, model, where):
    """C implementation only: exact reference counts implied by structure."""
    base = _refcount_base()
    prev = None
    for b in sh.leaves:
        want = 1                       # parent's child pointer
        want += 1 if prev is not None else 0     # predecessor's next
        want += sh.firstbucket_refs[id(b)]       # firstbucket pointers
        got = sys.getrefcount(b) - base - 1      # minus sh.leaves
        expect(got == want,
               '%s: leaf refcount %d, structure implies %d' % (where, got, want))
        prev = b
    for n in sh.interior:
        got = sys.getrefcount(n) - base - 1
        expect(got == 1, '%s: interior refcount %d != 1' % (where, got))
    if keyobjs is not None:
        for k in keyobjs:
            want = sh.key_refs[id(k)] + (1 if k in model else 0)
            got = sys.getrefcount(k) - base - 1  # minus keyobjs
            expect(got == want,
                   '%s: key %r refcount %d, structure implies %d'
                   % (where, k, got, want))


def verify(t, model, is_map, leaf, internal, where, keyobjs=None,
           use_check_module=True, is_c=False):
    try:
        t._check()
    except Exception as e:           # AssertionError expected if broken
        fail('%s: _check(): %r' % (where, e))
    if use_check_module:
        try:
            BTrees.check.check(t)
        except Exception as e:
            fail('%s: check.check(): %r' % (where, e))
    sh = walk(t, is_map, leaf, internal, where)
    items = sh.items
    sh.items = None        # (holds key references; see check_refcounts)
    if is_map:
        expect(items == sorted(model.items()), where + ': content differs')
        expect(list(t.items()) == items, where + ': items() differs')
    else:
        expect([k for k, _ in items] == sorted(model),
               where + ': content differs')
        expect(list(t.keys()) == sorted(model), where + ': keys() differs')
    del items
    expect(len(t) == len(model), where + ': len differs')
    expect(bool(t) == bool(model), where + ': bool differs')
    if is_c:
        check_refcounts(t, sh, keyobjs, model, where)
    return sh


# --- histories -------------------------------------------------------------

def history(seed, nsteps, nkeys):
    """A deterministic list of ('set'|'del'|'update'|'clear', ...) steps that
    grows the tree to several levels and drains it from the left, from the
    right and from the middle (emptied first / middle / last leaves,
    firstbucket hand-off up the spine), then mixes randomly."""
    rng = random.Random(seed)
    ops = []
    keys = list(range(nkeys))
    # ascending fill, drain from the left
    for k in keys:
        ops.append(('set', k))
    for k in keys:
        ops.append(('del', k))
    # descending fill, drain from the right
    for k in reversed(keys):
        ops.append(('set', k))
    for k in reversed(keys):
        ops.append(('del', k))
    # bulk update, drain from the middle outwards
    ops.append(('update', keys[::2]))
    ops.append(('update', keys[1::2]))
    mid = nkeys // 2
    order = []
    for d in range(nkeys):
        for k in (mid + d, mid - d - 1):
            if 0 <= k < nkeys and k not in order:
                order.append(k)
    for k in order:
        ops.append(('del', k))
    # random mix with phases
    for phase in range(4):
        p_ins = (0.75, 0.3, 0.6, 0.2)[phase]
        for _ in range(nsteps // 4):
            k = rng.randrange(nkeys)
            r = rng.random()
            if r < 0.01:
                ops.append(('clear',))
            elif r < 0.04:
                ops.append(('update', [rng.randrange(nkeys)
                                       for _ in range(rng.randrange(1, 9))]))
            elif rng.random() < p_ins:
                ops.append(('set', k))
            else:
                ops.append(('del', k))
    # leave nothing behind
    ops.append(('drain',))
    return ops


def apply_op(t, model, op, is_map, key_of, stepno):
    """Apply op to tree and model; return a plain description of the result
    (results / exception classes are compared C vs Py)."""
    kind = op[0]
    try:
        if kind == 'set':
            k = key_of(op[1])
            if is_map:
                t[k] = stepno
                model[k] = stepno
                return None
            r = t.add(k)
            want = 0 if k in model else 1
            model.add(k)
            expect(r == want, 'add() returned %r, want %r' % (r, want))
            return r
        if kind == 'del':
            k = key_of(op[1])
            present = k in model
            try:
                if is_map:
                    del t[k]
                else:
                    t.remove(k)
            except KeyError:
                expect(not present, 'KeyError for a present key')
                return 'KeyError'
            expect(present, 'no KeyError for an absent key')
            if is_map:
                del model[k]
            else:
                model.remove(k)
            return None
        if kind == 'update':
            ks = [key_of(k) for k in op[1]]
            if is_map:
                t.update([(k, stepno) for k in ks])
                model.update((k, stepno) for k in ks)
                return None
            r = t.update(ks)
            # the C TreeSet reports the number of new keys, the Python one
            # returns None (a known, documented-by-test difference)
            want = (len(set(ks) - set(model))
                    if not type(t).__name__.endswith('Py') else None)
            model.update(ks)
            expect(r == want, 'update() returned %r, want %r' % (r, want))
            return None
        if kind == 'clear':
            t.clear()
            model.clear()
            return None
        if kind == 'drain':
            for k in sorted(model):
                if is_map:
                    expect(t.pop(k) == model[k], 'pop() value')
                else:
                    t.remove(k)
            model.clear()
            return None
    except Exception as e:
        fail('unexpected %r in step %d %r' % (e, stepno, op))
        return type(e).__name__
    raise AssertionError(op)


class KeyPool:
    """Distinct key *objects* (so reference counts are meaningful) for the
    object-keyed families; plain ints otherwise."""

    def __init__(self, family, nkeys):
        self.objects = family[0] == 'O'
        # ints > 256 are not cached by the interpreter: one object per key
        self.keys = [1000 + 7 * i for i in range(nkeys)] if self.objects \
            else list(range(nkeys))

    def __call__(self, i):
        return self.keys[i]


def run_histories(family, leaf, internal, seed, nsteps, nkeys, impls=('C', 'Py'),
                  kinds=('map', 'set')):
    """Run one history through C and Py, map and set, compare everything."""
    clss = classes(family)
    depth_seen = 0
    with node_sizes(clss.values(), leaf, internal):
        for kind in kinds:
            is_map = kind == 'map'
            pools = {impl: KeyPool(family, nkeys) for impl in impls}
            trees = {impl: clss[(kind, impl)]() for impl in impls}
            models = {impl: ({} if is_map else set()) for impl in impls}
            ops = history(seed, nsteps, nkeys)
            for stepno, op in enumerate(ops):
                results = {}
                for impl in impls:
                    where = '%s %s/%s leaf=%d internal=%d step %d %r' % (
                        family, kind, impl, leaf, internal, stepno, op[:2])
                    results[impl] = apply_op(trees[impl], models[impl], op,
                                             is_map, pools[impl], stepno)
                    sh = verify(trees[impl], models[impl], is_map, leaf,
                                internal, where,
                                keyobjs=(pools[impl].keys
                                         if pools[impl].objects else None),
                                is_c=(impl == 'C'))
                    depth_seen = max(depth_seen, sh.depth)
                    del sh
                if len(impls) == 2:
                    expect(results['C'] == results['Py'],
                           where + ': C and Py results differ')
                    expect(plain(trees['C']) == plain(trees['Py']),
                           where + ': C and Py structures differ')
                    if stepno % 16 == 0:
                        pc = pickle.dumps(trees['C'], 2)
                        pp = pickle.dumps(trees['Py'], 2)
                        expect(pc == pp, where + ': pickles differ')
                        # (no structural check of the copy:  a plain pickle
                        # embeds the state of an oid-less only-child leaf)
                        copy = pickle.loads(pc)
                        expect(list(copy.keys()) == sorted(models['C']),
                               where + ': unpickled content differs')
                if FAILURES:
                    return depth_seen
    return depth_seen


# --- persistence notifications --------------------------------------------

class RecordingJar:
    def __init__(self):
        self.log = []
        self.next_oid = 1
        self.fail_register_for = None

    def register(self, obj):
        if obj._p_oid == self.fail_register_for:
            raise JarFailure('register')
        self.log.append(('reg', obj._p_oid))

    def readCurrent(self, obj):
        self.log.append(('cur', obj._p_oid))

    def setstate(self, obj):      # never reached: nothing is ghostified
        raise JarFailure('setstate')

    def adopt(self, obj):
        if obj._p_oid is None:
            obj._p_jar = self
            obj._p_oid = b'%08d' % self.next_oid
            self.next_oid += 1


class JarFailure(Exception):
    pass


def all_nodes(t):
    out = [t]
    st = t.__getstate__()
    if st is None:
        return out
    if len(st) == 1:
        out.append(t._firstbucket)
        return out
    for x in st[0][0::2]:
        if type(x) is type(t):
            out.extend(all_nodes(x))
        else:
            out.append(x)
    return out


def notification_digest(cls, is_map, leaf, internal, seed, nsteps, nkeys,
                        adopt_all):
    """Run a history with a recording jar.  After every step every node is
    'committed' (_p_changed = False, and given an oid when adopt_all).  The
    digest covers which oids registered / readCurrent-ed in which step."""
    h = hashlib.sha256()
    with node_sizes([cls], leaf, internal):
        jar = RecordingJar()
        t = cls()
        jar.adopt(t)
        model = {} if is_map else set()
        for stepno, op in enumerate(history(seed, nsteps, nkeys)):
            jar.log.append(('step', stepno))
            apply_op(t, model, op, is_map, lambda i: i, stepno)
            nodes = all_nodes(t)
            changed = sorted(n._p_oid for n in nodes
                             if n._p_oid is not None and n._p_changed)
            jar.log.append(('changed', tuple(changed)))
            for n in nodes:
                if adopt_all:
                    jar.adopt(n)
                if n._p_jar is not None:
                    n._p_changed = False
            t._check()
        h.update(repr(jar.log).encode())
    return h.hexdigest()[:16]
# ---------------------------------------------------------------------------
# C03s specific part:  the Python delete path -- _Tree._del, _Tree._split,
# _BucketBase._deleteNextBucket (_base.py).
# ---------------------------------------------------------------------------
from BTrees.OOBTree import OOBTree, OOBTreePy, OOTreeSet, OOTreeSetPy
from BTrees.LLBTree import LLBTree, LLBTreePy


def leaf_paths(t, prefix=()):
    """[(path, leaf)] in key order; path = child indices from the root."""
    st = t.__getstate__()
    if st is None:
        return []
    if len(st) == 1:
        return [(prefix + (0,), t._firstbucket)]
    out = []
    for i, kid in enumerate(st[0][0::2]):
        if type(kid) is type(t):
            out.extend(leaf_paths(kid, prefix + (i,)))
        else:
            out.append((prefix + (i,), kid))
    return out


def leaf_keys(b, is_map):
    data = b.__getstate__()[0]
    return list(data[0::2]) if is_map else list(data)


def build(cls, is_map, n, order='asc'):
    t = cls()
    ks = list(range(n))
    if order == 'desc':
        ks.reverse()
    elif order == 'mix':
        random.Random(3).shuffle(ks)
    for k in ks:
        if is_map:
            t[k] = -k
        else:
            t.add(k)
    return t


def empty_each_leaf():
    """For every leaf position of a 3+ level tree:  delete exactly the keys
    of that leaf and check the unlink (first / middle / last leaf of a
    bottom node, first leaf of a non-first subtree, very first and very last
    leaf of the tree)."""
    kinds_seen = set()
    for ccls, pcls, is_map in ((OOBTree, OOBTreePy, True),
                               (OOTreeSet, OOTreeSetPy, False),
                               (LLBTree, LLBTreePy, True)):
        for leaf, internal, n, order in ((2, 2, 26, 'asc'), (2, 2, 26, 'desc'),
                                         (3, 2, 40, 'mix'), (2, 3, 30, 'asc')):
            with node_sizes([ccls, pcls], leaf, internal):
                nleaves = len(leaf_paths(build(ccls, is_map, n, order)))
                for li in range(nleaves):
                    gone = {}
                    for impl, cls in (('C', ccls), ('Py', pcls)):
                        t = build(cls, is_map, n, order)
                        lp = leaf_paths(t)
                        expect(len(lp) == nleaves, 's: C/Py leaf counts')
                        path, victim = lp[li]
                        prev = lp[li - 1][1] if li else None
                        nxt = lp[li + 1][1] if li + 1 < nleaves else None
                        expect(victim._next is nxt, 's: setup chain')
                        if len(path) >= 3:
                            if path[-1] > 0:
                                kinds_seen.add('inner')
                            elif any(path[:-1]):
                                kinds_seen.add('first-of-subtree')
                            else:
                                kinds_seen.add('first-of-tree')
                            if li == nleaves - 1:
                                kinds_seen.add('last-of-tree')
                        vkeys = leaf_keys(victim, is_map)
                        model = dict((k, -k) for k in range(n)) if is_map \
                            else set(range(n))
                        del lp
                        if impl == 'C':
                            base = _refcount_base()
                            rc_next = (sys.getrefcount(nxt)
                                       if nxt is not None else None)
                        where = 's: %s %d/%d %s leaf %d %r' % (
                            cls.__name__, leaf, internal, order, li, path)
                        for k in vkeys:
                            if is_map:
                                del t[k]
                                del model[k]
                            else:
                                t.remove(k)
                                model.remove(k)
                            # (no refcount model here: we hold leaves)
                            verify(t, model, is_map, leaf, internal, where)
                        # the victim is out of the tree and out of the chain
                        now = [b for _, b in leaf_paths(t)]
                        expect(all(b is not victim for b in now),
                               where + ': victim still a child')
                        if prev is not None:
                            expect(prev._next is nxt,
                                   where + ': predecessor not re-linked')
                        else:
                            expect(t._firstbucket is nxt,
                                   where + ': firstbucket not handed on')
                        # the unlinked leaf itself is left alone
                        expect(len(victim) == 0, where + ': victim not empty')
                        expect(victim._next is nxt,
                               where + ': victim._next was touched')
                        if impl == 'C':
                            del now
                            # only this function still refers to the victim
                            # (local variable + getrefcount's argument)
                            expect(sys.getrefcount(victim) == 2,
                                   where + ': victim refcount %d'
                                   % sys.getrefcount(victim))
                            if nxt is not None:
                                # successor: lost the victim's reference,
                                # gained the predecessor's / firstbuckets'
                                sh = walk(t, is_map, None, None, where)
                                sh.items = None
                                want = (1 + (1 if prev is not None else 0)
                                        + sh.firstbucket_refs[id(nxt)])
                                # + victim._next + sh.leaves + local
                                got = sys.getrefcount(nxt) - base - 2
                                expect(got == want, where +
                                       ': successor refcount %d, want %d'
                                       % (got, want))
                                del sh
                        gone[impl] = plain(t)
                    expect(gone['C'] == gone['Py'],
                           's: C and Py differ after emptying leaf %d' % li)
    expect(kinds_seen == {'inner', 'first-of-subtree', 'first-of-tree',
                          'last-of-tree'},
           's: positions covered: %r' % sorted(kinds_seen))


def chain_already_ends():
    """The 'no successor' exit:  only reachable with a chain that is already
    damaged (leaf 1's next pointer is missing).  Nothing to unlink, no error,
    no notification."""
    for tcls, bcls, is_map in ((OOBTree, OOBTree._bucket_type, True),
                               (OOBTreePy, OOBTreePy._bucket_type, True),
                               (OOTreeSet, OOTreeSet._bucket_type, False),
                               (OOTreeSetPy, OOTreeSetPy._bucket_type, False)):
        b1 = bcls()
        b2 = bcls()
        if is_map:
            b1[1] = 1
            b2[5] = 5
        else:
            b1.add(1)
            b2.add(5)
        expect(b1._next is None, 's: fresh bucket has a successor')
        t = tcls()
        t.__setstate__(((b1, 5, b2), b1))
        jar = RecordingJar()
        jar.adopt(b1)
        if is_map:
            del t[5]
        else:
            t.remove(5)
        expect(list(t.keys()) == [1] and b1._next is None
               and t._firstbucket is b1, 's: damaged-chain delete')
        expect(jar.log == [], 's: no-op unlink notified the jar: %r' % jar.log)
        expect(not b1._p_changed, 's: no-op unlink marked the leaf changed')
        t._check()


def left_sibling_subtree_is_empty():
    """First error exit of BTree_deleteNextBucket:  the subtree to the left
    has no last bucket (only constructible through __setstate__).  The
    IndexError must come through, for C and Python alike."""
    for tcls, is_map in ((OOBTree, True), (OOBTreePy, True),
                         (OOTreeSet, False), (OOTreeSetPy, False)):
        right = tcls()
        if is_map:
            right[10] = 10
        else:
            right.add(10)
        b = right._firstbucket
        left = tcls()
        root = tcls()
        root.__setstate__(((left, 5, right), b))
        try:
            if is_map:
                del root[10]
            else:
                root.remove(10)
        except IndexError:
            pass
        else:
            fail('s: %s: no IndexError' % tcls.__name__)
        # the right subtree did its part before the error
        expect(len(right) == 0 and right._firstbucket is None,
               's: right subtree after failed unlink')
        expect(len(b) == 0, 's: leaf after failed unlink')
        if not tcls.__name__.endswith('Py'):
            base = _refcount_base()
            # left: root's child pointer + local variable
            expect(sys.getrefcount(left) - base + 1 == 2,
                   's: left sibling refcount %d'
                   % (sys.getrefcount(left) - base + 1))



def del_return_values():
    """_del() reports (first leaf went away?, value).  Expected flag derived
    from the structure before/after; exact reprs of the whole run hashed
    against a constant recorded on the unmodified source."""
    h = hashlib.sha256()
    for cls, is_map in ((OOBTreePy, True), (OOTreeSetPy, False),
                        (LLBTreePy, True)):
        for leaf, internal, n, order in ((2, 2, 26, 'asc'), (3, 2, 40, 'mix'),
                                         (2, 3, 30, 'desc'), (4, 4, 9, 'asc')):
            with node_sizes([cls], leaf, internal):
                rng = random.Random(leaf * 100 + internal)
                for delorder in ('asc', 'desc', 'rnd'):
                    t = build(cls, is_map, n, order)
                    ks = list(range(n))
                    if delorder == 'desc':
                        ks.reverse()
                    elif delorder == 'rnd':
                        rng.shuffle(ks)
                    model = dict((k, -k) for k in range(n)) if is_map \
                        else set(range(n))
                    for k in ks:
                        first_before = t._firstbucket
                        try:
                            t._del(n + 5)
                        except KeyError as e:
                            expect(e.args == (n + 5,), 's: KeyError args')
                        else:
                            fail('s: _del of a missing key')
                        r = t._del(k)
                        h.update(repr(r).encode())
                        flag, value = r
                        expect(bool(flag) == (t._firstbucket
                                              is not first_before),
                               's: _del flag %r, firstbucket moved: %r'
                               % (flag, t._firstbucket is not first_before))
                        if is_map:
                            expect(value == model.pop(k), 's: _del value')
                        else:
                            model.remove(k)
                        verify(t, model, is_map, leaf, internal,
                               's: _del %s %d/%d %s %s key %d' % (
                                   cls.__name__, leaf, internal, order,
                                   delorder, k), use_check_module=True)
                    try:
                        t._del(0)
                    except KeyError as e:
                        expect(e.args == (0,), 's: KeyError args (empty)')
                    else:
                        fail('s: _del on an empty tree')
    d = h.hexdigest()[:16]
    if '--record' in sys.argv:
        print('DEL_RETURNS = %r' % d)
    else:
        expect(d == DEL_RETURNS, 's: _del return values digest %s' % d)


def split_directly():
    """_Tree._split(index):  the node keeps children [:index], the new
    sibling gets [index:], each with the right firstbucket; leaves and
    chain are not touched."""
    for cls, is_map in ((OOBTreePy, True), (OOTreeSetPy, False)):
        with node_sizes([cls], 2, 3):
            for n in (7, 12, 30):
                width = len(build(cls, is_map, n)._data)
                for index in [None] + list(range(0, width)) + [-1]:
                    t = build(cls, is_map, n)
                    items = list(t._data)
                    chain = [b for _, b in leaf_paths(t)]
                    nexts = [b._next for b in chain]
                    old_first = t._firstbucket
                    jar = RecordingJar()
                    jar.adopt(t)
                    if index is None:
                        sib = t._split()
                        cut = width // 2
                    else:
                        sib = t._split(index)
                        cut = index % width
                    expect(type(sib) is cls, 's: sibling type')
                    expect(len(t._data) == cut
                           and all(a is b for a, b in zip(t._data, items)),
                           's: node must keep children [:%d]' % cut)
                    expect(len(sib._data) == width - cut
                           and all(a is b for a, b
                                   in zip(sib._data, items[cut:])),
                           's: sibling must get children [%d:]' % cut)
                    first = sib._data[0].child
                    while type(first) is cls:
                        first = first._data[0].child
                    expect(sib._firstbucket is first,
                           's: sibling firstbucket is not its leftmost leaf')
                    expect(t._firstbucket is (old_first if cut else None),
                           's: node firstbucket after split at %d' % cut)
                    expect([b._next for b in chain] == nexts,
                           's: split must not touch the chain')
                    # the only attribute _split assigns on the node itself
                    # is _firstbucket, and only when nothing is left in it
                    expect(jar.log == ([] if cut else [('reg', t._p_oid)])
                           and bool(t._p_changed) == (cut == 0),
                           's: _split notifications at %d: %r'
                           % (cut, jar.log))
                    if cut:
                        t._check(sib._firstbucket)
                    sib._check(None)
        # nothing to split
        t = cls()
        try:
            t._split()
        except IndexError:
            pass
        else:
            fail('s: _split of an empty tree')
        expect(t._data == [] and t._firstbucket is None, 's: empty split')


def unlink_directly():
    """_BucketBase._deleteNextBucket on leaves:  no successor, successor in
    the middle, successor at the end."""
    for bcls, is_map in ((OOBTreePy._bucket_type, True),
                         (OOTreeSetPy._bucket_type, False)):
        a, b, c = bcls(), bcls(), bcls()
        a._next, b._next = b, c
        jar = RecordingJar()
        for x in (a, b, c):
            jar.adopt(x)
        expect(c._deleteNextBucket() is None and c._next is None,
               's: end of chain')
        expect(jar.log == [] and not c._p_changed,
               's: unlink at the end of the chain must not notify')
        expect(a._deleteNextBucket() is None, 's: result')
        expect(a._next is c and b._next is c and c._next is None,
               's: middle successor')
        expect(a._deleteNextBucket() is None, 's: result')
        expect(a._next is None and c._next is None, 's: last successor')
        expect(a._deleteNextBucket() is None and a._next is None,
               's: nothing left')
        # assigning _next marks the leaf changed (once); the calls that
        # found no successor assigned nothing
        expect(jar.log == [('reg', a._p_oid)] and a._p_changed
               and not (b._p_changed or c._p_changed),
               's: unlink notifications: %r' % jar.log)
        # a tree delegates to its last leaf
        tcls = OOBTreePy if is_map else OOTreeSetPy
        with node_sizes([tcls], 2, 2):
            t = build(tcls, is_map, 20)
            leaves = [x for _, x in leaf_paths(t)]
            sub = t._data[0].child
            last = sub
            while type(last) is tcls:
                last = last._data[-1].child
            i = [j for j, x in enumerate(leaves) if x is last][0]
            expect(sub._deleteNextBucket() is None, 's: tree unlink result')
            expect(last._next is leaves[i + 2],
                   's: tree unlink must act on its last leaf')
            expect([x._next for j, x in enumerate(leaves) if j != i]
                   == [y for j, y in enumerate(leaves[1:] + [None])
                       if j != i],
                   's: tree unlink touched other leaves')


def specific():
    empty_each_leaf()
    chain_already_ends()
    left_sibling_subtree_is_empty()
    del_return_values()
    split_directly()
    unlink_directly()


# sha256 prefix over repr() of every _del() result in del_return_values()
DEL_RETURNS = '11fcfeaac6010c17'

# notification digests recorded on the unmodified source
# (class name, adopt_all) -> digest
DIGESTS = {
    ('OOBTree', False): 'cd7ce16e308b3af3',
    ('OOBTree', True): 'ad666ca154663931',
    ('OOBTreePy', False): '94597414d2235a4b',
    ('OOBTreePy', True): '003945184756fbb6',
    ('OOTreeSet', False): 'cd7ce16e308b3af3',
    ('OOTreeSet', True): 'c294ed433fd69a6f',
    ('OOTreeSetPy', False): '94597414d2235a4b',
    ('OOTreeSetPy', True): '4d9069e04b4e8df9',
}
# ---------------------------------------------------------------------------
# driver (identical in all four C03 demos)
# ---------------------------------------------------------------------------

def main():
    deepest = 0
    # every family, smallest legal node sizes
    for family in ALL_FAMILIES:
        deepest = max(deepest, run_histories(family, 2, 2, 11, 200, 30))
        if FAILURES:
            return 1
    # a few families, several node-size settings, longer histories
    for family, configs in (('OO', ((2, 2), (2, 3), (3, 2), (4, 3), (7, 5))),
                            ('LL', ((2, 2), (3, 4), (5, 2))),
                            ('IF', ((3, 3),))):
        for n, (leaf, internal) in enumerate(configs):
            deepest = max(deepest, run_histories(family, leaf, internal,
                                                 100 + n, 800, 60))
            if FAILURES:
                return 1
    expect(deepest >= 4, 'histories never reached 3+ levels (%d)' % deepest)
    # default sizes as well (subclass-free, big tree, one verification)
    from BTrees.IIBTree import IIBTree, IIBTreePy
    for cls in (IIBTree, IIBTreePy):
        t = cls()
        model = {}
        rng = random.Random(7)
        for i in range(40000):
            k = rng.randrange(30000)
            t[k] = i
            model[k] = i
        verify(t, model, True, cls.max_leaf_size, cls.max_internal_size,
               'default sizes ' + cls.__name__)
        for k in sorted(model)[:20000:1] + sorted(model)[::-3]:
            if k in model:
                del t[k]
                del model[k]
        verify(t, model, True, cls.max_leaf_size, cls.max_internal_size,
               'default sizes after deletes ' + cls.__name__)
    # persistence notifications against recorded constants
    from BTrees.OOBTree import OOBTree, OOBTreePy, OOTreeSet, OOTreeSetPy
    for cls, is_map in ((OOBTree, True), (OOBTreePy, True),
                        (OOTreeSet, False), (OOTreeSetPy, False)):
        for adopt_all in (False, True):
            d = notification_digest(cls, is_map, 2, 2, 5, 300, 30, adopt_all)
            if '--record' in sys.argv:
                print('    (%r, %r): %r,' % (cls.__name__, adopt_all, d))
            else:
                expect(DIGESTS.get((cls.__name__, adopt_all)) == d,
                       'notification digest %s adopt_all=%s: %s'
                       % (cls.__name__, adopt_all, d))
    specific()
    if FAILURES:
        print('%d failure(s)' % len(FAILURES))
        return 1
    print('OK')
    return 0


if __name__ == '__main__':
    sys.exit(main())
