"""Differential demo for refactoring t (C09).

Target: the C conversion layer - COPY_KEY_FROM_ARG / COPY_VALUE_FROM_ARG for
the 32-bit int, 32-bit unsigned and float families (intkeymacros.h,
intvaluemacros.h, floatvaluemacros.h) and the conversion helpers in
BTreeModuleTemplate.c.  The 64-bit and object families are run too (they share
every call site).

Every public entry point that converts an argument is driven with arguments
inside and outside the family's domain, on BTree / Bucket / Set / TreeSet
subclasses with tiny node sizes, and compared against a plain-Python model
(dict + sorted()).  Checked after every step: result or exception class,
contents, "a refused write changes nothing" (items, __getstate__, _p_changed
under a stand-in jar), and the tree's own _check().

Run:  PYTHONPATH=<tree>/src /venv/bin/python demo.py     (exit 0 == as specified)
"""
import importlib
import pickle
import random
import struct
import sys

SEED = 90901
FAMILIES = ['II', 'IO', 'IF', 'IU', 'UO', 'UU', 'UF', 'UI',
            'LO', 'LL', 'LF', 'LQ', 'QO', 'QQ', 'QF', 'QL',
            'OI', 'OO', 'OU', 'OL', 'OQ']
BOUNDS = {'I': (-2 ** 31, 2 ** 31 - 1), 'U': (0, 2 ** 32 - 1),
          'L': (-2 ** 63, 2 ** 63 - 1), 'Q': (0, 2 ** 64 - 1)}
C_LONG = (-2 ** 63, 2 ** 63 - 1)

failures = []
counts = {'steps': 0, 'refused': 0, 'absent': 0}


def fail(msg):
    failures.append(msg)
    if len(failures) > 25:
        report()


def report():
    for f in failures:
        print('FAIL:', f)
    print('%d failures' % len(failures))
    sys.exit(1)


class MyInt(int):
    pass


class MyFloat(float):
    pass


class Jar:
    """Tiny stand-in for a ZODB connection."""

    def __init__(self):
        self.registered = []
        self.states = {}

    def register(self, obj):
        self.registered.append(obj._p_oid)

    def readCurrent(self, obj):
        pass

    def setstate(self, obj):
        obj.__setstate__(self.states[obj._p_oid])


def deep_state(obj):
    """__getstate__() with child nodes expanded recursively (shape + data)."""
    def expand(x):
        if isinstance(x, tuple):
            return tuple(expand(y) for y in x)
        if hasattr(x, '_p_oid') and hasattr(x, '__getstate__'):
            return (type(x).__name__, expand(x.__getstate__()))
        return x
    return expand(obj.__getstate__())


# ---------------------------------------------------------------- the model

def f32(x):
    return struct.unpack('f', struct.pack('f', x))[0]


def key_ok(kk, k):
    if kk == 'O':
        return True          # only ints are offered to object-keyed families
    lo, hi = BOUNDS[kk]
    return isinstance(k, int) and lo <= k <= hi


def conv_key(kk, k):
    return k if kk == 'O' else int(k)


def value_conv(vk, v):
    """-> (ok, stored)"""
    if vk == 'O':
        return True, v
    if vk == 'F':
        if isinstance(v, float):
            return True, f32(v)
        if isinstance(v, int) and C_LONG[0] <= v <= C_LONG[1]:
            return True, f32(float(v))
        return False, None
    lo, hi = BOUNDS[vk]
    if isinstance(v, int) and lo <= v <= hi:
        return True, int(v)
    return False, None


def key_pool(kk, rnd):
    small = list(range(-3, 40))
    if kk == 'O':
        return small, []
    lo, hi = BOUNDS[kk]
    good = [k for k in small if lo <= k <= hi]
    good += [lo, lo + 1, hi - 1, hi, True, False, MyInt(7), MyInt(hi)]
    edge = [-2 ** 31, 2 ** 31 - 1, 2 ** 31, 2 ** 32 - 1, -2 ** 63,
            2 ** 63 - 1]
    good += [k for k in edge if lo <= k <= hi]
    bad = [k for k in edge if not lo <= k <= hi]
    bad += [lo - 1, hi + 1, -2 ** 31 - 1, 2 ** 32, 2 ** 63, 2 ** 64,
            -2 ** 63 - 1, 2 ** 64 + 1, 2 ** 70, -2 ** 70, MyInt(hi + 1),
            'a', b'a', 1.0, 1.5, MyFloat(2.0), None, (1,), [1], 1j,
            float('inf')]
    bad = [k for k in bad if not key_ok(kk, k)]
    return good, bad


def value_pool(vk):
    if vk == 'O':
        return [0, 1, 'x', None, (1, 2), 2.5, 2 ** 80], []
    if vk == 'F':
        good = [0, 1, -1, 2, 3, 0.5, -0.25, 0.1, 1e10, 16777217, True,
                MyInt(5), MyFloat(1.25), 2 ** 63 - 1, -2 ** 63,
                float('inf'), 3.0e38]
        bad = [2 ** 63, -2 ** 63 - 1, 2 ** 70, 'a', None, (1,), 1j, b'1']
        return good, bad
    lo, hi = BOUNDS[vk]
    cand = [0, 1, 2, 3, 5, 100, -1, -5, lo, hi, lo + 1, hi - 1, True,
            MyInt(9), 2 ** 31 - 1, 2 ** 31, -2 ** 31, 2 ** 32 - 1, 2 ** 32,
            2 ** 63 - 1, 2 ** 63, 2 ** 64 - 1, lo - 1, hi + 1, 2 ** 64,
            2 ** 70, -2 ** 70, -2 ** 63 - 1]
    good = [v for v in cand if value_conv(vk, v)[0]]
    bad = [v for v in cand if not value_conv(vk, v)[0]]
    bad += ['a', 1.0, 1.5, None, (1,), b'1', MyFloat(1.0)]
    return good, bad


def outcome(fn, *args):
    try:
        return ('ok', fn(*args))
    except Exception as e:      # noqa: BLE001 - the class is what we compare
        return ('exc', type(e))


def same(a, b):
    """Same outcome: same exception class, or equal results of equal type."""
    if a[0] != b[0]:
        return False
    if a[0] == 'exc':
        return a[1] is b[1]
    x, y = a[1], b[1]
    if x is y:
        return True
    return type(x) is type(y) and x == y


# ----------------------------------------------------------- one container

class Subject:
    def __init__(self, fam, kind, cls, rnd):
        self.fam, self.kind, self.rnd = fam, kind, rnd
        self.kk, self.vk = fam[0], fam[1]
        self.mapping = kind in ('BTree', 'Bucket')
        self.tree = kind in ('BTree', 'TreeSet')
        ns = {'max_leaf_size': 4, 'max_internal_size': 3} if self.tree else {}
        self.cls = type(cls.__name__ + 'Small', (cls,), ns)
        globals()[self.cls.__name__] = self.cls      # picklable by name
        self.obj = self.cls()
        self.jar = Jar()
        self.obj._p_jar = self.jar
        self.obj._p_oid = b'\0' * 7 + b'\1'
        self.model = {}
        self.goodk, self.badk = key_pool(self.kk, rnd)
        self.goodv, self.badv = value_pool(self.vk)
        self.where = '%s%s' % (fam, kind)

    # -- helpers
    def contents(self):
        if self.mapping:
            return list(self.obj.items())
        return list(self.obj.keys())

    def model_contents(self):
        if self.mapping:
            return sorted(self.model.items())
        return sorted(self.model)

    def pick_key(self, p_bad=0.3):
        r = self.rnd
        if self.badk and r.random() < p_bad:
            return r.choice(self.badk), False
        if self.model and r.random() < 0.45:
            return r.choice(sorted(self.model)), True
        return r.choice(self.goodk), True

    def pick_value(self, p_bad=0.25):
        r = self.rnd
        if self.badv and r.random() < p_bad:
            return r.choice(self.badv)
        return r.choice(self.goodv)

    def check(self, what, got, want):
        counts['steps'] += 1
        if not same(got, want):
            fail('%s %s: got %r, model says %r' % (self.where, what, got, want))

    def run_write(self, what, fn, args, want, mutates):
        """Run a write; verify result, contents and persistence effect."""
        obj = self.obj
        obj._p_changed = False
        before_state = deep_state(obj)
        before_items = self.contents()
        got = outcome(fn, *args)
        self.check(what, got, want)
        after = self.contents()
        if after != self.model_contents():
            fail('%s %s: contents %r != model %r'
                 % (self.where, what, after, self.model_contents()))
        if want[0] == 'exc' and not mutates:
            counts['refused'] += 1
            if after != before_items:
                fail('%s %s: refused write changed the contents'
                     % (self.where, what))
            if deep_state(obj) != before_state:
                fail('%s %s: refused write changed the state'
                     % (self.where, what))
            if obj._p_changed:
                fail('%s %s: refused write set _p_changed'
                     % (self.where, what))
        elif mutates and not self.tree and not obj._p_changed:
            fail('%s %s: mutation did not set _p_changed' % (self.where, what))

    # -- reads
    def do_reads(self, k, good):
        obj, m = self.obj, self.model
        present = good and conv_key(self.kk, k) in m
        if not present:
            counts['absent'] += 1
        ck = conv_key(self.kk, k) if good else None
        obj._p_changed = False
        self.check('%r in' % (k,), outcome(obj.__contains__, k),
                   ('ok', present))
        self.check('has_key(%r)' % (k,), outcome(obj.has_key, k),
                   ('ok', present))
        if self.mapping:
            sentinel = object()
            self.check('get(%r)' % (k,), outcome(obj.get, k, sentinel),
                       ('ok', m[ck] if present else sentinel))
            self.check('get1(%r)' % (k,), outcome(obj.get, k),
                       ('ok', m[ck] if present else None))
            self.check('[%r]' % (k,), outcome(obj.__getitem__, k),
                       ('ok', m[ck]) if present else ('exc', KeyError))
        if obj._p_changed:
            fail('%s read of %r set _p_changed' % (self.where, k))

    # -- range searches (the bound is converted like a key)
    def do_ranges(self, k, good):
        obj, m = self.obj, self.model
        keys = sorted(m)
        if k is None or not keys:
            # None is "no bound", never converted; an empty container
            # answers before it looks at the bound.
            w_keys = w_upto = ('ok', keys)
            w_min = ('ok', keys[0]) if keys else ('exc', ValueError)
            w_max = ('ok', keys[-1]) if keys else ('exc', ValueError)
        elif good:
            ck = conv_key(self.kk, k)
            ge = [x for x in keys if x >= ck]
            le = [x for x in keys if x <= ck]
            w_keys = ('ok', ge)
            w_upto = ('ok', le)
            w_min = ('ok', ge[0]) if ge else ('exc', ValueError)
            w_max = ('ok', le[-1]) if le else ('exc', ValueError)
        else:
            w_keys = w_upto = w_min = w_max = ('exc', TypeError)
        self.check('keys(%r)' % (k,),
                   outcome(lambda: list(obj.keys(k))), w_keys)
        self.check('keys(None,%r)' % (k,),
                   outcome(lambda: list(obj.keys(None, k))), w_upto)
        self.check('minKey(%r)' % (k,), outcome(obj.minKey, k), w_min)
        self.check('maxKey(%r)' % (k,), outcome(obj.maxKey, k), w_max)
        if self.mapping:
            if w_keys[0] == 'ok':
                w_items = ('ok', [(x, m[x]) for x in w_keys[1]])
            else:
                w_items = w_keys
            self.check('items(%r)' % (k,),
                       outcome(lambda: list(obj.items(k))), w_items)
            self.check('iteritems(%r)' % (k,),
                       outcome(lambda: list(obj.iteritems(k))), w_items)

    # -- writes on mappings
    def do_setitem(self, k, good, v):
        m = self.model
        vok, sv = value_conv(self.vk, v)
        if good and vok:
            ck = conv_key(self.kk, k)
            new = ck not in m
            changes = new or self.vk == 'O' or m[ck] != sv
            m[ck] = sv
            self.run_write('[%r]=%r' % (k, v), self.obj.__setitem__, (k, v),
                           ('ok', None), changes)
        else:
            self.run_write('[%r]=%r' % (k, v), self.obj.__setitem__, (k, v),
                           ('exc', TypeError), False)

    def do_insert(self, k, good, v):
        m = self.model
        vok, sv = value_conv(self.vk, v)
        if good and vok:
            ck = conv_key(self.kk, k)
            new = ck not in m
            if new:
                m[ck] = sv
            self.run_write('insert(%r,%r)' % (k, v), self.obj.insert, (k, v),
                           ('ok', 1 if new else 0), new)
        else:
            self.run_write('insert(%r,%r)' % (k, v), self.obj.insert, (k, v),
                           ('exc', TypeError), False)

    def do_setdefault(self, k, good, v):
        # The C setdefault looks the key up first (a key outside the domain
        # is a TypeError), returns the stored value when it is there, and
        # only converts the default when it has to store it; it then hands
        # back the default object itself.
        m = self.model
        what = 'setdefault(%r,%r)' % (k, v)
        if not good:
            self.run_write(what, self.obj.setdefault, (k, v),
                           ('exc', TypeError), False)
            return
        ck = conv_key(self.kk, k)
        if ck in m:
            self.run_write(what, self.obj.setdefault, (k, v),
                           ('ok', m[ck]), False)
            return
        vok, sv = value_conv(self.vk, v)
        if not vok:
            self.run_write(what, self.obj.setdefault, (k, v),
                           ('exc', TypeError), False)
            return
        m[ck] = sv
        self.run_write(what, self.obj.setdefault, (k, v), ('ok', v), True)

    def do_pop(self, k, good, with_default):
        m = self.model
        d = object()
        args = (k, d) if with_default else (k,)
        what = 'pop%r' % (args[:1],)
        if not good:
            want, mut = ('exc', TypeError), False
        else:
            ck = conv_key(self.kk, k)
            if ck in m:
                want, mut = ('ok', m.pop(ck)), True
            elif with_default:
                want, mut = ('ok', d), False
            else:
                want, mut = ('exc', KeyError), False
        self.run_write(what, self.obj.pop, args, want, mut)

    def do_delitem(self, k, good):
        m = self.model
        if not good:
            want, mut = ('exc', TypeError), False
        else:
            ck = conv_key(self.kk, k)
            if ck in m:
                del m[ck]
                want, mut = ('ok', None), True
            else:
                want, mut = ('exc', KeyError), False
        self.run_write('del [%r]' % (k,), self.obj.__delitem__, (k,),
                       want, mut)

    def do_update_mapping(self):
        # update() stores pair after pair and stops at the first refusal.
        m = self.model
        pairs = []
        for _ in range(self.rnd.randint(1, 5)):
            k, good = self.pick_key(0.15)
            pairs.append((k, good, self.pick_value(0.15)))
        want, mut = ('ok', None), False
        for k, good, v in pairs:
            vok, sv = value_conv(self.vk, v)
            if not (good and vok):
                want = ('exc', TypeError)
                break
            ck = conv_key(self.kk, k)
            if ck not in m or self.vk == 'O' or m[ck] != sv:
                mut = True
            m[ck] = sv
        arg = [(k, v) for k, good, v in pairs]
        if self.rnd.random() < 0.3:
            try:
                as_dict = dict(arg)
            except TypeError:
                as_dict = None
            if as_dict is not None and len(as_dict) == len(arg):
                arg = as_dict
        self.run_write('update(%r)' % (arg,), self.obj.update, (arg,),
                       want, mut)

    # -- writes on sets
    def do_add(self, k, good, name):
        m = self.model
        fn = getattr(self.obj, name)
        if good:
            ck = conv_key(self.kk, k)
            new = ck not in m
            m[ck] = None
            self.run_write('%s(%r)' % (name, k), fn, (k,),
                           ('ok', 1 if new else 0), new)
        else:
            self.run_write('%s(%r)' % (name, k), fn, (k,),
                           ('exc', TypeError), False)

    def do_remove(self, k, good, name):
        m = self.model
        fn = getattr(self.obj, name)
        discard = name == 'discard'
        if not good:
            want, mut = (('ok', None) if discard else ('exc', TypeError)), False
        else:
            ck = conv_key(self.kk, k)
            if ck in m:
                del m[ck]
                want, mut = ('ok', None), True
            else:
                want = ('ok', None) if discard else ('exc', KeyError)
                mut = False
        if want[0] == 'ok' and not mut:
            # an accepted no-op: state must be untouched as well
            self.obj._p_changed = False
            before = deep_state(self.obj)
            self.check('%s(%r)' % (name, k), outcome(fn, k), want)
            if deep_state(self.obj) != before or self.obj._p_changed:
                fail('%s %s(%r) of an absent key changed something'
                     % (self.where, name, k))
            return
        self.run_write('%s(%r)' % (name, k), fn, (k,), want, mut)

    def do_update_set(self):
        m = self.model
        ks = [self.pick_key(0.12) for _ in range(self.rnd.randint(1, 6))]
        n, want, mut = 0, None, False
        for k, good in ks:
            if not good:
                want = ('exc', TypeError)
                break
            ck = conv_key(self.kk, k)
            if ck not in m:
                n += 1
                mut = True
            m[ck] = None
        if want is None:
            want = ('ok', n)
        arg = [k for k, good in ks]
        if self.rnd.random() < 0.3:
            arg = iter(arg)
        self.run_write('update(%r)' % ([k for k, g in ks],), self.obj.update,
                       (arg,), want, mut)

    # -- one random step
    def step(self):
        r = self.rnd
        k, good = self.pick_key()
        roll = r.random()
        if roll < 0.30:
            self.do_reads(k, good)
        elif roll < 0.40:
            self.do_ranges(k, good)
            if r.random() < 0.2:
                self.do_ranges(None, True)
        elif self.mapping:
            if roll < 0.58:
                self.do_setitem(k, good, self.pick_value())
            elif roll < 0.66:
                self.do_setdefault(k, good, self.pick_value())
            elif roll < 0.74:
                self.do_pop(k, good, r.random() < 0.5)
            elif roll < 0.82:
                self.do_delitem(k, good)
            elif roll < 0.90 and self.kind == 'BTree':
                self.do_insert(k, good, self.pick_value())
            else:
                self.do_update_mapping()
        else:
            if roll < 0.62:
                self.do_add(k, good, r.choice(['add', 'insert']))
            elif roll < 0.80:
                self.do_remove(k, good, r.choice(['remove', 'discard']))
            else:
                self.do_update_set()

    def finish(self):
        obj = self.obj
        if self.tree:
            obj._check()
        if self.contents() != self.model_contents():
            fail('%s final contents differ' % self.where)
        if len(obj) != len(self.model):
            fail('%s len differs' % self.where)
        # the pickle round trip reproduces contents and shape
        clone = pickle.loads(pickle.dumps(obj))
        if deep_state(clone) != deep_state(obj):
            fail('%s pickle round trip changes the state' % self.where)
        got = list(clone.items()) if self.mapping else list(clone.keys())
        if got != self.model_contents():
            fail('%s state round trip differs' % self.where)


# ------------------------------------------- conversion inside __setstate__

def setstate_cases(fam, mod):
    kk, vk = fam[0], fam[1]
    _, badk = key_pool(kk, random.Random(1))
    _, badv = value_pool(vk)
    B = getattr(mod, fam + 'Bucket')
    S = getattr(mod, fam + 'Set')
    T = getattr(mod, fam + 'BTree')
    gv = value_pool(vk)[0][1]
    ok, stored = value_conv(vk, gv)
    # good states
    b = B()
    b.__setstate__(((1, gv, 2, gv),))
    if list(b.items()) != [(1, stored), (2, stored)]:
        fail('%s Bucket.__setstate__ good state: %r' % (fam, list(b.items())))
    s = S()
    s.__setstate__(((1, 2, 3),))
    if list(s) != [1, 2, 3]:
        fail('%s Set.__setstate__ good state' % fam)
    # refused states
    for k in badk:
        got = outcome(B().__setstate__, ((1, gv, k, gv),))
        counts['steps'] += 1
        if got != ('exc', TypeError):
            fail('%s Bucket.__setstate__ key %r: %r' % (fam, k, got))
        got = outcome(S().__setstate__, ((1, k),))
        counts['steps'] += 1
        if got != ('exc', TypeError):
            fail('%s Set.__setstate__ key %r: %r' % (fam, k, got))
        # separator key of an interior node
        b1, b2 = B(), B()
        b1.__setstate__(((1, gv),))
        b2.__setstate__(((5, gv),))
        got = outcome(T().__setstate__, ((b1, k, b2), b1))
        counts['steps'] += 1
        if got != ('exc', TypeError):
            fail('%s BTree.__setstate__ separator %r: %r' % (fam, k, got))
    for v in badv:
        got = outcome(B().__setstate__, ((1, gv, 2, v),))
        counts['steps'] += 1
        if got != ('exc', TypeError):
            fail('%s Bucket.__setstate__ value %r: %r' % (fam, v, got))


# -------------------------- conversion inside the set-operation machinery

def setop_cases(fam, mod):
    kk = fam[0]
    if kk == 'O':
        return
    S = getattr(mod, fam + 'Set')
    good, bad = key_pool(kk, random.Random(2))
    base = S([1, 5, 9])
    for extra in ([7, 3, 3, 1], [good[-1], 2], []):
        want = sorted(set([1, 5, 9]) | {conv_key(kk, x) for x in extra})
        got = outcome(lambda: list(mod.union(base, extra)))
        counts['steps'] += 1
        if got != ('ok', want):
            fail('%s union(set, %r): %r' % (fam, extra, got))
        want = sorted({1, 5, 9} & {conv_key(kk, x) for x in extra})
        got = outcome(lambda: list(mod.intersection(base, extra)))
        counts['steps'] += 1
        if got != ('ok', want):
            fail('%s intersection(set, %r): %r' % (fam, extra, got))
    for k in bad:
        if not isinstance(k, int):
            continue            # mixed lists do not sort; not our subject
        got = outcome(lambda: list(mod.union(base, [3, k])))
        counts['steps'] += 1
        if got != ('exc', TypeError):
            fail('%s union(set, [3, %r]): %r' % (fam, k, got))
    if hasattr(mod, 'multiunion'):
        got = outcome(lambda: list(mod.multiunion([base, 4, [8, 2], S([5])])))
        counts['steps'] += 1
        if got != ('ok', [1, 2, 4, 5, 8, 9]):
            fail('%s multiunion: %r' % (fam, got))
        for k in bad:
            if hasattr(k, '__iter__'):
                continue        # iterables are accepted as sets of keys
            got = outcome(lambda: list(mod.multiunion([base, k])))
            counts['steps'] += 1
            if got[0] != 'exc' or got[1] is not TypeError:
                fail('%s multiunion([set, %r]): %r' % (fam, k, got))


# ------------------------- byValue converts its argument like a value

def byvalue_cases(fam, mod):
    vk = fam[1]
    if vk == 'O':
        return
    import warnings
    T = getattr(mod, fam + 'BTree')
    B = getattr(mod, fam + 'Bucket')
    goodv, badv = value_pool(vk)
    for cls in (T, B):
        t = cls()
        for i, v in enumerate([1, 2, 3, 4]):
            t[i] = v
        with warnings.catch_warnings():
            warnings.simplefilter('ignore')
            got = outcome(lambda: [k for v, k in t.byValue(2)])
            counts['steps'] += 1
            if got != ('ok', [3, 2, 1]):
                fail('%s %s.byValue(2): %r' % (fam, cls.__name__, got))
            for v in badv:
                got = outcome(t.byValue, v)
                counts['steps'] += 1
                if got != ('exc', TypeError):
                    fail('%s %s.byValue(%r): %r'
                         % (fam, cls.__name__, v, got))


# ------------------ refused arguments are not leaked (reference counts)

def refcount_cases(fam, mod):
    kk, vk = fam[0], fam[1]
    if kk == 'O':
        return
    lo, hi = BOUNDS[kk]
    badkeys = [hi + 12345, 'not-a-key-%s' % fam, 12345.5]
    badvals = []
    if vk != 'O':
        badvals = [2 ** 70 + 5, 'not-a-value-%s' % fam]
    for kind in ('BTree', 'Bucket', 'Set', 'TreeSet'):
        cls = getattr(mod, fam + kind)
        if kind in ('BTree', 'TreeSet'):
            cls = type(cls.__name__ + 'Rc', (cls,),
                       {'max_leaf_size': 4, 'max_internal_size': 3})
        mapping = kind in ('BTree', 'Bucket')
        gv = value_pool(vk)[0][1]
        obj = cls()
        for i in range(25):
            if mapping:
                obj[i] = gv
            else:
                obj.add(i)
        for k in badkeys:
            before = sys.getrefcount(k)
            for _ in range(20):
                outcome(obj.__contains__, k)
                outcome(obj.has_key, k)
                outcome(obj.keys, k)
                outcome(obj.minKey, k)
                if mapping:
                    outcome(obj.get, k)
                    outcome(obj.get, k, 5)
                    outcome(obj.__getitem__, k)
                    outcome(obj.__setitem__, k, gv)
                    outcome(obj.setdefault, k, gv)
                    outcome(obj.pop, k)
                    outcome(obj.pop, k, 5)
                    outcome(obj.update, [(k, gv)])
                    outcome(obj.__delitem__, k)
                else:
                    outcome(obj.add, k)
                    outcome(obj.remove, k)
                    outcome(obj.discard, k)
                    outcome(obj.update, [k])
            counts['steps'] += 1
            if sys.getrefcount(k) != before:
                fail('%s%s leaks/steals references to refused key %r: %d -> %d'
                     % (fam, kind, k, before, sys.getrefcount(k)))
        if mapping:
            for v in badvals:
                before = sys.getrefcount(v)
                for _ in range(20):
                    outcome(obj.__setitem__, 3, v)
                    outcome(obj.__setitem__, 1000, v)
                    outcome(obj.setdefault, 1001, v)
                    outcome(obj.update, [(3, v)])
                counts['steps'] += 1
                if sys.getrefcount(v) != before:
                    fail('%s%s leaks/steals references to refused value %r'
                         % (fam, kind, v))


def main():
    rnd = random.Random(SEED)
    for fam in FAMILIES:
        mod = importlib.import_module('BTrees.%sBTree' % fam)
        for kind in ('BTree', 'Bucket', 'Set', 'TreeSet'):
            cls = getattr(mod, fam + kind)
            if cls is getattr(mod, fam + kind + 'Py'):
                print('C extension for %s not in use' % fam)
                sys.exit(2)
            sub = Subject(fam, kind, cls, rnd)
            for _ in range(700):
                sub.step()
            sub.finish()
        setstate_cases(fam, mod)
        setop_cases(fam, mod)
        byvalue_cases(fam, mod)
        refcount_cases(fam, mod)
    if failures:
        report()
    print('ok: %(steps)d comparisons, %(refused)d refused writes, '
          '%(absent)d absent/unusable lookups' % counts)


if __name__ == '__main__':
    main()
