"""Differential demo for refactoring v (pure-Python set operations).

Run as:  PYTHONPATH=<tree>/src /venv/bin/python demo.py

Exercises, in ``BTrees._base``: ``_SetIteration`` (operand adaptation: sorted
copy without duplicates of arbitrary iterables, ``iteritems`` / dict / plain
iteration), the module functions ``difference`` / ``union`` /
``intersection`` (and, because they share ``_SetIteration``, the weighted
operations and bucket conflict resolution), the ``-``, ``|``, ``&``, ``^``
operators and the in-place ``-=``, ``^=``, ``&=``, ``|=`` of the ``*Py``
classes -- against a plain set/dict model and against the C implementation.

Also covered: operands are left alone; ``None`` operands; the first of
equal-but-distinct elements is kept; error paths (not iterable, unsortable,
comparison failing while de-duplicating or while merging, iterable failing
half way, key of the wrong type) including the exception context; ghosts
(activation on demand, no activation when there is nothing to do, failed
activation); ``_p_changed`` / registration with a stand-in jar.

Exits 0 when everything behaves as specified.
"""
import importlib
import operator
import random
import sys

import persistent  # noqa: F401

SEED = 20260930
FAMILIES = ['OO', 'II', 'LL', 'IO', 'OI', 'LO', 'LF', 'UU', 'QQ', 'IF',
            'OL', 'QO', 'UO', 'IU', 'fs']

checks = 0


def ok(cond, *msg):
    global checks
    checks += 1
    if not cond:
        raise AssertionError(' '.join(str(m) for m in msg))


def mod(fam):
    return importlib.import_module('BTrees.%sBTree' % fam)


def keygen(fam, rnd):
    k = fam[0]
    if fam == 'fs':
        alphabet = b'abcdefgh'
        return lambda: bytes([rnd.choice(alphabet), rnd.choice(alphabet)])
    if k in 'OIL':
        return lambda: rnd.randrange(-40, 40)
    return lambda: rnd.randrange(0, 80)


def valfor(fam, key, salt=0):
    v = fam[1]
    if fam == 'fs':
        return (b'v' + key + bytes([65 + salt]) + b'...')[:6]
    if v == 'O':
        return ('v', key, salt)
    if v == 'F':
        return float(abs(key)) / 2 + salt
    if v in 'UQ':
        return abs(key) + salt
    return key * 2 + salt


class Jar:
    def __init__(self):
        self.registered = []
        self.states = {}
        self.failing = set()
        self.loads = []
        self.n = 0

    def add(self, obj):
        self.n += 1
        obj._p_jar = self
        obj._p_oid = self.n.to_bytes(8, 'big')
        return obj

    def register(self, obj):
        self.registered.append(obj)

    def setstate(self, obj):
        self.loads.append(obj._p_oid)
        if obj._p_oid in self.failing:
            raise RuntimeError('cannot load', obj._p_oid)
        obj.__setstate__(self.states[obj._p_oid])


def small(base):
    class Small(base):
        max_leaf_size = 3
        max_internal_size = 2
    Small.__name__ = 'Small' + base.__name__
    return Small


class Kinds:
    def __init__(self, fam):
        m = self.m = mod(fam)
        self.fam = fam
        g = lambda n: getattr(m, fam + n)  # noqa: E731
        self.SetPy = g('SetPy')
        self.BucketPy = g('BucketPy')
        self.TreeSetPy = small(g('TreeSetPy'))
        self.BTreePy = small(g('BTreePy'))
        self.BigTreeSetPy = g('TreeSetPy')
        self.BigBTreePy = g('BTreePy')
        self.Set = g('Set')
        self.Bucket = g('Bucket')
        self.TreeSet = small(g('TreeSet'))
        self.BTree = small(g('BTree'))
        ok(self.SetPy is not self.Set, 'C extensions are in use')

    def pairs(self, keys, salt=0):
        return {k: valfor(self.fam, k, salt) for k in keys}

    def make(self, kind, keys, rnd, salt=0):
        keys = list(keys)
        if kind in ('SetPy', 'TreeSetPy', 'BigTreeSetPy', 'Set', 'TreeSet'):
            return getattr(self, kind)(keys)
        if kind in ('BucketPy', 'BTreePy', 'BigBTreePy', 'Bucket', 'BTree'):
            return getattr(self, kind)(self.pairs(keys, salt))
        if kind == 'BTreePy-grown':
            t = self.BTreePy()
            junk = list(keys) * 2
            rnd.shuffle(junk)
            for k in junk:
                t[k] = valfor(self.fam, k, salt)
            return t
        if kind == 'list':
            dup = keys + keys[::2] + keys[:1] * 3
            rnd.shuffle(dup)
            return dup
        if kind == 'tuple-desc':
            return tuple(sorted(keys, reverse=True))
        if kind == 'gen':
            dup = keys + keys[1::2]
            rnd.shuffle(dup)
            return (k for k in dup)
        if kind == 'frozenset':
            return frozenset(keys)
        if kind == 'dict':
            return self.pairs(keys, salt)
        if kind == 'treekeys':
            return self.BTreePy(self.pairs(keys, salt)).keys()
        raise AssertionError(kind)


PYSETS = ('SetPy', 'TreeSetPy', 'BigTreeSetPy')
PYMAPS = ('BucketPy', 'BTreePy', 'BigBTreePy', 'BTreePy-grown')
CSETS = ('Set', 'TreeSet')
CMAPS = ('Bucket', 'BTree')
MAPPINGS = PYMAPS + CMAPS
OURS = PYSETS + PYMAPS
ITERABLES = ('list', 'tuple-desc', 'gen', 'frozenset', 'dict', 'treekeys')


CTWIN = {'SetPy': 'Set', 'TreeSetPy': 'TreeSet', 'BigTreeSetPy': 'TreeSet',
         'BucketPy': 'Bucket', 'BTreePy': 'BTree', 'BigBTreePy': 'BTree',
         'BTreePy-grown': 'BTree'}


def snapshot(kind, obj):
    if kind == 'gen':
        return None
    if kind in MAPPINGS or kind == 'dict':
        return list(obj.items())
    if kind == 'frozenset':
        return sorted(obj)
    return list(obj)


def check_set(r, expected, T, what):
    ok(type(r) is T, what, 'result type', type(r))
    ok(list(r) == sorted(expected), what, 'keys', list(r), sorted(expected))
    ok(r._next is None and type(r._keys) is type(T()._keys), what)


def check_bucket(r, expected, T, what):
    ok(type(r) is T, what, 'result type', type(r))
    ok(list(r.items()) == sorted(expected.items()), what, 'items',
       list(r.items()), sorted(expected.items()))
    ok(len(r._keys) == len(r._values), what)


def keysets(gen, rnd):
    na = rnd.choice([0, 1, 2, 4, 7, 10, 19, 33])
    nb = rnd.choice([0, 1, 3, 6, 11, 25])
    a = {gen() for _ in range(na)}
    shape = rnd.randrange(6)
    if shape == 0:
        b = set(a)
    elif shape == 1:
        b = set(sorted(a)[::2])
    elif shape == 2:
        b = {gen() for _ in range(nb)} - a
    elif shape == 3 and a:
        hi = max(a)
        b = {k for k in (gen() for _ in range(nb * 3)) if k > hi}
    else:
        b = {gen() for _ in range(nb)}
    return a, b


def differential(fam, rnd, rounds):
    K = Kinds(fam)
    m = K.m
    gen = keygen(fam, rnd)
    unionPy, intersectionPy, differencePy = \
        m.unionPy, m.intersectionPy, m.differencePy
    weighted = hasattr(m, 'weightedUnionPy')
    for _ in range(rounds):
        a, b = keysets(gen, rnd)
        everything = OURS + CSETS + CMAPS + ITERABLES
        for k1 in everything:
            for k2 in everything:
                what = '%s %s,%s a=%r b=%r' % (fam, k1, k2,
                                               sorted(a), sorted(b))
                for f, cf, model in ((unionPy, m.union, a | b),
                                     (intersectionPy, m.intersection, a & b)):
                    o1 = K.make(k1, a, rnd)
                    o2 = K.make(k2, b, rnd, 1)
                    s1, s2 = snapshot(k1, o1), snapshot(k2, o2)
                    r = f(o1, o2)
                    check_set(r, model, K.SetPy, f.__name__ + ' ' + what)
                    ok(snapshot(k1, o1) == s1 and snapshot(k2, o2) == s2,
                       f.__name__, what, 'operand modified')
                    # the C function, on the C twins of the operands
                    # (it must not be handed the *Py objects themselves)
                    c = cf(K.make(CTWIN.get(k1, k1), a, rnd),
                           K.make(CTWIN.get(k2, k2), b, rnd, 1))
                    ok(list(c) == list(r), 'C agrees', what)
                # difference: the first operand decides about the result
                o1 = K.make(k1, a, rnd)
                o2 = K.make(k2, b, rnd, 1)
                s1, s2 = snapshot(k1, o1), snapshot(k2, o2)
                if k1 in PYMAPS:
                    r = differencePy(o1, o2)
                    check_bucket(r, K.pairs(a - b), K.BucketPy, 'diff' + what)
                elif k1 in PYSETS:
                    r = differencePy(o1, o2)
                    check_set(r, a - b, K.SetPy, 'diff ' + what)
                else:
                    try:
                        r = differencePy(o1, o2)
                    except (AttributeError, TypeError):
                        r = None
                    else:
                        # (a first operand that is not one of ours, yet
                        # knows its _set_type: keys() of a tree, say)
                        ok(k1 not in ('list', 'tuple-desc', 'gen', 'dict',
                                      'frozenset'), 'must fail', what)
                        ok(list(r) == sorted(a - b), 'diff', what, list(r))
                ok(snapshot(k1, o1) == s1, 'diff', what, 'o1 modified')
                if r is not None:
                    ok(snapshot(k2, o2) == s2, 'diff', what, 'o2 modified')

                if k1 not in OURS:
                    continue
                # binary operators
                o1 = K.make(k1, a, rnd)
                for sym, f, model in (('|', operator.or_, a | b),
                                      ('&', operator.and_, a & b),
                                      ('-', operator.sub, a - b),
                                      ('^', operator.xor, a ^ b)):
                    if sym == '^' and k2 == 'gen':
                        continue    # o1 ^ o2 reads o2 twice
                    if sym == '^' and k2 in CSETS + CMAPS:
                        # o1 ^ o2 computes o2 - o1 with the C code, which
                        # must not be handed a *Py object
                        continue
                    o2 = K.make(k2, b, rnd, 1)
                    s1, s2 = snapshot(k1, o1), snapshot(k2, o2)
                    try:
                        r = f(o1, o2)
                    except (TypeError, AttributeError):
                        ok(sym == '^' and k2 in ITERABLES,
                           'unexpected failure of', sym, what)
                        continue
                    if sym == '-' and k1 in PYMAPS:
                        check_bucket(r, K.pairs(a - b), type(r), sym + what)
                        ok(isinstance(r, K.BucketPy) or
                           isinstance(r, type(o1)), sym, what, type(r))
                    else:
                        ok(list(r) == sorted(model), sym, what, list(r))
                    ok(snapshot(k1, o1) == s1, sym, what, 'o1 modified')
                    ok(snapshot(k2, o2) == s2, sym, what, 'o2 modified')
                # in-place operators of the sets
                if k1 not in PYSETS:
                    continue
                for name, f, model in (('-=', operator.isub, a - b),
                                       ('^=', operator.ixor, a ^ b),
                                       ('&=', operator.iand, a & b),
                                       ('|=', operator.ior, a | b)):
                    o1 = K.make(k1, a, rnd)
                    o2 = K.make(k2, b, rnd, 1)
                    s2 = snapshot(k2, o2)
                    r = f(o1, o2)
                    ok(r is o1, name, what, 'not in place')
                    ok(list(o1) == sorted(model), name, what, list(o1))
                    ok(snapshot(k2, o2) == s2, name, what, 'o2 modified')
                    if hasattr(o1, '_check'):
                        o1._check()
                    # and the C twin agrees
                    c1 = K.make(CTWIN[k1], a, rnd)
                    f(c1, K.make(CTWIN.get(k2, k2), b, rnd, 1))
                    ok(list(c1) == list(o1), name, what, 'C disagrees')
            if k1 in PYSETS:
                for name, f, model in (('-=', operator.isub, set()),
                                       ('^=', operator.ixor, set()),
                                       ('&=', operator.iand, a),
                                       ('|=', operator.ior, a)):
                    o1 = K.make(k1, a, rnd)
                    r = f(o1, o1)
                    ok(r is o1 and list(o1) == sorted(model), name, 'self',
                       fam, k1, list(o1))

        # None operands
        for k1 in OURS + ('list',):
            o = K.make(k1, a, rnd)
            ok(unionPy(None, o) is o and unionPy(o, None) is o)
            ok(intersectionPy(None, o) is o and intersectionPy(o, None) is o)
            ok(differencePy(None, o) is None and differencePy(o, None) is o)
        ok(unionPy(None, None) is None and differencePy(None, None) is None)

        if weighted:
            for k1 in ('BTreePy', 'BTreePy-grown', 'TreeSetPy', 'BucketPy',
                       'SetPy'):
                for k2 in ('BTreePy', 'TreeSetPy', 'BigBTreePy', 'SetPy',
                           'dict', 'list'):
                    w1, w2 = rnd.choice([(1, 1), (2, 3), (0, 5), (7, 1)])
                    o1 = K.make(k1, a, rnd)
                    o2 = K.make(k2, b, rnd, 1)
                    # the weighted operations do not sort their operands
                    if k2 == 'list':
                        o2 = sorted(set(o2))
                    elif k2 == 'dict':
                        o2 = dict(sorted(o2.items()))
                    s1, s2 = snapshot(k1, o1), snapshot(k2, o2)
                    m1 = k1 in MAPPINGS
                    m2 = k2 in MAPPINGS or k2 == 'dict'
                    v1 = K.pairs(a) if m1 else dict.fromkeys(a, 1)
                    v2 = K.pairs(b, 1) if m2 else dict.fromkeys(b, 1)
                    what = '%s weighted %s,%s %r %r a=%r b=%r' % (
                        fam, k1, k2, w1, w2, sorted(a), sorted(b))
                    w, r = m.weightedUnionPy(o1, o2, w1, w2)
                    ok(w == 1, what)
                    if m1 or m2:
                        exp = {}
                        for k in a | b:
                            if k in a and k in b:
                                exp[k] = v1[k] * w1 + v2[k] * w2
                            elif k in a:
                                exp[k] = v1[k] * w1
                            else:
                                exp[k] = v2[k] * w2
                        check_bucket(r, exp, K.BucketPy, 'wU ' + what)
                    else:
                        check_set(r, a | b, K.SetPy, 'wU ' + what)
                    w, r = m.weightedIntersectionPy(o1, o2, w1, w2)
                    if m1 or m2:
                        exp = {k: v1[k] * w1 + v2[k] * w2 for k in a & b}
                        ok(w == 1, what)
                        check_bucket(r, exp, K.BucketPy, 'wI ' + what)
                    else:
                        ok(w == w1 + w2, what)
                        check_set(r, a & b, K.SetPy, 'wI ' + what)
                    ok(snapshot(k1, o1) == s1 and snapshot(k2, o2) == s2,
                       what, 'operand modified')


class Boom(Exception):
    pass


def raises(exc, f, *a):
    try:
        f(*a)
    except exc as e:
        return e
    ok(False, 'expected', exc, f, a)


def equal_but_distinct():
    from BTrees.OOBTree import OOSetPy, OOTreeSetPy, unionPy, \
        intersectionPy, differencePy, union, OOSet
    r = unionPy([True, 3, 1, 1.0, 2.0, 2, 3.0], OOSetPy())
    ok([type(x) for x in r] == [bool, float, int] and list(r) == [1, 2, 3],
       'first of equals', list(r))
    c = union([True, 3, 1, 1.0, 2.0, 2, 3.0], OOSet())
    ok([type(x) for x in c] == [type(x) for x in r], 'as in C')
    r = unionPy(OOSetPy(), (2.0, 1.0, 1, 2, 1.0))
    ok([type(x) for x in r] == [float, float], list(r))
    r = unionPy(OOTreeSetPy([1, 2]), [1.0, 2.0, 3.0])
    ok([type(x) for x in r] == [int, int, float], list(r))
    r = intersectionPy([1.0, 2.0, 3.0], OOTreeSetPy([1, 2]))
    ok([type(x) for x in r] == [float, float], list(r))
    r = differencePy(OOTreeSetPy([1, 2, 3]), [True, 3.0, 3.0, True])
    ok(list(r) == [2])
    for seq, exp in [
            ([5] * 7, [5]),
            ([1, 1, 1, 2, 3, 3, 3], [1, 2, 3]),
            ([1, 2, 2, 2, 2, 3], [1, 2, 3]),
            ([1, 2, 3], [1, 2, 3]),
            ([3, 3, 2, 2, 1, 1], [1, 2, 3]),
            ([], []),
            ([9], [9]),
            ([4, 4], [4]),
            ([None, 3, None, 1], [None, 1, 3]),
    ]:
        src = list(seq)
        if None in seq:
            # None sorts first for the trees, but sorted() cannot do that
            raises(TypeError, unionPy, src, OOSetPy())
            continue
        ok(list(unionPy(src, OOSetPy())) == exp, seq)
        ok(list(unionPy(OOTreeSetPy(), src)) == exp, seq)
        ok(list(intersectionPy(src, src)) == exp, seq)
        ok(src == seq, 'source list modified', src, seq)
    nan = float('nan')
    ok(len(unionPy([nan, nan], OOSetPy())) == 1, 'the same nan twice')


def error_paths():
    from BTrees import IIBTree as II
    from BTrees import OOBTree as OO
    T = small(II.IITreeSetPy)
    B = small(II.IIBTreePy)
    OT = small(OO.OOTreeSetPy)
    OB = small(OO.OOBTreePy)
    ts = T(range(0, 30, 3))
    bt = B({k: k for k in range(0, 30, 2)})
    fns = (II.unionPy, II.intersectionPy, II.differencePy)
    for f in fns:
        e = raises(TypeError, f, ts, object())
        ok('not iterable' in str(e), e)
        raises(TypeError, f, bt, 1.5)
        raises(TypeError, f, ts, [1, 'x', 2])       # unsortable
    # not one of ours as the first operand of difference: no iteritems,
    # no __iter__ either -- the second failure happens while handling
    # the first one
    e = raises(AttributeError, II.differencePy, 5, ts)
    ok('__iter__' in str(e), e)
    ok(isinstance(e.__context__, AttributeError) and
       'iteritems' in str(e.__context__), 'exception context', e.__context__)
    e = raises(AttributeError, II.differencePy, [1, 2], ts)
    ok('_set_type' in str(e) and e.__context__ is None, e, e.__context__)
    e = raises(AttributeError, II.differencePy, {1: 2}, ts)
    ok('_mapping_type' in str(e) and e.__context__ is None, e)
    e = raises(TypeError, II.unionPy, 5, ts)
    ok(e.__context__ is None)
    ok(list(ts) == list(range(0, 30, 3)) and
       list(bt.items()) == [(k, k) for k in range(0, 30, 2)], 'intact')

    def failing():
        yield 3
        yield 1
        raise Boom('copy')

    for f in (OO.unionPy, OO.intersectionPy, OO.differencePy):
        e = raises(Boom, f, OT([1, 2, 3]), failing())
        ok(e.args == ('copy',))

    class Touchy:
        sour_gt = False

        def __init__(self, n):
            self.n = n

        def __lt__(self, other):
            return self.n < other.n

        def __gt__(self, other):
            if Touchy.sour_gt:
                raise Boom('gt')
            return self.n > other.n

        def __eq__(self, other):
            return self.n == other.n
        __hash__ = None

    # sorted() uses <, squeezing out the duplicates uses >
    items = [Touchy(n) for n in (1, 1, 2, 3, 3, 3)]
    Touchy.sour_gt = True
    e = raises(Boom, OO.unionPy, list(items), OT())
    ok(e.args == ('gt',))
    ok(len(OO.unionPy([Touchy(1)], OO.OOSetPy())) == 1, 'one: no compare')
    ok(len(OO.unionPy([], OT())) == 0)
    Touchy.sour_gt = False
    ok([x.n for x in OO.unionPy(list(items), OT())] == [1, 2, 3])
    ok(OO.unionPy(list(items), OT())._keys[0] is items[0], 'first kept')

    class Key:
        sour = None
        log = None

        def __init__(self, n):
            self.n = n

        def __lt__(self, other):
            return self.n < other.n

        def __gt__(self, other):
            if Key.log is not None:
                Key.log.append((self.n, other.n))
            if Key.sour in (self.n, other.n):
                raise Boom('gt')
            return self.n > other.n

        def __eq__(self, other):
            return self.n == other.n

        def __hash__(self):
            return hash(self.n)

    keys = [Key(n) for n in range(12)]
    vals = [['v', n] for n in range(12)]
    t1 = OB(dict(zip(keys[::2] + keys[9:], vals)))
    t2 = OT(keys[1::2] + keys[:2])
    l2 = keys[3:8]
    model1 = {k.n for k in t1}
    for other, model2 in ((t2, {k.n for k in t2}), (l2, {k.n for k in l2})):
        for f, model in ((OO.unionPy, model1 | model2),
                         (OO.intersectionPy, model1 & model2),
                         (OO.differencePy, model1 - model2)):
            Key.sour = None
            Key.log = []
            good = f(t1, other)
            ok([k.n for k in good] == sorted(model), f.__name__)
            trace = Key.log
            Key.log = None
            ok(trace, 'the merge compares keys')
            for n in range(12):
                Key.sour = n
                Key.log = []
                touched = any(n in pair for pair in trace)
                try:
                    r = f(t1, other)
                except Boom:
                    ok(touched, 'Boom although never compared', n)
                    # the same comparisons, up to the one that failed
                    ok(Key.log == trace[:len(Key.log)], 'same comparisons')
                    ok(n in Key.log[-1], 'failed at the sour key')
                else:
                    ok(not touched, 'comparison failure swallowed', n)
                    ok([k.n for k in r] == sorted(model))
                Key.sour = None
                Key.log = None
    ok(sorted(k.n for k in t1) == sorted(model1), 'intact')
    r = OO.differencePy(t1, t2)
    ok(type(r) is OO.OOBucketPy)
    for k, v in r.items():
        ok(any(k is x for x in keys) and any(v is x for x in vals),
           'keys and values by identity')

    # in-place: the iterable fails half way
    for T_ in (II.IISetPy, T):
        base = list(range(0, 20, 2))

        def failing2():
            yield 0
            yield 1
            yield 4
            raise Boom('half way')

        s = T_(base)
        raises(Boom, operator.ixor, s, failing2())
        ok(list(s) == base, '^= applies nothing when the iterable fails')
        s = T_(base)
        raises(Boom, operator.isub, s, failing2())
        ok(list(s) == [k for k in base if k not in (0, 4)], '-= partial')
        s = T_(base)
        raises(Boom, operator.iand, s, failing2())
        ok(list(s) == base, '&= computes the difference first')
        s = T_(base)
        raises(Boom, operator.ior, s, failing2())
        ok(list(s) == sorted(set(base) | {1}), '|= partial')
        # key of the wrong type: discarding it is a no-op, adding it fails
        s = T_(base)
        s -= [0, 'x', 2]
        ok(list(s) == base[2:], "-= ['x']")
        s = T_(base)
        raises(TypeError, operator.ixor, s, [0, 1, 'x', 3, 2])
        ok(list(s) == sorted((set(base) - {0, 2}) | {1}), "^= ['x']", list(s))
        # not iterable
        for f in (operator.isub, operator.ixor, operator.iand, operator.ior):
            s = T_(base)
            raises(TypeError, f, s, 5)
            ok(list(s) == base)
        # duplicates are not toggled twice
        s = T_(base)
        s ^= [0, 0, 1, 1, 1, 2]
        ok(list(s) == sorted((set(base) - {0, 2}) | {1}), '^= duplicates')


def conflict_resolution():
    # _SetIteration(useValues=True) also drives bucket conflict resolution
    from BTrees.OOBTree import OOBucketPy, OOSetPy, OOBucket, OOSet
    for B, CB in ((OOBucketPy, OOBucket),):
        old = B({1: 'a', 2: 'b', 3: 'c', 4: 'd'})
        com = B({1: 'a', 2: 'B', 3: 'c', 5: 'e'})
        new = B({1: 'a', 2: 'b', 4: 'd', 6: 'f', 0: 'z'})
        args = [x.__getstate__() for x in (old, com, new)]
        state = B()._p_resolveConflict(*args)
        ok(state == ((0, 'z', 1, 'a', 2, 'B', 5, 'e', 6, 'f'),), state)
        ok(CB()._p_resolveConflict(*args) == state, 'as in C')
    for S, CS in ((OOSetPy, OOSet),):
        old = S([1, 2, 3, 4])
        com = S([1, 2, 3, 5])
        new = S([0, 1, 2, 4, 6])
        args = [x.__getstate__() for x in (old, com, new)]
        state = S()._p_resolveConflict(*args)
        ok(state == ((0, 1, 2, 5, 6),), state)
        ok(CS()._p_resolveConflict(*args) == state, 'as in C')


def persistence(fam):
    K = Kinds(fam)
    m = K.m
    rnd = random.Random(SEED + 5)
    gen = keygen(fam, rnd)
    a = set()
    while len(a) < 12:
        a.add(gen())
    base = sorted(a)
    extra = sorted({gen() for _ in range(20)} - a)[:3]

    def fresh():
        jar = Jar()
        s = K.SetPy(base)
        jar.add(s)
        jar.states[s._p_oid] = s.__getstate__()
        s._p_changed = False
        jar.registered[:] = []
        return s, jar

    cases = [
        (operator.isub, [base[0], extra[0]], set(base) - {base[0]}, True),
        (operator.isub, [extra[0]], set(base), False),
        (operator.isub, [], set(base), False),
        (operator.ixor, [base[0], extra[0]],
         set(base) ^ {base[0], extra[0]}, True),
        (operator.ixor, [], set(base), False),
        (operator.iand, list(base), set(base), False),
        (operator.iand, base[:3], set(base[:3]), True),
        (operator.ior, [base[0]], set(base), False),
        (operator.ior, [extra[1]], set(base) | {extra[1]}, True),
        (operator.isub, None, set(), True),
        (operator.ixor, None, set(), True),
    ]
    for f, other, exp, changes in cases:
        s, jar = fresh()
        r = f(s, s if other is None else other)
        ok(r is s and list(s) == sorted(exp), fam, f.__name__, other)
        ok(bool(s._p_changed) == changes, fam, f.__name__, other,
           '_p_changed', s._p_changed)
        ok(jar.registered == ([s] if changes else []), fam, f.__name__,
           other, 'registered', jar.registered)
        ok(jar.loads == [], 'no load of a live object')

        # the same on a ghost
        s, jar = fresh()
        s._p_deactivate()
        ok(s._p_changed is None, 'ghost')
        r = f(s, s if other is None else other)
        ok(r is s)
        if other == [] and f is not operator.iand:
            # nothing to do: the ghost is not even woken up
            ok(jar.loads == [] and s._p_changed is None, fam, f.__name__,
               'ghost woken up for nothing', jar.loads)
        else:
            ok(jar.loads == [s._p_oid], fam, f.__name__, other, 'one load',
               jar.loads)
        ok(list(s) == sorted(exp), fam, f.__name__, other, 'ghost result')

        # and on a ghost that cannot be loaded
        s, jar = fresh()
        s._p_deactivate()
        jar.failing.add(s._p_oid)
        try:
            f(s, s if other is None else other)
        except RuntimeError as e:
            ok(e.args == ('cannot load', s._p_oid))
            ok(not (other == [] and f is not operator.iand))
        else:
            ok(other == [] and f is not operator.iand, fam, f.__name__,
               other, 'failed activation swallowed')
        ok(jar.registered == [] and s._p_changed is None)
        jar.failing.clear()
        ok(list(s) == base, 'intact')

    # operands that are ghosts: loaded, never changed
    for kind in ('TreeSetPy', 'BTreePy', 'SetPy', 'BucketPy'):
        jar = Jar()
        t = K.make(kind, a, rnd)
        jar.add(t)
        nodes = [t]
        if hasattr(t, '_firstbucket'):
            bk = t._firstbucket
            while bk is not None:
                nodes.append(jar.add(bk))
                bk = bk._next
        for n in nodes:
            jar.states[n._p_oid] = n.__getstate__()
        for n in nodes:
            n._p_changed = False
        jar.registered[:] = []
        for n in reversed(nodes):
            n._p_deactivate()
            ok(n._p_changed is None)
        other = [base[1], extra[0], base[1]]
        r = m.unionPy(t, other)
        ok(list(r) == sorted(a | {extra[0]}), 'ghost union', kind)
        ok(sorted(set(jar.loads)) == sorted(n._p_oid for n in nodes),
           'every node loaded', kind)
        r = m.differencePy(t, other)
        ok(list(r) == sorted(a - {base[1]}), 'ghost difference', kind)
        r = m.intersectionPy(other, t)
        ok(list(r) == [base[1]], 'ghost intersection', kind)
        ok(jar.registered == [] and
           all(n._p_changed is False for n in nodes), 'read only', kind)
        # a node that cannot be loaded
        bad = nodes[-1]
        bad._p_deactivate()
        jar.failing.add(bad._p_oid)
        e = raises(RuntimeError, m.unionPy, t, other)
        ok(e.args == ('cannot load', bad._p_oid))
        e = raises(RuntimeError, m.unionPy, other, t)
        ok(e.args == ('cannot load', bad._p_oid))
        e = raises(RuntimeError, m.differencePy, t, other)
        ok(e.args == ('cannot load', bad._p_oid))
        jar.failing.clear()
        ok(list(t) == base, 'intact', kind)


def main():
    rnd = random.Random(SEED)
    for fam in FAMILIES:
        differential(fam, rnd, rounds=5 if fam in ('OO', 'II', 'LO') else 2)
    equal_but_distinct()
    error_paths()
    conflict_resolution()
    for fam in ('OO', 'II', 'LF', 'fs', 'QO'):
        persistence(fam)
    ok(sys.exc_info()[0] is None)
    print('demo v: %d checks passed' % checks)


if __name__ == '__main__':
    main()
