"""Equivalence demonstration for refactoring C13r (see notes.md)."""
# ---------------------------------------------------------------------------
# Common part of the C13 equivalence demonstrations.
#
# Property C13: a key or value is stored only if it is representable in the
# family's declared type; representable data reads back equal to what was
# written (floats as their single-precision rounding in the C implementation);
# anything else is rejected with TypeError before the container is modified;
# looking up an unrepresentable key reports absence.
#
# Expectations are computed by a small reference model (pure integer range
# arithmetic, an exact int -> binary32 rounding routine, struct round trips)
# and by recorded message constants; they do not call into BTrees.
# ---------------------------------------------------------------------------
import importlib
import math
import struct
import sys

assert struct.calcsize('l') == 8, "model assumes a 64-bit C long"

FAILURES = []
LIMIT = 40
COUNTS = {'checks': 0}


def check(cond, *what):
    COUNTS['checks'] += 1
    if not cond:
        FAILURES.append(what)
        if len(FAILURES) <= LIMIT:
            print("MISMATCH:", *what)


INT_RANGE = {
    'I': (-2 ** 31, 2 ** 31 - 1),
    'U': (0, 2 ** 32 - 1),
    'L': (-2 ** 63, 2 ** 63 - 1),
    'Q': (0, 2 ** 64 - 1),
}
LONG_MIN, LONG_MAX = -2 ** 63, 2 ** 63 - 1

PY_DESCRIPTION = {
    'I': "32-bit integer expected",
    'U': "non-negative 32-bit integer expected",
    'L': "64-bit integer expected",
    'Q': "non-negative 64-bit integer expected",
    'F': "float expected",
}


class Idx:
    """Has __index__ but is not an int."""
    def __index__(self):
        return 7


class MyInt(int):
    pass


class DefaultCmp:
    """Inherits object's comparison: not orderable."""


class Ordered:
    def __init__(self, n):
        self.n = n

    def __lt__(self, other):
        return self.n < other.n

    def __eq__(self, other):
        return self.n == other.n

    def __hash__(self):
        return hash(self.n)


def int_to_f32(n):
    """Exact round-to-nearest-even of an int (|n| < 2**64) to binary32."""
    if n == 0:
        return 0.0
    sign = -1.0 if n < 0 else 1.0
    a = abs(n)
    bits = a.bit_length()
    if bits > 24:
        shift = bits - 24
        q, r = a >> shift, a & ((1 << shift) - 1)
        half = 1 << (shift - 1)
        if r > half or (r == half and (q & 1)):
            q += 1
        a = q << shift
    return sign * float(a)


def double_to_f32(x):
    try:
        return struct.unpack('f', struct.pack('f', x))[0]
    except OverflowError:
        return math.copysign(math.inf, x)


OK, ERR = 'ok', 'err'


def model(code, impl, x, role):
    """What storing *x* as *role* ('key'/'value') of type *code* must do.

    Returns (OK, stored_object_or_equal_value, exact_type_or_None)
         or (ERR, expected_exception_args)
    """
    if code in INT_RANGE:
        lo, hi = INT_RANGE[code]
        if impl == 'C':
            if not isinstance(x, int):
                return ERR, ("expected integer key",)
            if lo <= x <= hi:
                return OK, int(x), int
            if code == 'I':
                return ERR, ("integer out of range",)
            if code == 'U':
                if LONG_MIN <= x < 0:
                    return ERR, (
                        "can't convert negative value to unsigned int",)
                return ERR, ("integer out of range",)
            if code == 'L':
                return ERR, ("couldn't convert integer to C long long",)
            return ERR, ("overflow error converting int to C long long",)
        else:
            if isinstance(x, int):
                if lo <= x <= hi:
                    return OK, int(x), int
                return ERR, ("Value out of range", x)
            if isinstance(x, Idx):
                return OK, 7, int
            return ERR, (PY_DESCRIPTION[code],)
    if code == 'F':
        assert role == 'value'
        if impl == 'C':
            if isinstance(x, float):
                return OK, double_to_f32(x), float
            if isinstance(x, int):
                if LONG_MIN <= x <= LONG_MAX:
                    return OK, int_to_f32(x), float
                return ERR, ("integer out of range",)
            return ERR, ("expected float or int value",)
        else:
            if isinstance(x, (int, float)):
                return OK, float(x), float
            if isinstance(x, Idx):
                return OK, 7.0, float
            return ERR, (PY_DESCRIPTION['F'],)
    if code == 'O':
        if role == 'key' and type(x).__lt__ is object.__lt__ \
                and x is not None:
            return ERR, ("Object of class %s has default comparison"
                         % type(x).__name__,)
        return OK, x, None
    if code == 'f':      # fsBTree: 2-byte keys, 6-byte values
        n = 2 if role == 'key' else 6
        if isinstance(x, bytes) and len(x) == n:
            return OK, x, bytes
        if impl == 'C':
            return ERR, ("expected %s-character string key"
                         % ('two' if n == 2 else 'six'),)
        return ERR, ("%d-byte array expected, not %r" % (n, x),)
    raise AssertionError(code)


def same(got, exp, exact_type):
    if exact_type is None:
        return got is exp
    if type(got) is not exact_type:
        return False
    if isinstance(exp, float) and math.isnan(exp):
        return math.isnan(got)
    return got == exp


INT_POOL = [0, 1, -1, True, False, 5, MyInt(5), MyInt(2 ** 40),
            2 ** 24 + 1, 2 ** 25 + 3, 2 ** 53 + 1, 10 ** 30, -10 ** 30]
for _b in (31, 32, 63, 64):
    for _d in (-1, 0, 1):
        INT_POOL.append(2 ** _b + _d)
        INT_POOL.append(-(2 ** _b) + _d)
FLOAT_POOL = [0.0, 1.5, 0.1, -2.75, 1e-45, 1e-50, 3.4028234663852886e38,
              3.4028235677973366e38, 1e39, -1e39,
              math.inf, -math.inf, math.nan, 16777217.0]
OTHER_POOL = ["a", "ab", b"", b"a", b"ab", b"abc", b"abcde", b"abcdef",
              b"abcdefg", None, DefaultCmp(), Ordered(3), (1, 2), Idx(),
              bytearray(b"ab"), bytearray(b"abcdef")]
POOL = INT_POOL + FLOAT_POOL + OTHER_POOL

GOOD = {   # a representable datum per type code, distinct from the pool's
    'I': 12345, 'U': 12345, 'L': 12345, 'Q': 12345, 'F': 0.5,
    'O': 12345, 'f': None,
}
GOOD_KEY_f, GOOD_VALUE_f = b'zz', b'zzzzzz'


def good(code, role):
    if code == 'f':
        return GOOD_KEY_f if role == 'key' else GOOD_VALUE_f
    return GOOD[code]


class Jar:
    def __init__(self):
        self.registered = []

    def register(self, obj):
        self.registered.append(obj)

    def setstate(self, obj):
        pass

    def readCurrent(self, obj):
        pass


def families():
    """Yield (kcode, vcode, module)."""
    for k in "IULQO":
        for v in "IULQOF":
            try:
                m = importlib.import_module("BTrees.%s%sBTree" % (k, v))
            except ImportError:
                continue
            yield k, v, m
    yield 'f', 'f', importlib.import_module("BTrees.fsBTree")


def cls_of(module, kind, impl):
    prefix = module.__name__.split('.')[-1][:2]
    return getattr(module, prefix + kind + ('Py' if impl == 'Py' else ''))


def attach(c):
    jar = Jar()
    c._p_jar = jar
    c._p_oid = b'\0' * 8
    return jar


def snapshot(c, is_set):
    return list(c.keys()) if is_set else list(c.items())


def nodes(c):
    """The persistent objects that make up *c* (tree + first bucket)."""
    out = [c]
    fb = getattr(c, '_firstbucket', None)
    if fb is not None:
        out.append(fb)
    return out


def outcome(fn):
    try:
        return OK, fn()
    except BaseException as e:      # noqa: B902 - we want the class
        return ERR, e


MAP_WRITERS = {
    'setitem': lambda c, k, v: c.__setitem__(k, v),
    'setdefault': lambda c, k, v: c.setdefault(k, v),
    'update-dict-or-pairs': lambda c, k, v: c.update([(k, v)]),
    'insert': lambda c, k, v: c.insert(k, v),
}
SET_WRITERS = {
    'add': lambda c, k, v: c.add(k),
    'insert': lambda c, k, v: c.insert(k),
    'update': lambda c, k, v: c.update([k]),
}


def run_write(tag, make, writer, k, v, is_set, exp_k, exp_v, prepopulated):
    """Perform one write through *writer* on a fresh container from *make*
    and compare with the model's expectation."""
    c = make()
    before = snapshot(c, is_set)
    jars = [(n, attach(n)) for n in nodes(c)]
    kind, res = outcome(lambda: writer(c, k, v))
    expect_ok = exp_k[0] == OK and (is_set or exp_v[0] == OK)
    if expect_ok:
        check(kind == OK, tag, 'expected success, got', repr(res))
        if kind != OK:
            return
        keys = list(c.keys())
        check(len(keys) == len(before) + 1, tag, 'one item added', keys)
        stored_k = [x for x in keys
                    if not any(x is b or x == b for b in
                               ([bk if is_set else bk[0] for bk in before]))]
        check(len(stored_k) == 1 and same(stored_k[0], exp_k[1], exp_k[2]),
              tag, 'key reads back', stored_k, exp_k[1])
        if not is_set and len(stored_k) == 1:
            got_v = c[k]
            check(same(got_v, exp_v[1], exp_v[2]),
                  tag, 'value reads back', repr(got_v), repr(exp_v[1]))
            check(k in c and c.get(k, c) is not c, tag, 'lookup finds it')
        check(any(j.registered for _, j in jars), tag,
              'a successful write registers with the jar')
    else:
        # key errors win over value errors (the key is converted first)
        exp_args = exp_k[1] if exp_k[0] == ERR else exp_v[1]
        check(kind == ERR and type(res) is TypeError, tag,
              'expected TypeError, got', repr(res))
        if kind == ERR and type(res) is TypeError:
            check(res.args == exp_args, tag, 'message', res.args, exp_args)
        check(snapshot(c, is_set) == before, tag, 'container unchanged')
        for n, j in jars:
            check(not j.registered and not n._p_changed, tag,
                  'rejected write must not notify persistence')


def run_lookup(tag, c, k, is_set):
    """An unrepresentable key is simply absent."""
    check((k in c) is False, tag, 'in')
    if hasattr(c, 'has_key'):
        check(not c.has_key(k), tag, 'has_key')
    if not is_set:
        marker = object()
        check(c.get(k, marker) is marker, tag, 'get')
        kind, res = outcome(lambda: c[k])
        check(kind == ERR and type(res) is KeyError, tag, '[] ->', repr(res))


def sweep(impls=('C', 'Py'), only=None, pool=POOL, kinds=None):
    """The full C13 sweep over families x implementations x containers x
    entry points x offered data."""
    for kcode, vcode, module in families():
        if only is not None and not only(kcode, vcode):
            continue
        for impl in impls:
            for kind in (kinds or ('BTree', 'Bucket', 'TreeSet', 'Set')):
                cls = cls_of(module, kind, impl)
                is_set = kind in ('TreeSet', 'Set')
                name = cls.__name__ + ('' if impl == 'Py' else '(C)')
                gk, gv = good(kcode, 'key'), good(vcode, 'value')

                def make_pre(cls=cls, is_set=is_set, gk=gk, gv=gv,
                             kcode=kcode):
                    c = cls()
                    if kcode != 'O':     # mixed-type object keys can't sort
                        if is_set:
                            c.add(gk)
                        else:
                            c[gk] = gv
                    return c

                writers = dict(SET_WRITERS if is_set else MAP_WRITERS)
                if kind not in ('BTree', 'TreeSet'):
                    writers.pop('insert')

                for x in pool:
                    exp_xk = model(kcode, impl, x, 'key')
                    exp_gk = model(kcode, impl, gk, 'key')
                    # x offered as key
                    for wname, w in writers.items():
                        run_write((name, wname, 'key', repr(x)), make_pre, w,
                                  x, gv, is_set, exp_xk,
                                  model(vcode, impl, gv, 'value'), True)
                    # constructor
                    arg = [x] if is_set else [(x, gv)]
                    kind_, res = outcome(lambda: cls(arg))
                    tag = (name, 'constructor', 'key', repr(x))
                    if exp_xk[0] == OK:
                        check(kind_ == OK and len(res) == 1 and
                              same(list(res.keys())[0], exp_xk[1], exp_xk[2]),
                              tag, repr(res))
                    else:
                        check(kind_ == ERR and type(res) is TypeError and
                              res.args == exp_xk[1], tag, repr(res))
                    # lookups of unrepresentable keys
                    if exp_xk[0] == ERR:
                        run_lookup((name, 'lookup', repr(x)), make_pre(), x,
                                   is_set)
                    # C __setstate__ (the Python one does not validate)
                    if impl == 'C' and kind in ('Bucket', 'Set'):
                        st = ((x,),) if is_set else ((x, gv),)
                        c = cls()
                        kind_, res = outcome(lambda: c.__setstate__(st))
                        tag = (name, '__setstate__', 'key', repr(x))
                        # no default-comparison check on __setstate__
                        if exp_xk[0] == OK or kcode == 'O':
                            check(kind_ == OK and len(c) == 1 and
                                  same(list(c.keys())[0],
                                       exp_xk[1] if exp_xk[0] == OK else x,
                                       exp_xk[2] if exp_xk[0] == OK else None),
                                  tag, repr(res))
                        else:
                            check(kind_ == ERR and type(res) is TypeError
                                  and res.args == exp_xk[1], tag, repr(res))
                    if is_set:
                        continue
                    # x offered as value
                    exp_xv = model(vcode, impl, x, 'value')
                    for wname, w in writers.items():
                        run_write((name, wname, 'value', repr(x)),
                                  (lambda cls=cls: cls()), w,
                                  gk, x, is_set, exp_gk, exp_xv, False)
                    # replacing an existing value: rejected -> old value kept
                    c = make_pre()
                    if kcode == 'O':
                        c[gk] = gv
                    kind_, res = outcome(lambda: c.__setitem__(gk, x))
                    tag = (name, 'replace', 'value', repr(x))
                    if exp_xv[0] == OK:
                        check(kind_ == OK and same(c[gk], exp_xv[1],
                                                   exp_xv[2]), tag, repr(res))
                    else:
                        check(kind_ == ERR and type(res) is TypeError and
                              res.args == exp_xv[1], tag, repr(res))
                        check(list(c.items()) == [(gk, gv)], tag, 'kept')
                    kind_, res = outcome(lambda: cls([(gk, x)]))
                    tag = (name, 'constructor', 'value', repr(x))
                    if exp_xv[0] == OK:
                        check(kind_ == OK and same(res[gk], exp_xv[1],
                                                   exp_xv[2]), tag, repr(res))
                    else:
                        check(kind_ == ERR and type(res) is TypeError and
                              res.args == exp_xv[1], tag, repr(res))
                    if impl == 'C' and kind == 'Bucket':
                        c = cls()
                        kind_, res = outcome(
                            lambda: c.__setstate__(((gk, x),)))
                        tag = (name, '__setstate__', 'value', repr(x))
                        if exp_xv[0] == OK:
                            check(kind_ == OK and same(c[gk], exp_xv[1],
                                                       exp_xv[2]),
                                  tag, repr(res))
                        else:
                            check(kind_ == ERR and type(res) is TypeError
                                  and res.args == exp_xv[1], tag, repr(res))


def finish(label):
    print("%s: %d checks, %d mismatches" % (label, COUNTS['checks'],
                                            len(FAILURES)))
    sys.exit(1 if FAILURES else 0)


# ---------------------------------------------------------------------------
# C13r specific: _bucket_set (BucketTemplate.c) converts the value before the
# leaf is touched.  Exercise every way _bucket_set is reached with a value:
# item assignment (insert and replace), setdefault, BTree.insert (unique),
# update, set add (noval: the value is ignored and must NOT be converted),
# deletion (no value at all).
# ---------------------------------------------------------------------------
import pickle


def r_specific():
    for kcode, vcode, M in families():
        prefix = M.__name__.split('.')[-1][:2]
        gk, gv = good(kcode, 'key'), good(vcode, 'value')
        Bucket = getattr(M, prefix + 'Bucket')
        BTree = getattr(M, prefix + 'BTree')
        Set = getattr(M, prefix + 'Set')
        TreeSet = getattr(M, prefix + 'TreeSet')
        for x in POOL:
            ev = model(vcode, 'C', x, 'value')
            for cls in (Bucket, BTree):
                tag = (cls.__name__, repr(x))
                # -- setdefault on an EXISTING key looks the key up first
                #    and never offers the value to _bucket_set.
                c = cls({gk: gv})
                jars = [(n, attach(n)) for n in nodes(c)]
                kind_, res = outcome(lambda: c.setdefault(gk, x))
                check(kind_ == OK and same(res, model(
                    vcode, 'C', gv, 'value')[1], type(res)),
                    tag, 'setdefault existing', repr(res))
                check(list(c.items()) == [(gk, gv)], tag, 'setdefault kept')
                check(all(not j.registered and not n._p_changed
                          for n, j in jars), tag,
                      'setdefault on existing key never notifies')
                # -- BTree.insert is a unique store: the value is converted
                #    before the key is looked up, so an unrepresentable one
                #    is rejected even though it would not have been stored.
                if cls is BTree:
                    kind_, res = outcome(lambda: c.insert(gk, x))
                    if ev[0] == OK:
                        check(kind_ == OK and res == 0, tag, 'insert dup',
                              repr(res))
                    else:
                        check(kind_ == ERR and type(res) is TypeError and
                              res.args == ev[1], tag, 'insert dup',
                              repr(res))
                    check(list(c.items()) == [(gk, gv)], tag, 'insert kept')
                # -- replacing by an equal native value is a no-op
                if ev[0] == OK and vcode != 'O':
                    c = cls({gk: x})
                    jars = [(n, attach(n)) for n in nodes(c)]
                    c[gk] = x
                    stored = c[gk]
                    check(same(stored, ev[1], ev[2]), tag, 'replace same')
                    if vcode == 'f':
                        # fsBTree defines no VALUE_SAME: always a change
                        check(any(j.registered for n, j in jars), tag,
                              'fs: storing the same value is a change')
                        for n, j in jars:
                            del j.registered[:]
                            n._p_changed = False
                    elif not (isinstance(stored, float)
                              and math.isnan(stored)):
                        check(all(not j.registered for n, j in jars), tag,
                              'storing the same native value is not a change')
                    c[gk] = gv
                    if not same(stored, model(vcode, 'C', gv, 'value')[1],
                                type(stored)):
                        check(any(j.registered for n, j in jars), tag,
                              'storing a different value is a change')
                # -- deletion never looks at a value
                c = cls({gk: gv})
                del c[gk]
                check(len(c) == 0, tag, 'delete')
                kind_, res = outcome(lambda: c.__delitem__(gk))
                check(kind_ == ERR and type(res) is KeyError, tag,
                      'delete missing', repr(res))
            # -- sets: noval, any "value" is ignored, never converted
            for cls in (Set, TreeSet):
                c = cls()
                check(c.add(gk) == 1 and c.add(gk) == 0 and
                      list(c.keys()) == [gk], cls.__name__, 'add')
                c.update([gk])
                check(list(c.keys()) == [gk], cls.__name__, 'update')

        # -- object values: exactly one reference is taken on store, the
        #    replaced value is released, rejected stores take none.
        if vcode == 'O':
            for cls in (Bucket, BTree):
                v1, v2 = object(), object()
                r1, r2 = sys.getrefcount(v1), sys.getrefcount(v2)
                c = cls()
                c[gk] = v1
                check(sys.getrefcount(v1) == r1 + 1, cls.__name__, 'ref+1')
                c[gk] = v1
                check(sys.getrefcount(v1) == r1 + 1, cls.__name__,
                      'same object again')
                c[gk] = v2
                check(sys.getrefcount(v1) == r1 and
                      sys.getrefcount(v2) == r2 + 1, cls.__name__, 'swap')
                c.setdefault(gk, v1)
                check(sys.getrefcount(v1) == r1, cls.__name__,
                      'setdefault existing takes no ref')
                bad = DefaultCmp() if kcode == 'O' else "not a key"
                outcome(lambda: c.__setitem__(bad, v1))
                check(sys.getrefcount(v1) == r1, cls.__name__,
                      'rejected key takes no value ref')
                del c[gk]
                check(sys.getrefcount(v2) == r2, cls.__name__, 'del')
        else:
            # native values: offered objects never retained
            for cls in (Bucket, BTree):
                for x in (2 ** 62 + 99, 2 ** 30 + 7, 123456.789, 2 ** 80,
                          "str"):
                    rc = sys.getrefcount(x)
                    c = cls()
                    for _ in range(3):
                        outcome(lambda: c.__setitem__(gk, x))
                        outcome(lambda: c.setdefault(gk, x))
                        outcome(lambda: c.update([(gk, x)]))
                    check(sys.getrefcount(x) == rc, cls.__name__,
                          'value refcount', repr(x))

        # -- pickles carry exactly what reads back
        for cls in (Bucket, BTree):
            c = cls({gk: gv})
            c2 = pickle.loads(pickle.dumps(c))
            check(list(c2.items()) == list(c.items()), cls.__name__,
                  'pickle')


sweep()
r_specific()
finish('C13r')
