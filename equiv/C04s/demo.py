#!/usr/bin/env python
"""Equivalence demonstration for refactoring C04s (property C04: every change
reaches the database: commit + reload reproduces the contents).

Run as:  PYTHONPATH=<worktree>/src /venv/bin/python demo.py

Self-contained: brings its own miniature object database for `persistent`
objects (ZODB is not needed).  Exits 0 iff every check passes; the expected
values are (a) a dict/set reference model, (b) the other implementation
(C vs. pure Python), and (c) constants recorded from the unmodified sources.
"""
import hashlib
import importlib
import io
import os
import pickle
import random
import sys
import types

from persistent import Persistent, PickleCache
from BTrees.check import check as bt_check

# ----------------------------------------------------------------------
# miniature object database
# ----------------------------------------------------------------------
class RegisterFailure(Exception):
    pass


CLASSES = {}   # name -> class; references are written as (oid, name)


def class_name(cls):
    name = cls.__module__ + '.' + cls.__name__
    assert CLASSES.setdefault(name, cls) is cls
    return name


class Storage:
    def __init__(self):
        self.records = {}
        self.next_oid = 1
        self.serial = 0

    def new_oid(self):
        oid = self.next_oid.to_bytes(8, 'big')
        self.next_oid += 1
        return oid


class Connection:
    def __init__(self, storage):
        self.storage = storage
        self.cache = PickleCache(self)
        self.registered = []      # objects announced for the next commit
        self.fail_register = False
        self.fail_oids = set()    # registration fails for these objects only
        self.register_log = []    # every register() call: (kind, oid)
        self.read_current = []
        self.written = []         # oids written by the last commit

    # -- data manager interface used by persistent -------------------------
    def register(self, obj):
        if self.fail_register or obj._p_oid in self.fail_oids:
            raise RegisterFailure()
        self.registered.append(obj)
        self.register_log.append((type(obj).__name__, obj._p_oid))

    def readCurrent(self, obj):
        self.read_current.append(obj._p_oid)

    def setstate(self, obj):
        cls, data = self.storage.records[obj._p_oid]
        assert cls is type(obj), (cls, type(obj))
        obj.__setstate__(self._loads(data))

    def oldstate(self, obj, serial):  # pragma: no cover
        raise NotImplementedError

    # -- (de)serialisation ---------------------------------------------------
    def _dumps(self, state, stack):
        f = io.BytesIO()
        p = pickle.Pickler(f, 3)

        def persistent_id(o):
            if not isinstance(o, Persistent):
                return None
            if o._p_oid is None:
                # newly reachable: give it an identity, write it too
                o._p_jar = self
                o._p_oid = self.storage.new_oid()
                self.cache[o._p_oid] = o
                stack.append(o)
            else:
                assert o._p_jar is self
            return (o._p_oid, class_name(type(o)))

        p.persistent_id = persistent_id
        p.dump(state)
        return f.getvalue()

    def _loads(self, data):
        u = pickle.Unpickler(io.BytesIO(data))
        u.persistent_load = self._ghost
        return u.load()

    def _ghost(self, ref):
        oid, cls = ref
        cls = CLASSES[cls]
        obj = self.cache.get(oid)
        if obj is None:
            obj = cls.__new__(cls)
            self.cache.new_ghost(oid, obj)
        return obj

    # -- API -----------------------------------------------------------------
    def add(self, obj):
        assert obj._p_oid is None
        obj._p_jar = self
        obj._p_oid = self.storage.new_oid()
        self.cache[obj._p_oid] = obj
        self.registered.append(obj)
        return obj._p_oid

    def get(self, oid):
        cls, _ = self.storage.records[oid]
        return self._ghost((oid, class_name(cls)))

    def commit(self):
        self.storage.serial += 1
        serial = self.storage.serial.to_bytes(8, 'big')
        stack = list(reversed(self.registered))
        self.registered = []
        written = []
        seen = set()
        while stack:
            obj = stack.pop()
            if obj._p_oid in seen:
                continue
            seen.add(obj._p_oid)
            state = obj.__getstate__()
            self.storage.records[obj._p_oid] = (
                type(obj), self._dumps(state, stack))
            written.append(obj._p_oid)
            obj._p_changed = False
            obj._p_serial = serial
        assert not self.registered, "commit itself must not dirty anything"
        self.written = written
        return written

    def abort(self):
        objs, self.registered = self.registered, []
        for obj in objs:
            obj._p_invalidate()


# the driver below addresses the database through this namespace
minidb = types.SimpleNamespace(Storage=Storage, Connection=Connection)

# ----------------------------------------------------------------------
# random-history driver
# ----------------------------------------------------------------------
FAMILIES = ['OO', 'IO', 'OI', 'II', 'IF', 'LO', 'LL', 'LF', 'OL', 'UU', 'QQ',
            'UO', 'OQ', 'fs']


def classes(family, py):
    mod = importlib.import_module('BTrees.%sBTree' % family)
    sfx = 'Py' if py else ''
    names = ['BTree', 'Bucket'] if family == 'fs' else [
        'BTree', 'Bucket', 'TreeSet', 'Set']
    return {n: getattr(mod, family + n + sfx) for n in names}


_small_cache = {}


def small(cls, leaf, internal):
    """Subclass with small node sizes (cached so reader/writer agree)."""
    k = (cls, leaf, internal)
    if k not in _small_cache:
        _small_cache[k] = type(cls)(
            'Small%dx%d%s' % (leaf, internal, cls.__name__), (cls,),
            {'max_leaf_size': leaf, 'max_internal_size': internal})
    return _small_cache[k]


def keygen(family, rng, span):
    c = family[0]
    if c == 'O':
        return lambda: rng.randrange(-span, span)
    if c in 'IL':
        return lambda: rng.randrange(-span, span)
    if c in 'UQ':
        return lambda: rng.randrange(0, 2 * span)
    if c == 'f':
        return lambda: bytes([97 + rng.randrange(0, 8), 97 + rng.randrange(0, span // 4 + 1) % 26])
    raise AssertionError(family)


def valgen(family, rng):
    c = family[1]
    if c == 'O':
        return lambda: rng.choice([None, 'x', (1, 2), rng.randrange(5)])
    if c in 'IL':
        return lambda: rng.randrange(-3, 4)
    if c in 'UQ':
        return lambda: rng.randrange(0, 5)
    if c == 'F':
        return lambda: rng.randrange(0, 5) / 2.0
    if c == 's':
        return lambda: bytes([65 + rng.randrange(3)]) * 6
    raise AssertionError(family)


def contents(obj, is_map):
    return list(obj.items()) if is_map else list(obj.keys())


def expected(model, is_map):
    return sorted(model.items()) if is_map else sorted(model)


def sound(obj):
    if hasattr(obj, '_check'):
        obj._check()
        if not type(obj).__name__.startswith('Small'):
            bt_check(obj)   # check.py knows the stock classes only


def inline_leaf_below_root(tree):
    """True if some interior node other than the root has, as its only
    child, a leaf that was never stored.

    Such a node pickles the leaf inline while the preceding leaf refers to
    the same leaf by reference, so a reader ends up with two copies and a
    broken leaf chain.  The unmodified sources (C and Python alike) do that
    when a node created by a split loses all leaves but one within the
    transaction that created it; it is independent of the refactoring under
    test, so histories postpone their commit while the situation lasts.
    """
    state = tree.__getstate__()
    if state is None or len(state) == 1:
        return False
    todo = [c for c in state[0][::2] if type(c) is type(tree)]
    while todo:
        node = todo.pop()
        state = node.__getstate__()
        if len(state) == 1:
            return True
        todo.extend(c for c in state[0][::2] if type(c) is type(tree))
    return False


def run_history(minidb, cls, family, is_map, seed, nops, span=40,
                p_commit=0.12, p_abort=0.06, trace=None):
    """Returns the number of commits+aborts.  `trace` (a list) receives the
    register log and written oids of every transaction."""
    rng = random.Random(seed)
    newkey = keygen(family, rng, span)
    newval = valgen(family, rng)
    st = minidb.Storage()
    conn = minidb.Connection(st)
    obj = cls()
    root = conn.add(obj)
    conn.commit()
    model = {} if is_map else set()
    committed = model.copy()
    boundaries = 0
    is_tree = hasattr(obj, '_check')

    def tr(*a):
        if trace is not None:
            trace.append(a)

    for step in range(nops):
        r = rng.random()
        k = newkey()
        if is_map:
            v = newval()
            if r < 0.40:
                obj[k] = v
                model[k] = v
            elif r < 0.62:
                if k in model:
                    del obj[k]
                    del model[k]
                else:
                    try:
                        del obj[k]
                    except KeyError:
                        pass
                    else:
                        raise AssertionError('del of absent key succeeded')
            elif r < 0.70:
                assert obj.pop(k, 'dflt') == model.pop(k, 'dflt')
            elif r < 0.78:
                assert obj.setdefault(k, v) == model.setdefault(k, v)
            elif r < 0.86:
                extra = {newkey(): newval() for _ in range(rng.randrange(4))}
                obj.update(extra)
                model.update(extra)
            elif r < 0.88:
                obj.clear()
                model.clear()
            elif r < 0.94 and model:
                # empty out a run of adjacent keys (drops whole leaves)
                ks = sorted(model)
                i = rng.randrange(len(ks))
                for kk in ks[i:i + rng.randrange(1, 9)]:
                    del obj[kk]
                    del model[kk]
            else:
                assert obj.get(k, 'dflt') == model.get(k, 'dflt')
        else:
            if r < 0.40:
                if hasattr(obj, 'add'):
                    obj.add(k)
                else:
                    obj.insert(k)
                model.add(k)
            elif r < 0.62:
                if k in model:
                    obj.remove(k)
                    model.remove(k)
                else:
                    try:
                        obj.remove(k)
                    except KeyError:
                        pass
                    else:
                        raise AssertionError('remove of absent key succeeded')
            elif r < 0.70:
                obj.discard(k)
                model.discard(k)
            elif r < 0.80:
                extra = [newkey() for _ in range(rng.randrange(4))]
                obj.update(extra)
                model.update(extra)
            elif r < 0.82:
                obj.clear()
                model.clear()
            elif r < 0.92 and model:
                ks = sorted(model)
                i = rng.randrange(len(ks))
                for kk in ks[i:i + rng.randrange(1, 9)]:
                    obj.remove(kk)
                    model.remove(kk)
            else:
                assert (k in obj) == (k in model)

        assert len(obj) == len(model), (step, len(obj), len(model))

        r = rng.random()
        if r < p_commit or step == nops - 1:
            if is_tree and inline_leaf_below_root(obj):
                if step < nops - 1:
                    continue            # see inline_leaf_below_root
                conn.abort()
                break
            assert contents(obj, is_map) == expected(model, is_map)
            log = [(n.replace('Py', ''), o) for n, o in conn.register_log]
            conn.register_log = []
            written = conn.commit()
            tr('commit', step, tuple(log), tuple(written))
            committed = model.copy()
            boundaries += 1
            # fresh reader, restarting from storage
            rconn = minidb.Connection(st)
            robj = rconn.get(root)
            got = contents(robj, is_map)
            assert got == expected(model, is_map), (
                'reader differs after commit', cls, seed, step)
            sound(robj)
            assert not rconn.registered, 'reading must not dirty anything'
            # the writer still agrees, too
            assert contents(obj, is_map) == got
            sound(obj)
            assert not conn.registered
        elif r < p_commit + p_abort:
            log = [(n.replace('Py', ''), o) for n, o in conn.register_log]
            conn.register_log = []
            tr('abort', step, tuple(log))
            conn.abort()
            model = committed.copy()
            boundaries += 1
            assert contents(obj, is_map) == expected(model, is_map), (
                'writer differs after abort', cls, seed, step)
            sound(obj)
            assert not conn.registered
    return boundaries


def digest(trace):
    return hashlib.sha256(repr(trace).encode()).hexdigest()[:16]


def sweep(minidb, families, seeds, nops, sizes=((None, None), (3, 3), (4, 2)),
          kinds=None):
    """Run histories over families x kinds x impl x sizes.  Returns
    {(family, kind, sizes): digest-of-C-trace}; asserts that C and Python
    register the same sets of objects and write the same records."""
    out = {}
    total = 0
    for fam in families:
        for py in (False, True):
            for kind, base in classes(fam, py).items():
                if kinds and kind not in kinds:
                    continue
                is_map = kind in ('BTree', 'Bucket')
                is_tree = kind in ('BTree', 'TreeSet')
                for leaf, internal in (sizes if is_tree else ((None, None),)):
                    cls = base if leaf is None else small(base, leaf, internal)
                    traces = []
                    for seed in seeds:
                        t = []
                        total += run_history(
                            minidb, cls, fam, is_map, seed,
                            nops if is_tree else nops // 3,
                            span=40 if is_tree else 12, trace=t)
                        traces.append(t)
                    out[(fam, kind, leaf, internal, py)] = traces
    # C vs Python: same objects announced (as sets), same records written
    res = {}
    for (fam, kind, leaf, internal, py), traces in out.items():
        if py:
            continue
        other = out[(fam, kind, leaf, internal, True)]
        for tc, tp in zip(traces, other):
            assert len(tc) == len(tp)
            for a, b in zip(tc, tp):
                assert a[:2] == b[:2]
                assert set(a[2]) <= set(b[2]), (
                    'C and Python announce different objects',
                    fam, kind, leaf, internal, a, b)
                if a[0] == 'commit':
                    assert set(a[3]) <= set(b[3]), (fam, kind, a, b)
        res[(fam, kind, leaf, internal)] = (digest(traces), digest(other))
    return res, total


# ----------------------------------------------------------------------
# checks aimed at the code touched by this refactoring
# ----------------------------------------------------------------------
CHECKS = [0]


def ok(cond, *msg):
    CHECKS[0] += 1
    if not cond:
        raise AssertionError(msg)


def stored(cls_or_obj, fill=()):
    """A container stored in a fresh database and committed; returns
    (storage, connection, object, oid)."""
    st = Storage()
    conn = Connection(st)
    obj = cls_or_obj() if isinstance(cls_or_obj, type) else cls_or_obj
    oid = conn.add(obj)
    if fill:
        obj.update(fill)
    conn.commit()
    conn.register_log = []
    return st, conn, obj, oid


def announced(conn):
    """Objects announced since the last call (oids, in order), reset."""
    log, conn.register_log = conn.register_log, []
    return [o for _, o in log]


def reload(st, oid):
    return Connection(st).get(oid)

SWEEP_FAMILIES = ['OO', 'IO', 'OI', 'LL', 'IF', 'UO', 'QQ', 'fs']
SWEEP_SEEDS = 4
SWEEP_NOPS = 330
SWEEP_KINDS = ('BTree', 'TreeSet', 'Bucket')   # Set.__getstate__ is untouched

RECORDED = {"('IF', 'BTree', 3, 3)": ('fad4424696af972a', '113985a23136741b'),
 "('IF', 'BTree', 4, 2)": ('9224d4868fc50506', '28d6ff80cc590e74'),
 "('IF', 'BTree', None, None)": ('ae85013093f3ca56', '348fe882f5c5ad51'),
 "('IF', 'Bucket', None, None)": ('9abdaf1ee981c915', '9abdaf1ee981c915'),
 "('IF', 'TreeSet', 3, 3)": ('190f79d32e8be9c9', '190f79d32e8be9c9'),
 "('IF', 'TreeSet', 4, 2)": ('daebe091ee092293', 'daebe091ee092293'),
 "('IF', 'TreeSet', None, None)": ('28f3472f4d37e16c', '0099b23ea3ecceb0'),
 "('IO', 'BTree', 3, 3)": ('d331095d67cef929', 'd331095d67cef929'),
 "('IO', 'BTree', 4, 2)": ('a4d54e3e42b0b421', 'a4d54e3e42b0b421'),
 "('IO', 'BTree', None, None)": ('3a3eeb7ee0b308fc', '3a3eeb7ee0b308fc'),
 "('IO', 'Bucket', None, None)": ('b40779f51a9bf00a', 'b40779f51a9bf00a'),
 "('IO', 'TreeSet', 3, 3)": ('f219a5bb3351a2ec', 'f219a5bb3351a2ec'),
 "('IO', 'TreeSet', 4, 2)": ('4270afcffe9c70e8', '4270afcffe9c70e8'),
 "('IO', 'TreeSet', None, None)": ('1fc027f0a3128833', '2aca714da4f108ae'),
 "('LL', 'BTree', 3, 3)": ('61cb3f2b89ed1e48', '014d16a21ab6e55b'),
 "('LL', 'BTree', 4, 2)": ('6a4a0d6532b313fa', '8349a715b7683f21'),
 "('LL', 'BTree', None, None)": ('11a4e03c0bde38c1', '11a4e03c0bde38c1'),
 "('LL', 'Bucket', None, None)": ('2e82fdac2eb97b3b', 'b604a85b8a276798'),
 "('LL', 'TreeSet', 3, 3)": ('6ec7308f522fa385', '6ec7308f522fa385'),
 "('LL', 'TreeSet', 4, 2)": ('617e9d589f222762', '617e9d589f222762'),
 "('LL', 'TreeSet', None, None)": ('15a11489c79ffbba', '0b693b86ad2cdfe2'),
 "('OI', 'BTree', 3, 3)": ('081d583fe322f88b', '2a6bde273e2d0d79'),
 "('OI', 'BTree', 4, 2)": ('6763650e576ba810', '2ffe459910b14d19'),
 "('OI', 'BTree', None, None)": ('d8f7f499ee7393b2', 'd8f7f499ee7393b2'),
 "('OI', 'Bucket', None, None)": ('00398170bca627d5', '800e143cf29588b6'),
 "('OI', 'TreeSet', 3, 3)": ('ba2f422512cc74d0', 'ba2f422512cc74d0'),
 "('OI', 'TreeSet', 4, 2)": ('560a1d291bd5d6ae', '560a1d291bd5d6ae'),
 "('OI', 'TreeSet', None, None)": ('3040f74e81ebaf8b', '04a211f9ffbe27ed'),
 "('OO', 'BTree', 3, 3)": ('cdaff248233100cc', 'cdaff248233100cc'),
 "('OO', 'BTree', 4, 2)": ('fb933c2fbcf13cb9', 'fb933c2fbcf13cb9'),
 "('OO', 'BTree', None, None)": ('1b4445fe406300fb', '1b4445fe406300fb'),
 "('OO', 'Bucket', None, None)": ('ef44a14f142471e3', 'ef44a14f142471e3'),
 "('OO', 'TreeSet', 3, 3)": ('fd8af9d460425eb7', 'fd8af9d460425eb7'),
 "('OO', 'TreeSet', 4, 2)": ('ac455ce7bb9da5e3', 'ac455ce7bb9da5e3'),
 "('OO', 'TreeSet', None, None)": ('944016c18b469266', '4949c157cf654733'),
 "('QQ', 'BTree', 3, 3)": ('2afaff56de373d4f', '4b74e3c6eafb104e'),
 "('QQ', 'BTree', 4, 2)": ('a5bb77035c6e476f', '47339763bf3e0bca'),
 "('QQ', 'BTree', None, None)": ('00a75e1642236ee7', '9b6eada98b378614'),
 "('QQ', 'Bucket', None, None)": ('f345b38da878f4a1', 'f345b38da878f4a1'),
 "('QQ', 'TreeSet', 3, 3)": ('22ce79d3e8a03103', '22ce79d3e8a03103'),
 "('QQ', 'TreeSet', 4, 2)": ('1f088f1c4474c75a', '1f088f1c4474c75a'),
 "('QQ', 'TreeSet', None, None)": ('85216c9be9937984', '914cb8413102c881'),
 "('UO', 'BTree', 3, 3)": ('eca3e33cc8f3ba1b', 'eca3e33cc8f3ba1b'),
 "('UO', 'BTree', 4, 2)": ('3dd7709780f6143a', '3dd7709780f6143a'),
 "('UO', 'BTree', None, None)": ('6a3194e34bd7ebaa', '6a3194e34bd7ebaa'),
 "('UO', 'Bucket', None, None)": ('def543445c6ad458', 'def543445c6ad458'),
 "('UO', 'TreeSet', 3, 3)": ('506d4a4f1f9c355e', '506d4a4f1f9c355e'),
 "('UO', 'TreeSet', 4, 2)": ('3e2e4ed43b3f9b91', '3e2e4ed43b3f9b91'),
 "('UO', 'TreeSet', None, None)": ('a69fdf0bac9962b8', '6d958c8ba1445ca4'),
 "('fs', 'BTree', 3, 3)": ('c92a0643933e5492', 'd82d0009b7bb1400'),
 "('fs', 'BTree', 4, 2)": ('3ea816289e06a582', '248f13d9b4b05e2a'),
 "('fs', 'BTree', None, None)": ('b08187a6439a546c', '5c03fe6c555fa20f'),
 "('fs', 'Bucket', None, None)": ('b4d6182363ba450d', 'b4d6182363ba450d')}


def shape(state, tree_type, leaf_type):
    """A state with the persistent children replaced by their own shapes,
    so that C and Python states can be compared by value."""
    if isinstance(state, tuple):
        return tuple(shape(x, tree_type, leaf_type) for x in state)
    if isinstance(state, (tree_type, leaf_type)):
        return (type(state).__name__.replace('Py', ''),
                shape(state.__getstate__(), tree_type, leaf_type))
    return state


def targeted():
    """State capture of the pure-Python Bucket and tree: exact tuples."""
    from BTrees.OOBTree import (OOBucketPy, OOBucket, OOBTreePy, OOBTree,
                                OOTreeSetPy, OOTreeSet, OOSetPy, OOSet)
    from BTrees.LFBTree import LFBucketPy, LFBucket, LFBTreePy, LFBTree

    # -- leaf: recorded constants, with and without a successor ------------
    for B in (OOBucketPy, OOBucket):
        b = B()
        ok(b.__getstate__() == ((),))
        b.update({3: 'c', 1: 'a', 2: None})
        ok(b.__getstate__() == ((1, 'a', 2, None, 3, 'c'),))
        ok(type(b.__getstate__()[0]) is tuple)
        nxt = B({9: 9})
        b2 = B()
        b2.__setstate__(((1, 'a', 5, 'e'), nxt))
        st = b2.__getstate__()
        ok(len(st) == 2 and st[0] == (1, 'a', 5, 'e') and st[1] is nxt)
        # values are captured by identity, not copied
        v = ['mutable']
        b3 = B({1: v})
        ok(b3.__getstate__()[0][1] is v)
    for B in (LFBucketPy, LFBucket):
        b = B({2: 0.5, -1: 2})
        st = b.__getstate__()
        ok(st == ((-1, 2.0, 2, 0.5),) and type(st[0][1]) is float)

    # capturing state is a read: nothing is announced, flags unchanged
    st_, conn, b, oid = stored(OOBucketPy, {1: 1, 2: 2})
    b.__getstate__()
    ok(announced(conn) == [] and not b._p_changed and not conn.registered)
    b[3] = 3
    ok(b.__getstate__() == ((1, 1, 2, 2, 3, 3),) and b._p_changed)
    conn.abort()
    ok(b.__getstate__() == ((1, 1, 2, 2),))

    # a bucket damaged by an odd-length state keeps failing the same way
    b = OOBucketPy()
    try:
        b.__setstate__(((1, 'a', 2),))
    except IndexError:
        ok(True)
    else:
        ok(False)
    ok(list(b._keys) == [1, 2] and list(b._values) == ['a'])
    try:
        b.__getstate__()
    except IndexError:
        ok(True)
    else:
        ok(False, 'damaged bucket captured silently')

    # -- tree: None / inline leaf / (children-and-keys, firstbucket) ---------
    for T, TS in ((OOBTreePy, OOTreeSetPy), (OOBTree, OOTreeSet)):
        t = T()
        ok(t.__getstate__() is None)
        t[1] = 'a'
        t[0] = 'z'
        ok(t.__getstate__() == (((((0, 'z', 1, 'a'),),),)))
        ts = TS([3, 1])
        ok(ts.__getstate__() == ((((1, 3),),),))

    # multi-level trees, small nodes: Python state == C state, by shape
    for C, P, fill in (
            (small(OOBTree, 3, 3), small(OOBTreePy, 3, 3),
             lambda t, ks: t.update([(k, str(k)) for k in ks])),
            (small(OOTreeSet, 4, 2), small(OOTreeSetPy, 4, 2),
             lambda t, ks: t.update(ks)),
            (small(LFBTree, 2, 2), small(LFBTreePy, 2, 2),
             lambda t, ks: t.update([(k, k / 4.0) for k in ks])),
            (OOBTree, OOBTreePy,
             lambda t, ks: t.update([(k, k) for k in ks]))):
        rng = random.Random(11)
        for n in (1, 2, 5, 9, 30, 200):
            ks = rng.sample(range(1000), n)
            c, p = C(), P()
            fill(c, ks)
            fill(p, ks)
            sc = shape(c.__getstate__(), C, c._bucket_type)
            sp = shape(p.__getstate__(), P, p._bucket_type)
            ok(sc == sp, C, n)
            # remove some keys again (node keys get replaced, leaves go away)
            for k in ks[::3]:
                for t in (c, p):
                    if hasattr(t, 'remove'):
                        t.remove(k)
                    else:
                        del t[k]
            ok(shape(c.__getstate__(), C, c._bucket_type) ==
               shape(p.__getstate__(), P, p._bucket_type), C, n, 'after del')
            st = p.__getstate__()
            if st is not None and len(st) == 2:
                ok(st[1] is p._firstbucket and st[0][0] is p._data[0].child)
                ok(len(st[0]) == 2 * len(p._data) - 1)
                ok(all(st[0][2 * i - 1] == p._data[i].key and
                       st[0][2 * i] is p._data[i].child
                       for i in range(1, len(p._data))))

    # stored tree: inline leaf only while the leaf was never stored
    for T in (small(OOBTreePy, 3, 3), small(OOBTree, 3, 3)):
        st_, conn, t, oid = stored(T, {1: 1})
        ok(len(t.__getstate__()) == 1)
        t.update({2: 2, 3: 3, 4: 4})        # splits: leaves get stored
        conn.commit()
        state = t.__getstate__()
        ok(len(state) == 2 and all(
            c._p_oid is not None for c in state[0][::2]))
        del t[4], t[3]                       # back to one, stored, leaf
        while len(t.__getstate__()[0]) > 1:
            del t[max(t.keys())]
        state = t.__getstate__()
        ok(len(state) == 2 and len(state[0]) == 1 and
           state[0][0] is state[1] and state[1]._p_oid is not None)
        conn.commit()
        r = reload(st_, oid)
        ok(list(r.items()) == list(t.items()))
        r._check()


def main():
    targeted()
    res, total = sweep(minidb, SWEEP_FAMILIES, range(SWEEP_SEEDS), SWEEP_NOPS,
                       kinds=SWEEP_KINDS)
    got = {repr(k): v for k, v in res.items()}
    if os.environ.get('C04_RECORD'):
        import pprint
        pprint.pprint(got)
        return 0
    bad = [k for k in RECORDED if got.get(k) != RECORDED[k]]
    assert not bad and len(got) == len(RECORDED), (
        'announcement/record traces differ from the recorded ones', bad)
    print('OK: %d targeted checks, %d transaction boundaries in %d '
          'configurations' % (CHECKS[0], total, len(res)))
    return 0


if __name__ == '__main__':
    sys.exit(main())
