"""Differential demo for refactoring u (BTreeTemplate.c: BTree_grow, the new
helper BTree_reserve_item, BTree_split_root).

Run as:  PYTHONPATH=<tree>/src /venv/bin/python demo.py

What is exercised
  * growth of interior nodes: first child of an empty tree, splitting a leaf
    child, splitting an interior child, shifting the items behind the split
    point, doubling of the item vector, and the root split -- through
    BTree/TreeSet subclasses with tiny max_leaf_size / max_internal_size, for
    several key/value families.
  * The C trees are compared after every step with a dict/set model, and
    their exact node structure (which keys sit in which leaf, every separator
    key, nesting) with the structure built by the pure-Python implementation
    under the same node sizes.
  * reference counts of object keys (separator keys are owned once per
    interior slot, the "taken over" reference on interior splits included).
  * error paths of BTree_grow reachable from Python: the leaf factory
    failing on the first insert, the constructor of the new sibling (leaf,
    interior node, new root child) failing, the child becoming an unloadable
    ghost between the insert and the split.  After each failure the tree is
    compared with the model, checked and used again; no node object leaks.
  * allocation failures, best effort: a child process lowers RLIMIT_AS so
    that doubling a very wide interior node fails.

Exit status 0 means behaviour is as specified.
"""
import gc
import os
import random
import subprocess
import sys

FAMILIES = ['OO', 'LL', 'IF', 'OI', 'LO', 'II', 'QQ', 'UF', 'OL', 'fs']


def mod(name):
    return __import__('BTrees.%sBTree' % name, fromlist=['x'])


def fail(msg):
    print("FAIL: " + msg)
    sys.exit(1)


def expect(cond, msg):
    if not cond:
        fail(msg)


class Gen(object):
    def __init__(self, name, rnd, span):
        self.name, self.rnd, self.span = name, rnd, span

    def key(self):
        r = self.rnd
        i = r.randrange(self.span)
        if self.name == 'fs':
            i %= 676
            return bytes([97 + i // 26, 97 + i % 26])
        if self.name[0] == 'O':
            return 'k%04d' % i
        if self.name[0] in 'IL':
            return i - self.span // 2
        return i

    def value(self):
        r = self.rnd
        if self.name == 'fs':
            return bytes([r.randrange(65, 91) for _ in range(6)])
        v = self.name[1]
        if v == 'O':
            return ('v', r.randrange(1000))
        if v == 'F':
            return r.randrange(-4000, 4000) * 0.25
        if v in 'IL':
            return r.randrange(-10 ** 6, 10 ** 6)
        return r.randrange(10 ** 6)


def small(base, leaf, internal, **extra):
    d = {'max_leaf_size': leaf, 'max_internal_size': internal}
    d.update(extra)
    return type('Small' + base.__name__, (base,), d)


def shape(t):
    """Nested description of the node structure, from the pickled state."""
    st = t.__getstate__()
    if st is None:
        return None
    out = []
    for j, x in enumerate(st[0]):
        if j % 2:
            out.append(('sep', x))
        elif isinstance(x, tuple):
            # a lone leaf stored inline
            data = x[0]
            if hasattr(t, 'items'):
                out.append(('leaf', tuple(data[::2])))
            else:
                out.append(('leaf', tuple(data)))
        elif hasattr(x, '_firstbucket'):
            out.append(shape(x))
        else:
            out.append(('leaf', tuple(x.keys())))
    return out


def node_stats(sh, depth=0, acc=None):
    if acc is None:
        acc = {'fanout': [], 'depths': set()}
    if sh is None:
        return acc
    kids = [x for x in sh if not (isinstance(x, tuple) and x[0] == 'sep')]
    acc['fanout'].append(len(kids))
    for x in kids:
        if isinstance(x, list):
            node_stats(x, depth + 1, acc)
        else:
            acc['depths'].add(depth + 1)
    return acc


def same(c, model, what):
    if hasattr(c, 'items'):
        expect(list(c.items()) == sorted(model.items()), what + ': items')
    else:
        expect(list(c.keys()) == sorted(model), what + ': keys')
    expect(len(c) == len(model), what + ': len')
    c._check()


# ---------------------------------------------------------------------------

def structure_workload(name, rnd):
    m = mod(name)
    for leaf, internal in [(1, 2), (2, 2), (2, 3), (3, 2), (4, 3), (2, 7),
                           (6, 5)]:
        C = small(getattr(m, name + 'BTree'), leaf, internal)
        P = small(getattr(m, name + 'BTreePy'), leaf, internal)
        CS = small(getattr(m, name + 'TreeSet'), leaf, internal)
        PS = small(getattr(m, name + 'TreeSetPy'), leaf, internal)
        g = Gen(name, rnd, 260)
        c, p, model = C(), P(), {}
        cs, ps, smodel = CS(), PS(), set()
        steps = 420
        for n in range(steps):
            k = g.key()
            if rnd.random() < 0.22 and k in model:
                del c[k], p[k], model[k]
                cs.remove(k)
                ps.remove(k)
                smodel.discard(k)
            else:
                v = g.value()
                c[k] = v
                p[k] = v
                model[k] = v
                r1, r2 = cs.add(k), ps.add(k)
                expect(r1 == r2, name + ' TreeSet.add result')
                smodel.add(k)
            if n % 7 == 0 or n > steps - 30:
                expect(shape(c) == shape(p),
                       '%s BTree structure leaf=%d int=%d step %d'
                       % (name, leaf, internal, n))
                expect(shape(cs) == shape(ps),
                       '%s TreeSet structure leaf=%d int=%d step %d'
                       % (name, leaf, internal, n))
            if n % 20 == 0:
                same(c, model, name + ' tree')
                same(cs, smodel, name + ' treeset')
        same(c, model, name + ' tree')
        same(cs, smodel, name + ' treeset')
        # bounds on the node sizes: the root may hold up to 2*internal-1
        # children, other interior nodes at most `internal`
        for tree in (c, cs):
            sh = shape(tree)
            st = node_stats(sh)
            if st['fanout']:
                expect(st['fanout'][0] < 2 * internal,
                       'root fanout %r' % (st['fanout'][0],))
                expect(all(f <= internal for f in st['fanout'][1:]),
                       'interior fanout %r' % (st['fanout'],))
                expect(len(st['depths']) <= 1, 'leaves at one depth')
        # ascending and descending bulk loads: splits always at one edge
        for order in (sorted(model), sorted(model, reverse=True)):
            c2, p2 = C(), P()
            for k in order:
                c2[k] = model[k]
                p2[k] = model[k]
            expect(shape(c2) == shape(p2), name + ' bulk structure')
            same(c2, model, name + ' bulk')
        # the pickled form round-trips into an equal tree of equal structure
        c3 = C()
        c3.__setstate__(c.__getstate__())
        expect(shape(c3) == shape(c), name + ' state copy structure')
        same(c3, model, name + ' state copy')


# ---------------------------------------------------------------------------

class K(object):
    __slots__ = ('n',)

    def __init__(self, n):
        self.n = n

    def __lt__(self, other):
        return self.n < other.n

    def __eq__(self, other):
        return self.n == other.n

    def __hash__(self):
        return hash(self.n)


def count_seps(sh):
    if sh is None:
        return {}
    out = {}
    for x in sh:
        if isinstance(x, list):
            for k, n in count_seps(x).items():
                out[k] = out.get(k, 0) + n
        elif x[0] == 'sep':
            out[x[1].n] = out.get(x[1].n, 0) + 1
    return out


def refcount_workload(rnd):
    m = mod('OO')
    for leaf, internal in [(1, 2), (2, 2), (3, 3), (4, 2)]:
        C = small(m.OOBTree, leaf, internal)
        CS = small(m.OOTreeSet, leaf, internal)
        N = 150
        keys = [K(i) for i in range(N)]
        gc.collect()
        base = [sys.getrefcount(k) for k in keys]
        order = list(range(N))
        rnd.shuffle(order)
        t, ts = C(), CS()
        for i in order:
            t[keys[i]] = i
            ts.add(keys[i])
        t._check()
        ts._check()
        sh, shs = shape(t), shape(ts)
        seps, sepss = count_seps(sh), count_seps(shs)
        del sh, shs
        now = [sys.getrefcount(k) for k in keys]
        for i in range(N):
            want = base[i] + 2 + seps.get(i, 0) + sepss.get(i, 0)
            expect(now[i] == want, 'refcount of key %d: %d, want %d '
                   '(leaf=%d internal=%d)' % (i, now[i], want, leaf,
                                              internal))
        # delete half, check again
        for i in order[:N // 2]:
            del t[keys[i]]
            ts.remove(keys[i])
        t._check()
        ts._check()
        sh, shs = shape(t), shape(ts)
        seps, sepss = count_seps(sh), count_seps(shs)
        del sh, shs
        now = [sys.getrefcount(k) for k in keys]
        gone = set(order[:N // 2])
        for i in range(N):
            want = (base[i] + (0 if i in gone else 2)
                    + seps.get(i, 0) + sepss.get(i, 0))
            expect(now[i] == want, 'refcount after delete, key %d' % i)
        del t, ts
        gc.collect()
        expect([sys.getrefcount(k) for k in keys] == base,
               'all key references released')


# ---------------------------------------------------------------------------
# error paths of BTree_grow that can be provoked from Python

class Boom(Exception):
    pass


class Switch(object):
    def __init__(self):
        self.countdown = 0     # raise on the n-th construction
        self.action = None
        self.made = 0          # constructions seen

    def tick(self):
        self.made += 1
        if self.countdown > 0:
            self.countdown -= 1
            if self.countdown == 0:
                if self.action is not None:
                    self.action()
                else:
                    raise Boom()


def live(cls):
    gc.collect()
    return sum(1 for o in gc.get_objects() if type(o) is cls)


def error_workload(name, rnd):
    m = mod(name)
    sw = Switch()
    BucketBase = getattr(m, name + 'Bucket')
    TreeBase = getattr(m, name + 'BTree')

    class FBucket(BucketBase):
        def __init__(self, *args):
            sw.tick()
            BucketBase.__init__(self, *args)

    class FTree(TreeBase):
        max_leaf_size = 2
        max_internal_size = 2
        _bucket_type = FBucket

        def __init__(self, *args):
            sw.tick()
            TreeBase.__init__(self, *args)

    g = Gen(name, rnd, 500)

    # (1) the very first insert: the leaf factory fails
    t = FTree()
    sw.countdown = 1
    k, v = g.key(), g.value()
    try:
        t[k] = v
        fail('expected Boom from the leaf factory')
    except Boom:
        pass
    expect(len(t) == 0 and list(t.items()) == [] and not t,
           'tree stays empty after failed first insert')
    t._check()
    expect(t.__getstate__() is None, 'empty state after failed first insert')
    model = {}
    t[k] = v
    model[k] = v
    same(t, model, name + ' first insert retried')

    # (2) every later node construction fails once: new leaf sibling, new
    # interior sibling, new child of the root -- at every position n of the
    # constructions done by one insert.  Victim trees are rebuilt by
    # replaying the history, so they have exactly the structure of t.
    history = [(k, v)]

    def replay():
        sw.countdown = 0
        x = FTree()
        for kk, vv in history:
            if vv is None:
                del x[kk]
            else:
                x[kk] = vv
        return x

    failures = 0
    for step in range(50):
        k = g.key()
        while k in model:
            k = g.key()
        v = g.value()
        # how many node constructions does this insert perform?
        probe = replay()
        expect(shape(probe) == shape(t), name + ' replay structure')
        sw.made = 0
        probe[k] = v
        n_made = sw.made
        del probe
        for nth in range(1, n_made + 1):
            victim = replay()
            lb, lt = live(FBucket), live(FTree)
            nb0, nt0 = count_nodes(shape(victim))
            sw.countdown = nth
            try:
                victim[k] = v
                fail('expected Boom at construction %d' % nth)
            except Boom:
                failures += 1
            sw.countdown = 0
            # the key went into its leaf before the split was attempted
            vm = dict(model)
            vm[k] = v
            same(victim, vm, '%s after failed construction %d/%d'
                 % (name, nth, n_made))
            # every node alive is a node of the victim: nothing leaked
            nb, nt = count_nodes(shape(victim))
            expect((live(FBucket) - lb, live(FTree) - lt)
                   == (nb - nb0, nt - nt0),
                   'node leaked or lost by failed construction %d/%d'
                   % (nth, n_made))
            # and it keeps working
            for _ in range(6):
                k2, v2 = g.key(), g.value()
                victim[k2] = v2
                vm[k2] = v2
            same(victim, vm, name + ' victim used again')
            del victim
        t[k] = v
        model[k] = v
        history.append((k, v))
        if step % 3 == 0 and len(model) > 4:
            kk = rnd.choice(sorted(model))
            del t[kk], model[kk]
            history.append((kk, None))
    same(t, model, name + ' error workload')
    expect(failures > 25, 'construction failures exercised: %d' % failures)
    return failures


def count_nodes(sh):
    """(number of leaves, number of interior nodes) of a structure."""
    if sh is None:
        return (0, 1)
    nb, nt = 0, 1
    for x in sh:
        if isinstance(x, list):
            b, t = count_nodes(x)
            nb += b
            nt += t
        elif x[0] == 'leaf':
            nb += 1
    return (nb, nt)


class Jar(object):
    """Minimal stand-in for a ZODB connection."""

    def __init__(self):
        self.broken = False
        self.registered = 0

    def register(self, obj):
        self.registered += 1

    def setstate(self, obj):
        raise Boom('cannot load')


def ghost_workload():
    """PER_USE(child) fails in BTree_grow: the leaf that was just inserted
    into is invalidated (by the constructor of its new sibling) and cannot be
    loaded again."""
    m = mod('LL')
    sw = Switch()

    class FBucket(m.LLBucket):
        def __init__(self, *args):
            sw.tick()
            m.LLBucket.__init__(self, *args)

    class FTree(m.LLBTree):
        max_leaf_size = 2
        max_internal_size = 2
        _bucket_type = FBucket

    t = FTree()
    for i in range(0, 20, 2):
        t[i] = i
    t[1] = 1              # the first leaf now holds (0, 1): it is full
    t._check()
    jar = Jar()
    leaf = t._firstbucket
    expect(list(leaf.keys()) == [0, 1], 'first leaf is full')
    leaf._p_jar = jar
    leaf._p_oid = b'\0' * 7 + b'\1'
    lb = live(FBucket)

    def invalidate():
        leaf._p_invalidate()
    sw.action = invalidate
    sw.countdown = 1
    try:
        t[-1] = -1        # the leaf gets a third key and must be split
        fail('expected Boom from the unloadable leaf')
    except Boom:
        pass
    sw.countdown = 0
    sw.action = None
    expect(live(FBucket) == lb, 'sibling of unloadable leaf released')
    expect(leaf._p_changed is None, 'leaf is a ghost')
    # the rest of the tree is still reachable
    expect(t.get(10) == 10 and t.maxKey() == 18, 'tree usable beyond ghost')
    t[100] = 100
    expect(t.maxKey() == 100, 'tree still growable')


# ---------------------------------------------------------------------------

CHILD = r'''
import resource, sys
from BTrees.LLBTree import LLTreeSet

MB = 1 << 20
HARD = resource.getrlimit(resource.RLIMIT_AS)[1]

def vmsize():
    with open('/proc/self/statm') as f:
        return int(f.read().split()[0]) * resource.getpagesize()

def limit(headroom):
    if headroom is None:
        resource.setrlimit(resource.RLIMIT_AS, (resource.RLIM_INFINITY, HARD))
    else:
        resource.setrlimit(resource.RLIMIT_AS, (vmsize() + headroom, HARD))

class Wide(LLTreeSet):
    max_leaf_size = 1
    max_internal_size = 1 << 30      # the root never splits

def sound(t, n):
    ks = t.keys()
    # (walk forward only: stepping back over leaves is slow)
    if len(t) != n or ks[0] != 0 or ks[n // 2] != n // 2 or ks[n - 1] != n - 1:
        print("FAIL contents", len(t), n); sys.exit(1)
    t._check()

hits = 0
N = 1 << 17                # one leaf per key: the root's vector is full
t = Wide()
t.update(range(N))         # 2**17 leaves of one key each
sound(t, N)
n = N
for headroom in (0, 0, 1, 2, 3, 5):
    limit(headroom * MB)
    try:
        try:
            t.add(n)       # splits the last leaf -> the root must double
            n += 1
        except MemoryError:
            hits += 1
            n = len(t)
    finally:
        limit(None)
    sound(t, n)
for j in range(5):
    t.add(n); n += 1
sound(t, n)
print("child ok, MemoryErrors seen:", hits)
'''


def fault_workload():
    p = subprocess.run([sys.executable, '-c', CHILD], env=dict(os.environ),
                       stdout=subprocess.PIPE, stderr=subprocess.STDOUT,
                       timeout=50)
    out = p.stdout.decode('utf-8', 'replace')
    sys.stdout.write(out)
    expect(p.returncode == 0, 'fault-injection child failed')
    expect('child ok' in out, 'fault-injection child did not finish')


def main():
    for name in FAMILIES:
        m = mod(name)
        expect(getattr(m, name + 'BTree') is not getattr(m, name + 'BTreePy'),
               'C extension for %s is not in use' % name)
    rnd = random.Random(170018)
    for name in FAMILIES:
        structure_workload(name, rnd)
    refcount_workload(rnd)
    total = 0
    for name in ('OO', 'LL', 'fs'):
        total += error_workload(name, rnd)
    print("node construction failures exercised:", total)
    ghost_workload()
    if sys.platform.startswith('linux'):
        fault_workload()
    print("demo u: OK")


if __name__ == '__main__':
    main()
