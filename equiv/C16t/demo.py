"""Differential demo for refactoring t (BucketTemplate.c: _bucket_set and the
two slot helpers bucket_open_slot / bucket_close_slot).

Run as:  PYTHONPATH=<tree>/src /venv/bin/python demo.py

Everything is checked against a plain-Python model (a dict of plain ints and
the sorted list of its keys).  For the object-keyed / object-valued families
the reference count of every pooled key and value object is compared, after
every single operation, with the number of slots the model says hold it.
"""
import gc
import hashlib
import operator
import random
import sys
import weakref

import BTrees
from persistent import Persistent  # noqa: F401  (must be importable)

FAILURES = []


def check(cond, *what):
    if not cond:
        FAILURES.append(what)
        raise AssertionError(what)


def family(name):
    mod = __import__('BTrees.%sBTree' % name, fromlist=['x'])
    pre = name
    return (getattr(mod, pre + 'Bucket'), getattr(mod, pre + 'Set'),
            getattr(mod, pre + 'BTree'), getattr(mod, pre + 'TreeSet'))


C_FAMILIES = ['OO', 'IO', 'OI', 'II', 'LL', 'LF', 'IF', 'UU', 'QQ', 'LO',
              'OL', 'OQ', 'UO', 'QF', 'fs']

# make sure we are really exercising the C implementation
for _n in C_FAMILIES:
    _B = family(_n)[0]
    check(not _B.__name__.endswith('Py'), 'C extension not in use', _n)
    check(type(_B).__module__ != 'BTrees._base', _n)


# ---------------------------------------------------------------------------
# key / value universes
# ---------------------------------------------------------------------------
class K(object):
    """Orderable key object; comparison can be made to fail on demand."""
    boom = False
    ncmp = 0
    __slots__ = ('n', '__weakref__')

    def __init__(self, n):
        self.n = n

    def _chk(self):
        K.ncmp += 1
        if K.boom:
            raise RuntimeError('comparison failed')

    def __lt__(self, other):
        self._chk()
        return self.n < other.n

    def __eq__(self, other):
        self._chk()
        return isinstance(other, K) and self.n == other.n

    def __hash__(self):
        return hash(self.n)

    def __repr__(self):
        return 'K(%d)' % self.n


class V(object):
    __slots__ = ('n', '__weakref__')

    def __init__(self, n):
        self.n = n

    def __repr__(self):
        return 'V(%d)' % self.n


NKEYS = 40
NVALS = 12
KPOOL = [K(i) for i in range(NKEYS)]
VPOOL = [V(i) for i in range(NVALS)]


def mk_key(letter, i):
    """the key object for model key i (0 <= i < NKEYS)"""
    if letter == 'O':
        return KPOOL[i]
    if letter == 'f':
        return bytes([65 + i // 7, 65 + i % 7])
    if letter in 'UQ':
        return i * 3
    return i * 3 - 50


def mk_val(letter, j):
    if letter == 'O':
        return VPOOL[j]
    if letter == 's':
        return bytes([97 + j]) * 6
    if letter == 'F':
        return j * 0.5
    if letter in 'UQ':
        return j * 7
    return j * 7 - 30


def bad_keys(letter):
    if letter == 'O':
        return [object()]          # default comparison: rejected on insert
    if letter == 'f':
        return [b'abc', 'ab', 5]
    out = ['x', 1.5, None]
    if letter in 'IU':
        out.append(2 ** 40)
    if letter in 'UQ':
        out.append(-1)
    if letter in 'LQ':
        out.append(2 ** 70)
    return out


def bad_vals(letter):
    if letter == 'O':
        return []
    if letter == 's':
        return [b'12345', 'abcdef', 7]
    if letter == 'F':
        return ['x', None]
    out = ['x', 1.5, None]
    if letter in 'IU':
        out.append(2 ** 40)
    if letter in 'UQ':
        out.append(-1)
    return out


def same_value_short_circuits(letter):
    # VALUE_SAME is defined for the int and float value families only
    return letter in 'ILUQF'


# ---------------------------------------------------------------------------
# reference-count bookkeeping
# ---------------------------------------------------------------------------
def rc_snapshot():
    return ([sys.getrefcount(k) for k in KPOOL],
            [sys.getrefcount(v) for v in VPOOL])


class Tracker(object):
    """expected number of references the containers hold on pool objects"""

    def __init__(self):
        self.base = rc_snapshot()

    def verify(self, kcount, vcount, where, live=()):
        # every object in `live` is held twice more by the caller: once by
        # a local variable and once by the tuple `live` itself
        kcount = dict(kcount)
        vcount = dict(vcount)
        o = None
        for o in live:
            if type(o) is K:
                kcount[o.n] = kcount.get(o.n, 0) + 2
            elif type(o) is V:
                vcount[o.n] = vcount.get(o.n, 0) + 2
        del o       # (the loop variable is a reference too)
        now = rc_snapshot()
        for i in range(NKEYS):
            check(now[0][i] - self.base[0][i] == kcount.get(i, 0),
                  'key refcount', where, i, now[0][i] - self.base[0][i],
                  kcount.get(i, 0))
        for j in range(NVALS):
            check(now[1][j] - self.base[1][j] == vcount.get(j, 0),
                  'value refcount', where, j, now[1][j] - self.base[1][j],
                  vcount.get(j, 0))


# ---------------------------------------------------------------------------
# a tiny stand-in jar
# ---------------------------------------------------------------------------
class Jar(object):
    def __init__(self):
        self.registered = []
        self.fail_register = False
        self.fail_setstate = False
        self.states = {}
        self.nload = 0

    def register(self, obj):
        if self.fail_register:
            raise RuntimeError('register refused')
        self.registered.append(obj._p_oid)

    def setstate(self, obj):
        if self.fail_setstate:
            raise RuntimeError('cannot load')
        self.nload += 1
        obj.__setstate__(self.states[obj._p_oid])

    def readCurrent(self, obj):
        pass


def expect_exc(exc, f, *a):
    try:
        f(*a)
    except exc as e:
        return e
    except BaseException as e:   # pragma: no cover
        check(False, 'wrong exception', type(e), e, exc)
    check(False, 'no exception', exc, f, a)


# ---------------------------------------------------------------------------
# 1.  Bucket (mapping) against a dict, every operation verified
# ---------------------------------------------------------------------------
def expected_bucket_state(kl, vl, model):
    flat = []
    for i in sorted(model):
        flat.append(mk_key(kl, i))
        flat.append(mk_val(vl, model[i]))
    return tuple(flat)


def verify_bucket(b, kl, vl, model, where):
    ks = sorted(model)
    check(len(b) == len(ks), 'len', where, len(b), len(ks))
    items = list(b.items())
    check(len(items) == len(ks), 'items len', where)
    for (k, v), i in zip(items, ks):
        ek, ev = mk_key(kl, i), mk_val(vl, model[i])
        if kl == 'O':
            check(k is ek, 'key identity', where, k, ek)
        else:
            check(k == ek and type(k) is type(ek), 'key', where, k, ek)
        if vl == 'O':
            check(v is ev, 'value identity', where, v, ev)
        else:
            check(v == ev and type(v) is type(ev), 'value', where, v, ev)
    st = b.__getstate__()
    if ks:
        check(st == (expected_bucket_state(kl, vl, model),), 'state', where,
              st)
    else:
        check(st == ((),), 'empty state', where, st)


def run_bucket(fam, rng, nops, with_jar):
    kl, vl = fam[0], fam[1]
    Bucket = family(fam)[0]
    b = Bucket()
    jar = None
    if with_jar:
        jar = Jar()
        b._p_jar = jar
        b._p_oid = b'\0' * 7 + b'\1'
        check(b._p_changed is False, 'fresh state')
    model = {}
    tr = Tracker()
    dig = hashlib.sha256()
    cur = [()]      # the key and value objects the current step holds

    def counts():
        kc = {}
        vc = {}
        if kl == 'O':
            for i in model:
                kc[i] = kc.get(i, 0) + 1
        if vl == 'O':
            for i in model:
                vc[model[i]] = vc.get(model[i], 0) + 1
        return kc, vc

    def after(where, mutated):
        verify_bucket(b, kl, vl, model, where)
        tr.verify(*counts(), where=where, live=cur[0])
        if jar is not None:
            check(bool(b._p_changed) == bool(mutated), '_p_changed', where,
                  b._p_changed, mutated)
            check(len(jar.registered) == (1 if mutated else 0), 'register',
                  where, jar.registered)
            b._p_changed = False
            del jar.registered[:]
        if 'O' not in fam:
            dig.update(repr(b.__getstate__()).encode())

    for step in range(nops):
        where = (fam, 'bucket', step)
        i = rng.randrange(NKEYS)
        j = rng.randrange(NVALS)
        k = mk_key(kl, i)
        v = mk_val(vl, j)
        cur[0] = (k, v)
        op = rng.choice(['set', 'set', 'set', 'del', 'del', 'setdefault',
                         'pop', 'popdef', 'update', 'badkey', 'badval',
                         'cmpfail', 'same', 'regfail', 'drain'])
        if op == 'set':
            mutated = not (i in model and model[i] == j
                           and same_value_short_circuits(vl))
            b[k] = v
            model[i] = j
            after(where + (op,), mutated)
        elif op == 'same':
            # store again exactly what is there already
            if not model:
                continue
            i = rng.choice(sorted(model))
            b[mk_key(kl, i)] = mk_val(vl, model[i])
            after(where + (op,), not same_value_short_circuits(vl))
        elif op == 'del':
            if i in model:
                del b[k]
                del model[i]
                after(where + (op,), True)
            else:
                e = expect_exc(KeyError, b.__delitem__, k)
                if kl == 'O':
                    check(e.args[0] is k, 'KeyError arg', where)
                else:
                    check(e.args == (k,), 'KeyError arg', where, e.args)
                del e
                after(where + (op, 'missing'), False)
        elif op == 'setdefault':
            r = b.setdefault(k, v)
            if i in model:
                check(r == mk_val(vl, model[i]), 'setdefault', where)
                mutated = False
            else:
                check(r == v, 'setdefault new', where)
                model[i] = j
                mutated = True
            del r
            after(where + (op,), mutated)
        elif op == 'pop':
            if i in model:
                r = b.pop(k)
                check(r == mk_val(vl, model[i]), 'pop', where)
                if vl == 'O':
                    check(r is mk_val(vl, model[i]), 'pop identity', where)
                del r
                del model[i]
                after(where + (op,), True)
            else:
                e = expect_exc(KeyError, b.pop, k)
                del e
                after(where + (op, 'missing'), False)
        elif op == 'popdef':
            marker = object()
            r = b.pop(k, marker)
            if i in model:
                check(r == mk_val(vl, model[i]), 'pop', where)
                del model[i]
                mutated = True
            else:
                check(r is marker, 'pop default', where)
                mutated = False
            del r
            after(where + (op,), mutated)
        elif op == 'update':
            pairs = [(rng.randrange(NKEYS), rng.randrange(NVALS))
                     for _ in range(rng.randrange(1, 6))]
            mutated = False
            for (pi, pj) in pairs:
                if not (pi in model and model[pi] == pj
                        and same_value_short_circuits(vl)):
                    mutated = True
                model[pi] = pj
            b.update([(mk_key(kl, pi), mk_val(vl, pj)) for pi, pj in pairs])
            after(where + (op,), mutated)
        elif op == 'badkey':
            for bk in bad_keys(kl):
                e = expect_exc(TypeError, b.__setitem__, bk, v)
                del e
                after(where + (op, 'set'), False)
                if kl != 'O':
                    e = expect_exc(TypeError, b.__delitem__, bk)
                    del e
                    after(where + (op, 'del'), False)
            if kl == 'O' and not model:
                # deleting skips the default-comparison check: plain KeyError
                o = object()
                e = expect_exc(KeyError, b.__delitem__, o)
                check(e.args[0] is o, 'KeyError arg')
                del e
                after(where + (op, 'del'), False)
        elif op == 'badval':
            for bv in bad_vals(vl):
                e = expect_exc(TypeError, b.__setitem__, k, bv)
                del e
                after(where + (op,), False)
        elif op == 'cmpfail':
            if kl != 'O' or not model:
                continue
            K.boom = True
            try:
                e = expect_exc(RuntimeError, b.__setitem__, k, v)
                del e
                e = expect_exc(RuntimeError, b.__delitem__, k)
                del e
                e = expect_exc(RuntimeError, b.setdefault, k, v)
                del e
            finally:
                K.boom = False
            after(where + (op,), False)
        elif op == 'regfail':
            # the jar refuses the registration: the exception comes out, the
            # mutation has been made all the same, the object is not marked
            if jar is None:
                continue
            jar.fail_register = True
            try:
                if i in model and rng.random() < 0.5:
                    e = expect_exc(RuntimeError, b.__delitem__, k)
                    del model[i]
                elif i in model and model[i] == j \
                        and same_value_short_circuits(vl):
                    b[k] = v        # nothing to register
                    e = None
                else:
                    e = expect_exc(RuntimeError, b.__setitem__, k, v)
                    model[i] = j
                del e
            finally:
                jar.fail_register = False
            after(where + (op,), False)
        elif op == 'drain':
            # empty the bucket completely (the vectors are given back), in a
            # random order, then refill a little
            if rng.random() < 0.7:
                continue
            order = sorted(model)
            rng.shuffle(order)
            for di in order:
                del b[mk_key(kl, di)]
                del model[di]
                after(where + (op, di), True)
            check(len(b) == 0 and not model, 'drained')
            for di in rng.sample(range(NKEYS), 5):
                b[mk_key(kl, di)] = v
                model[di] = j
                after(where + (op, 'refill', di), True)
    # final: clear releases everything
    del k, v
    cur[0] = ()
    had = bool(model)
    b.clear()
    model.clear()
    after((fam, 'bucket', 'clear'), had)
    del b
    gc.collect()
    tr.verify({}, {}, (fam, 'bucket', 'end'))
    return dig.hexdigest()


# ---------------------------------------------------------------------------
# 2.  Set buckets
# ---------------------------------------------------------------------------
def run_set(fam, rng, nops, with_jar):
    kl = fam[0]
    Set = family(fam)[1]
    s = Set()
    jar = None
    if with_jar:
        jar = Jar()
        s._p_jar = jar
        s._p_oid = b'\0' * 7 + b'\2'
    model = set()
    tr = Tracker()
    dig = hashlib.sha256()
    cur = [()]

    def after(where, mutated):
        ks = sorted(model)
        check(len(s) == len(ks), 'set len', where)
        got = list(s.keys())
        g = None
        for g, i in zip(got, ks):
            if kl == 'O':
                check(g is mk_key(kl, i), 'set key identity', where)
            else:
                check(g == mk_key(kl, i), 'set key', where)
        check(len(got) == len(ks), 'set keys len', where)
        st = s.__getstate__()
        check(st == (tuple(mk_key(kl, i) for i in ks),), 'set state', where)
        del got, st, g
        tr.verify(dict((i, 1) for i in model) if kl == 'O' else {}, {},
                  where, live=cur[0])
        if jar is not None:
            if mutated is not None:
                check(bool(s._p_changed) == bool(mutated), 'set _p_changed',
                      where, s._p_changed, mutated)
            s._p_changed = False
            del jar.registered[:]
        if kl != 'O':
            dig.update(repr(s.__getstate__()).encode())

    for step in range(nops):
        where = (fam, 'set', step)
        i = rng.randrange(NKEYS)
        k = mk_key(kl, i)
        cur[0] = (k,)
        op = rng.choice(['add', 'add', 'insert', 'remove', 'discard',
                         'update', 'pop', 'isub', 'ixor', 'ior', 'iand',
                         'badkey', 'cmpfail'])
        if op in ('add', 'insert'):
            r = getattr(s, op)(k)
            check(r == (0 if i in model else 1), op, where, r)
            mutated = i not in model
            model.add(i)
            after(where + (op,), mutated)
        elif op == 'remove':
            if i in model:
                s.remove(k)
                model.discard(i)
                after(where + (op,), True)
            else:
                e = expect_exc(KeyError, s.remove, k)
                del e
                after(where + (op, 'missing'), False)
        elif op == 'discard':
            s.discard(k)
            mutated = i in model
            model.discard(i)
            after(where + (op,), mutated)
        elif op == 'update':
            idx = [rng.randrange(NKEYS) for _ in range(rng.randrange(1, 7))]
            r = s.update([mk_key(kl, x) for x in idx])
            check(r == len(set(idx) - model), 'update count', where, r)
            mutated = bool(set(idx) - model)
            model.update(idx)
            after(where + (op,), mutated)
        elif op == 'pop':
            if model:
                r = s.pop()
                check(r == mk_key(kl, min(model)), 'set pop', where)
                del r
                model.discard(min(model))
                after(where + (op,), True)
            else:
                e = expect_exc(KeyError, s.pop)
                del e
                after(where + (op, 'empty'), False)
        elif op in ('isub', 'ixor', 'ior', 'iand'):
            idx = set(rng.randrange(NKEYS) for _ in range(rng.randrange(0, 8)))
            other = [mk_key(kl, x) for x in sorted(idx)]
            rng.shuffle(other)
            before = set(model)
            s0 = s
            if op == 'isub':
                s -= other
                model -= idx
            elif op == 'ixor':
                s ^= other
                model ^= idx
            elif op == 'ior':
                s |= other
                model |= idx
            else:
                s &= Set(other)
                model &= idx
            check(s is s0, 'in-place identity', where)
            del s0, other
            # (&= is not built on _bucket_set, and marks the set changed
            # whenever the result is non-empty: not checked here)
            after(where + (op,), None if op == 'iand' else before != model)
        elif op == 'badkey':
            for bk in bad_keys(kl):
                e = expect_exc(TypeError, s.add, bk)
                del e
                after(where + (op, 'add'), False)
                if kl != 'O':
                    e = expect_exc((TypeError, KeyError), s.remove, bk)
                    del e
                    after(where + (op, 'remove'), False)
        elif op == 'cmpfail':
            if kl != 'O' or not model:
                continue
            K.boom = True
            try:
                e = expect_exc(RuntimeError, s.add, k)
                del e
                e = expect_exc(RuntimeError, s.remove, k)
                del e
                e = expect_exc(RuntimeError, s.discard, k)
                del e
            finally:
                K.boom = False
            after(where + (op,), False)
    del k
    cur[0] = ()
    s.clear()
    had = bool(model)
    model.clear()
    after((fam, 'set', 'clear'), had)
    del s
    gc.collect()
    tr.verify({}, {}, (fam, 'set', 'end'))
    return dig.hexdigest()


# ---------------------------------------------------------------------------
# 3.  trees with tiny nodes: _bucket_set reached through _BTree_set
# ---------------------------------------------------------------------------
def structure(node):
    """the persistent state of a node, nested nodes expanded, as plain data
    (no object addresses in its repr)"""
    st = node.__getstate__()
    if st is None:
        return None
    out = []
    for part in st:
        if isinstance(part, tuple):
            out.append(tuple(structure(x) if hasattr(x, '__getstate__')
                             and hasattr(x, '_p_jar') else x for x in part))
        elif hasattr(part, '_p_jar'):
            # the first bucket / the next bucket: only name its first key
            out.append(('->', part.minKey() if len(part) else None))
        else:
            out.append(part)
    return tuple(out)


def run_tree(fam, rng, nops):
    kl, vl = fam[0], fam[1]
    BTree = family(fam)[2]

    class Small(BTree):
        max_leaf_size = 4
        max_internal_size = 3

    t = Small()
    model = {}
    tr = Tracker()
    dig = hashlib.sha256()

    def verify(where):
        ks = sorted(model)
        check(len(t) == len(ks), 'tree len', where)
        items = list(t.items())
        check(len(items) == len(ks), 'tree items', where)
        for (k, v), i in zip(items, ks):
            check(k == mk_key(kl, i) if kl != 'O' else k is mk_key(kl, i),
                  'tree key', where)
            check(v == mk_val(vl, model[i]) if vl != 'O'
                  else v is mk_val(vl, model[i]), 'tree value', where)
        del items
        t._check()
        if 'O' not in fam:
            dig.update(repr(structure(t)).encode())

    for step in range(nops):
        where = (fam, 'tree', step)
        i = rng.randrange(NKEYS)
        j = rng.randrange(NVALS)
        k, v = mk_key(kl, i), mk_val(vl, j)
        op = rng.choice(['set', 'set', 'insert', 'del', 'del', 'pop',
                         'setdefault', 'badkey', 'badval', 'cmpfail'])
        if op == 'set':
            t[k] = v
            model[i] = j
        elif op == 'insert':
            r = t.insert(k, v)
            check(r == (0 if i in model else 1), 'insert', where, r)
            model.setdefault(i, j)
        elif op == 'del':
            if i in model:
                del t[k]
                del model[i]
            else:
                e = expect_exc(KeyError, t.__delitem__, k)
                del e
        elif op == 'pop':
            marker = object()
            r = t.pop(k, marker)
            if i in model:
                check(r == mk_val(vl, model.pop(i)), 'tree pop', where)
            else:
                check(r is marker, 'tree pop default', where)
            del r
        elif op == 'setdefault':
            r = t.setdefault(k, v)
            check(r == mk_val(vl, model.setdefault(i, j)), 'tree setdefault',
                  where)
            del r
        elif op == 'badkey':
            for bk in bad_keys(kl):
                e = expect_exc(TypeError, t.__setitem__, bk, v)
                del e
        elif op == 'badval':
            for bv in bad_vals(vl):
                e = expect_exc(TypeError, t.__setitem__, k, bv)
                del e
        elif op == 'cmpfail':
            if kl != 'O' or not model:
                continue
            K.boom = True
            try:
                e = expect_exc(RuntimeError, t.__setitem__, k, v)
                del e
                e = expect_exc(RuntimeError, t.__delitem__, k)
                del e
            finally:
                K.boom = False
        verify(where + (op,))
    del k, v
    t.clear()
    model.clear()
    verify((fam, 'tree', 'clear'))
    del t
    gc.collect()
    tr.verify({}, {}, (fam, 'tree', 'end'))
    return dig.hexdigest()


def run_treeset(fam, rng, nops):
    kl = fam[0]
    TreeSet = family(fam)[3]

    class Small(TreeSet):
        max_leaf_size = 3
        max_internal_size = 2

    t = Small()
    model = set()
    tr = Tracker()
    for step in range(nops):
        where = (fam, 'treeset', step)
        i = rng.randrange(NKEYS)
        k = mk_key(kl, i)
        op = rng.choice(['add', 'add', 'remove', 'discard', 'update'])
        if op == 'add':
            r = t.add(k)
            check(r == (0 if i in model else 1), 'treeset add', where)
            model.add(i)
        elif op == 'remove':
            if i in model:
                t.remove(k)
                model.discard(i)
            else:
                e = expect_exc(KeyError, t.remove, k)
                del e
        elif op == 'discard':
            t.discard(k)
            model.discard(i)
        else:
            idx = [rng.randrange(NKEYS) for _ in range(rng.randrange(1, 5))]
            r = t.update([mk_key(kl, x) for x in idx])
            check(r == len(set(idx) - model), 'treeset update', where)
            model.update(idx)
        got = list(t.keys())
        check(got == [mk_key(kl, x) for x in sorted(model)], 'treeset keys',
              where)
        del got
        t._check()
    t.clear()
    del t, k
    gc.collect()
    tr.verify({}, {}, (fam, 'treeset', 'end'))


# ---------------------------------------------------------------------------
# 4.  the released key / value never sees a half-updated bucket
# ---------------------------------------------------------------------------
def run_finalizers():
    from BTrees.OOBTree import OOBucket, OOSet
    seen = []

    class Watch(object):
        def __init__(self, n, box):
            self.n = n
            self.box = box

        def __lt__(self, other):
            return self.n < other.n

        def __eq__(self, other):
            return self.n == other.n

        def __hash__(self):
            return self.n

        def __del__(self):
            b = self.box[0]
            if b is None:
                return
            if hasattr(b, 'items'):
                seen.append(('del', self.n,
                             [(k.n, getattr(v, 'n', v)) for k, v in b.items()],
                             len(b)))
            else:
                seen.append(('del', self.n, [k.n for k in b.keys()], len(b)))

    box = [None]

    def probe(n):
        # a key for looking up:  its own death is not recorded
        return Watch(n, [None])

    b = OOBucket()
    box[0] = b
    for n in range(6):
        b[Watch(n, box)] = Watch(100 + n, box)
    # replace a value: the old value dies, and sees the new one in place
    b[probe(2)] = 'new'
    check([s[1] for s in seen] == [102], 'old value finalized', seen)
    rec = [s for s in seen if s[1] == 102][0]
    check(rec[2] == [(0, 100), (1, 101), (2, 'new'), (3, 103), (4, 104),
                     (5, 105)] and rec[3] == 6, 'replace view', rec)
    del seen[:]
    # delete in the middle: key and value die after the slot is closed
    del b[probe(3)]
    recs = sorted(s for s in seen if s[1] in (3, 103))
    check([r[1] for r in recs] == [3, 103], 'both finalized', seen)
    for r in recs:
        check(r[2] == [(0, 100), (1, 101), (2, 'new'), (4, 104), (5, 105)]
              and r[3] == 5, 'delete view', r)
    del seen[:]
    # delete the last one, then the first one, then all
    del b[probe(5)]
    check([s for s in seen if s[1] == 5][0][2] ==
          [(0, 100), (1, 101), (2, 'new'), (4, 104)], 'delete last', seen)
    del b[probe(0)]
    del b[probe(1)]
    del b[probe(2)]
    del seen[:]
    del b[probe(4)]
    recs = [s for s in seen if s[1] in (4, 104)]
    check(len(recs) == 2 and all(r[2] == [] and r[3] == 0 for r in recs),
          'delete only entry', seen)
    check(b.__getstate__() == ((),), 'empty again')
    b[Watch(9, box)] = 1          # the bucket is usable again after that
    check(len(b) == 1)
    box[0] = None
    del b

    del seen[:]
    s = OOSet()
    box[0] = s
    for n in range(5):
        s.add(Watch(n, box))
    s.remove(probe(1))
    check([r for r in seen if r[1] == 1 and r[2] == [0, 2, 3, 4]
           and r[3] == 4], 'set remove view', seen)
    box[0] = None
    del s
    gc.collect()


# ---------------------------------------------------------------------------
# 5.  ghosts:  a bucket that cannot be loaded is not touched
# ---------------------------------------------------------------------------
def run_ghosts():
    for fam in ('OO', 'II', 'LF', 'fs'):
        kl, vl = fam
        Bucket, Set = family(fam)[:2]
        tr = Tracker()
        jar = Jar()
        b = Bucket()
        model = {}
        for i in (3, 9, 17, 21):
            b[mk_key(kl, i)] = mk_val(vl, i % NVALS)
            model[i] = i % NVALS
        oid = b'\0' * 7 + b'\7'
        jar.states[oid] = b.__getstate__()
        b._p_jar = jar
        b._p_oid = oid
        b._p_deactivate()
        check(b._p_changed is None, 'ghost', fam)
        jar.fail_setstate = True
        k, v = mk_key(kl, 5), mk_val(vl, 1)
        e = expect_exc(RuntimeError, operator.setitem, b, k, v)
        del e
        e = expect_exc(RuntimeError, operator.delitem, b, mk_key(kl, 3))
        del e
        check(b._p_changed is None, 'still a ghost', fam)
        check(jar.registered == [], 'nothing registered', fam)
        jar.fail_setstate = False
        # conversion errors are reported before the bucket is even loaded
        for bk in bad_keys(kl):
            e = expect_exc(TypeError, operator.setitem, b, bk, v)
            del e
        for bv in bad_vals(vl):
            e = expect_exc(TypeError, operator.setitem, b, k, bv)
            del e
        check(b._p_changed is None and jar.nload == 0, 'not loaded', fam)
        b[k] = v
        model[5] = 1
        check(jar.nload == 1 and b._p_changed and jar.registered == [oid],
              'loaded and changed', fam)
        verify_bucket(b, kl, vl, model, (fam, 'ghost'))
        del b[mk_key(kl, 3)]
        del model[3]
        verify_bucket(b, kl, vl, model, (fam, 'ghost', 2))
        jar.states.clear()
        b._p_changed = False
        del b, k, v
        gc.collect()
        tr.verify({}, {}, (fam, 'ghost', 'end'))


def main():
    results = {}
    for n, fam in enumerate(C_FAMILIES):
        rng = random.Random(1000 + n)
        results[fam + ':bucket'] = run_bucket(fam, rng, 700, with_jar=False)
        results[fam + ':bucket+jar'] = run_bucket(fam, rng, 500,
                                                  with_jar=True)
        if fam != 'fs':
            # (fs sets exist too, but they take the same code path)
            results[fam + ':set'] = run_set(fam, rng, 500, with_jar=False)
            results[fam + ':set+jar'] = run_set(fam, rng, 300, with_jar=True)
        results[fam + ':tree'] = run_tree(fam, rng, 600)
        if fam in ('OO', 'II', 'LL', 'UU'):
            run_treeset(fam, rng, 500)
    run_finalizers()
    run_ghosts()
    h = hashlib.sha256()
    for name in sorted(results):
        h.update(('%s=%s\n' % (name, results[name])).encode())
    total = h.hexdigest()
    if '--print-digest' in sys.argv:
        print(total)
        return 0
    check(total == EXPECTED_TOTAL, 'state history digest differs', total)
    print('OK', total[:16], 'comparisons:', K.ncmp)
    return 0


EXPECTED_TOTAL = (
    'ff11d4ffc55053d7f9fdf4ffa2352df90cb749297e149562939fba1670862926')

if __name__ == '__main__':
    sys.exit(main())
