"""Differential demo for refactoring t (C13): 32-bit integer *key* conversion.

Exercises COPY_KEY_FROM_ARG of the int-key families (signed: II IO IF IU,
unsigned: UU UO UF UI; 64-bit LO/QO as a control) through every place the
templates use it: item assignment, insert, setdefault, update, constructors,
add, __setstate__, lookups, deletions, range searches and the set operations
that consume arbitrary iterables.

Run:  PYTHONPATH=<tree>/src python demo.py      (exit status 0 == OK)
"""
import gc
import importlib
import random
import sys

FAILURES = []


def check(cond, *what):
    if not cond:
        FAILURES.append(' '.join(str(w) for w in what))
        if len(FAILURES) > 30:
            finish()


def finish():
    if FAILURES:
        for f in FAILURES:
            print('FAIL:', f)
        print('%d failure(s)' % len(FAILURES))
        sys.exit(1)
    print('OK')
    sys.exit(0)


class Idx:
    """Has __index__, but is not an int: the C code must refuse it."""

    def __init__(self, v):
        self.v = v

    def __index__(self):
        return self.v


class MyInt(int):
    pass


SIGNED32 = (-2 ** 31, 2 ** 31 - 1)
UNSIGNED32 = (0, 2 ** 32 - 1)
SIGNED64 = (-2 ** 63, 2 ** 63 - 1)
UNSIGNED64 = (0, 2 ** 64 - 1)

# family -> (key range, 32-bit?, signed?)
FAMILIES = {
    'II': (SIGNED32, True, True), 'IO': (SIGNED32, True, True),
    'IF': (SIGNED32, True, True), 'IU': (SIGNED32, True, True),
    'UU': (UNSIGNED32, True, False), 'UO': (UNSIGNED32, True, False),
    'UF': (UNSIGNED32, True, False), 'UI': (UNSIGNED32, True, False),
    'LO': (SIGNED64, False, True), 'QO': (UNSIGNED64, False, False),
}

BOUNDARY = sorted({
    s * (2 ** e) + d
    for e in (0, 7, 8, 15, 16, 31, 32, 33, 62, 63, 64, 65, 100)
    for s in (1, -1)
    for d in (-2, -1, 0, 1, 2)
} | {0, 1, -1, 10 ** 30, -10 ** 30})

NON_INTS = [1.0, 0.0, float('nan'), float('inf'), '1', 'a', b'ab', b'', None,
            (1,), object(), Idx(1), 2 + 0j]


def c_key_message(fam, k):
    """The exact TypeError text the C conversion produces, None if accepted."""
    (lo, hi), is32, signed = FAMILIES[fam]
    if not isinstance(k, int):
        return 'expected integer key'
    if is32:
        if not (-2 ** 63 <= k <= 2 ** 63 - 1):
            return 'integer out of range'       # PyLong_AsLong overflowed
        if not signed and k < 0:
            return "can't convert negative value to unsigned int"
        if not (lo <= k <= hi):
            return 'integer out of range'
        return None
    if signed:
        if not (lo <= k <= hi):
            return "couldn't convert integer to C long long"
        return None
    if k < 0:
        # PyLong_AsUnsignedLongLong raises OverflowError for negatives
        # ("can't convert negative int to unsigned"), translated to TypeError
        return 'overflow error converting int to C long long'
    if k > hi:
        return 'overflow error converting int to C long long'
    return None


def representable(fam, k):
    (lo, hi), _, _ = FAMILIES[fam]
    return isinstance(k, int) and lo <= k <= hi


def value_for(fam, n):
    v = fam[1]
    if v == 'O':
        return 'v%d' % n
    if v == 'F':
        return float(n % 1000) + 0.5
    return n % 1000


def get_classes(fam, py):
    mod = importlib.import_module('BTrees.%sBTree' % fam)
    sfx = 'Py' if py else ''
    return tuple(getattr(mod, fam + kind + sfx)
                 for kind in ('BTree', 'Bucket', 'TreeSet', 'Set')), mod


def small(cls):
    if 'Bucket' in cls.__name__ or cls.__name__.replace('Py', '')[2:] == 'Set':
        return cls
    return type(cls.__name__ + 'Small', (cls,),
                {'max_leaf_size': 4, 'max_internal_size': 3})


def raises(exc, f, *a, **kw):
    try:
        r = f(*a, **kw)
    except exc as e:
        return e
    except BaseException as e:  # noqa
        return ('WRONG', e)
    return ('NOEXC', r)


def expect_typeerror(tag, is_c, msg, f, *a, **kw):
    e = raises(TypeError, f, *a, **kw)
    check(isinstance(e, TypeError), tag, 'expected TypeError, got', repr(e))
    if is_c and isinstance(e, TypeError) and msg is not None:
        check(str(e) == msg, tag, 'message', repr(str(e)), '!=', repr(msg))


def snapshot(c, mapping):
    return list(c.items()) if mapping else list(c)


def exercise_one(fam, py):
    (BTree, Bucket, TreeSet, Set), mod = get_classes(fam, py)
    is_c = not py
    seed_keys = [k for k in (0, 1, 3, 5, 7, 11, 200, 70000, 2 ** 31 - 1)
                 if representable(fam, k)]
    for cls in (small(BTree), Bucket, small(TreeSet), Set):
        mapping = cls.__name__[2:].startswith(('BTree', 'Bucket'))
        tag0 = cls.__name__

        def fresh():
            if mapping:
                return cls([(k, value_for(fam, k)) for k in seed_keys])
            return cls(seed_keys)

        def one_key(k):
            tag = '%s key=%r' % (tag0, k)
            ok = representable(fam, k)
            msg = c_key_message(fam, k)
            check((msg is None) == ok, tag, 'model inconsistency')
            c = fresh()
            before = snapshot(c, mapping)
            if not ok:
                # --- every writer refuses, and leaves the container alone
                if mapping:
                    v = value_for(fam, 1)
                    expect_typeerror(tag + ' setitem', is_c, msg,
                                     c.__setitem__, k, v)
                    expect_typeerror(tag + ' setdefault', is_c, msg,
                                     c.setdefault, k, v)
                    expect_typeerror(tag + ' update', is_c, msg,
                                     c.update, [(2, value_for(fam, 2)),
                                                (k, v)])
                    if hasattr(c, 'insert'):
                        expect_typeerror(tag + ' insert', is_c, msg,
                                         c.insert, k, v)
                    expect_typeerror(tag + ' ctor', is_c, msg, cls, [(k, v)])
                    try:
                        hash(k)
                    except TypeError:
                        pass
                    else:
                        if k == k:
                            expect_typeerror(tag + ' ctor-dict', is_c, msg,
                                             cls, {k: v})
                    expect_typeerror(tag + ' pop', is_c, msg, c.pop, k, None)
                else:
                    expect_typeerror(tag + ' add', is_c, msg, c.add, k)
                    expect_typeerror(tag + ' update', is_c, msg,
                                     c.update, [2, k])
                    expect_typeerror(tag + ' ctor', is_c, msg, cls, [k])
                    expect_typeerror(tag + ' remove', is_c, msg, c.remove, k)
                expect_typeerror(tag + ' del', is_c, msg,
                                 getattr(c, '__delitem__', None) or c.remove,
                                 k)
                # update() got as far as key 2 before failing - that is fine
                # and identical in both trees; undo it for the comparison.
                if 2 not in seed_keys:
                    if mapping:
                        c.pop(2, None)
                    elif 2 in c:
                        c.remove(2)
                check(snapshot(c, mapping) == before, tag,
                      'container changed by a rejected write')
                # --- lookups just report absence
                check((k in c) is False, tag, 'in')
                check(c.has_key(k) in (False, 0), tag, 'has_key')
                if mapping:
                    check(c.get(k, 'dflt') == 'dflt', tag, 'get')
                    e = raises(KeyError, c.__getitem__, k)
                    check(isinstance(e, KeyError), tag, 'getitem', repr(e))
                # --- range searches refuse it
                if k is not None:
                    expect_typeerror(tag + ' keys(min)', is_c, msg,
                                     lambda: list(c.keys(k)))
                    expect_typeerror(tag + ' keys(max)', is_c, msg,
                                     lambda: list(c.keys(None, k)))
                    expect_typeerror(tag + ' minKey', is_c, msg, c.minKey, k)
                    expect_typeerror(tag + ' maxKey', is_c, msg, c.maxKey, k)
                    if mapping:
                        expect_typeerror(tag + ' items(min)', is_c, msg,
                                         lambda: list(c.items(k)))
                        expect_typeerror(tag + ' values(max)', is_c, msg,
                                         lambda: list(c.values(None, k)))
                # --- state loading (C validates every key)
                if is_c and cls in (Bucket, Set):
                    st = ((1, value_for(fam, 1), k, value_for(fam, 2)),) \
                        if mapping else ((1, k),)
                    expect_typeerror(tag + ' setstate', is_c, msg,
                                     cls().__setstate__, st)
            else:
                ik = int(k)
                expected = dict.fromkeys(seed_keys)
                # --- writers accept and the key reads back exactly
                if mapping:
                    v = value_for(fam, 77)
                    present = ik in expected
                    c.__setitem__(k, v)
                    check(c[k] == v and c[ik] == v, tag, 'setitem readback')
                    check(c.setdefault(k, value_for(fam, 78)) == v, tag,
                          'setdefault existing')
                    c2 = fresh()
                    r = c2.setdefault(k, v)
                    check(r == (value_for(fam, ik) if present else v), tag,
                          'setdefault', r)
                    if hasattr(c2, 'insert'):
                        c3 = fresh()
                        check(c3.insert(k, v) == (0 if present else 1), tag,
                              'insert status')
                    c4 = cls([(k, v)])
                    check(list(c4.items()) == [(ik, v)], tag, 'ctor')
                    c5 = fresh()
                    c5.update({k: v})
                    check(c5[ik] == v, tag, 'update')
                    check(c5.pop(k) == v and ik not in c5, tag, 'pop')
                else:
                    c.add(k)
                    c4 = cls([k])
                    check(list(c4) == [ik], tag, 'ctor')
                    c5 = fresh()
                    c5.update([k])
                    check(ik in c5, tag, 'update')
                keys = list(c.keys())
                check(keys == sorted(set(seed_keys) | {ik}), tag, 'keys',
                      keys)
                check(all(type(x) is int for x in keys), tag, 'key types')
                check(k in c and c.has_key(k), tag, 'membership')
                check(c.minKey(k) == ik and c.maxKey(k) == ik, tag,
                      'minKey/maxKey')
                check(list(c.keys(k, k)) == [ik], tag, 'keys(k,k)')
                if cls in (Bucket, Set):
                    st = c.__getstate__()
                    d = cls()
                    d.__setstate__(st)
                    check(snapshot(d, mapping) == snapshot(c, mapping), tag,
                          'state round trip')
                if mapping:
                    del c[k]
                else:
                    c.remove(k)
                check(ik not in c, tag, 'delete')

        probes = BOUNDARY + NON_INTS + [True, False, MyInt(6), MyInt(2 ** 40)]
        if py:      # the Python code accepts __index__ (known difference)
            probes = [k for k in probes if not isinstance(k, Idx)]
        gc.collect()
        before_rc = [sys.getrefcount(k) for k in probes]
        for k in probes:
            one_key(k)
        k = None
        gc.collect()    # exceptions/tracebacks may sit in cycles
        after_rc = [sys.getrefcount(k) for k in probes]
        check(before_rc == after_rc, tag0, 'refcounts of the arguments',
              [(p, a, b) for p, a, b in zip(probes, before_rc, after_rc)
               if a != b])

    # --- set operations over arbitrary iterables (SetOpTemplate.c)
    base = Set(seed_keys)
    for k in (2 ** 31, -1, 2 ** 32, 2 ** 63, -2 ** 63 - 1, 2 ** 64, 'x',
              1.5, None):
        msg = c_key_message(fam, k)
        tag = '%s%s setop key=%r' % (fam, 'Py' if py else '', k)
        if py:
            continue    # only the C set operations convert foreign keys
        if representable(fam, k):
            check(list(mod.union(base, [k])) ==
                  sorted(set(seed_keys) | {k}), tag, 'union')
            if hasattr(mod, 'multiunion'):
                check(list(mod.multiunion([[k], base])) ==
                      sorted(set(seed_keys) | {k}), tag, 'multiunion')
        elif is_c:
            # (the Python set operations do not validate foreign iterables)
            expect_typeerror(tag + ' union', is_c, msg, mod.union, base, [k])
            expect_typeerror(tag + ' intersection', is_c, msg,
                             mod.intersection, [k], base)
            if hasattr(mod, 'multiunion'):
                expect_typeerror(tag + ' multiunion', is_c, msg,
                                 mod.multiunion, [[k]])


def differential(fam, py, rng, nops):
    (BTree, Bucket, TreeSet, Set), mod = get_classes(fam, py)
    (lo, hi), is32, signed = FAMILIES[fam]
    pool = [k for k in BOUNDARY] + NON_INTS[:6]
    for cls in (small(BTree), Bucket):
        c = cls()
        model = {}
        tag = '%s differential' % cls.__name__
        for n in range(nops):
            r = rng.random()
            if r < 0.45:
                k = rng.randint(lo, min(hi, lo + 60)) if rng.random() < .5 \
                    else rng.randint(max(lo, hi - 60), hi)
            elif r < 0.7:
                k = rng.randint(max(lo, -300), min(hi, 300))
            else:
                k = rng.choice(pool)
            ok = representable(fam, k)
            v = value_for(fam, n)
            op = rng.choice(('set', 'set', 'setdefault', 'del', 'pop', 'get',
                             'in', 'update', 'insert'))
            try:
                if op == 'set':
                    c[k] = v
                    got = ('ok',)
                elif op == 'setdefault':
                    got = ('ok', c.setdefault(k, v))
                elif op == 'del':
                    del c[k]
                    got = ('ok',)
                elif op == 'pop':
                    got = ('ok', c.pop(k, 'D'))
                elif op == 'get':
                    got = ('ok', c.get(k, 'D'))
                elif op == 'in':
                    got = ('ok', k in c)
                elif op == 'update':
                    c.update([(k, v)])
                    got = ('ok',)
                else:
                    if not hasattr(c, 'insert'):
                        continue
                    got = ('ok', c.insert(k, v))
            except TypeError:
                got = ('TypeError',)
            except KeyError:
                got = ('KeyError',)
            # the model
            if op in ('get', 'in'):
                if not ok:
                    want = ('ok', 'D' if op == 'get' else False)
                elif op == 'get':
                    want = ('ok', model.get(k, 'D'))
                else:
                    want = ('ok', k in model)
            elif not ok:
                want = ('TypeError',)
            elif op in ('set', 'update'):
                model[int(k)] = v
                want = ('ok',)
            elif op == 'setdefault':
                want = ('ok', model.setdefault(int(k), v))
            elif op == 'del':
                if k in model:
                    del model[k]
                    want = ('ok',)
                else:
                    want = ('KeyError',)
            elif op == 'pop':
                want = ('ok', model.pop(k, 'D'))
            else:
                if k in model:
                    want = ('ok', 0)
                else:
                    model[int(k)] = v
                    want = ('ok', 1)
            check(got == want, tag, 'op', n, op, repr(k), got, want)
            if n % 40 == 0 or n == nops - 1:
                check(list(c.items()) == sorted(model.items()), tag,
                      'contents diverged at op', n)
                check(len(c) == len(model), tag, 'len')
                if hasattr(c, '_check'):
                    c._check()
        # pickled state goes through the same conversion on the way back
        if cls is Bucket:
            d = cls()
            d.__setstate__(c.__getstate__())
            check(list(d.items()) == sorted(model.items()), tag, 'setstate')
        else:
            d = cls()
            d.__setstate__(c.__getstate__())
            check(list(d.items()) == sorted(model.items()), tag, 'setstate')
            d._check()


def main():
    rng = random.Random(0xC13)
    for fam in FAMILIES:
        for py in (False, True):
            exercise_one(fam, py)
            differential(fam, py, rng, 3000 if not py else 600)
    finish()


if __name__ == '__main__':
    main()
