"""Differential demo for refactoring u (C: sorters.c -- radixsort_int offsets
helper and sign-byte test, uniq, insertion sort slice, sort_int_nodups).

Run as:  PYTHONPATH=<tree>/src /venv/bin/python demo.py

sort_int_nodups is only reachable through the native multiunion, whose gather
phase concatenates the operands.  Operands that are plain ints are appended
one by one in the given order, so multiunion([k0, k1, k2, ...]) hands the
sorter exactly the vector [k0, k1, k2, ...]: arbitrary permutations with
duplicates.  Exact Set operands are memcpy'd, which yields concatenations of
sorted runs.  The demo feeds, for each of the 16 integer-key families,
vectors of every interesting length (around MAX_INSERTION=25, around the
800-element quicksort/radixsort switch, large) and shape (random over the
whole range, tiny ranges with many duplicates, ascending, descending, all
equal, values that differ in exactly one byte position -- so that every radix
pass is both executed and skipped --, values that differ only in the sign /
most significant byte, both extremes), and compares with sorted(set(v)).

Exits 0 when everything is as specified.
"""
import importlib
import random
import sys

FAMILIES = ['II', 'IU', 'IO', 'IF', 'LL', 'LQ', 'LO', 'LF',
            'QL', 'QQ', 'QO', 'QF', 'UI', 'UU', 'UO', 'UF']
RANGES = {
    'I': (-2**31, 2**31 - 1, 4),
    'L': (-2**63, 2**63 - 1, 8),
    'U': (0, 2**32 - 1, 4),
    'Q': (0, 2**64 - 1, 8),
}

checks = 0


def check(cond, *msg):
    global checks
    checks += 1
    if not cond:
        print("FAIL:", *msg)
        sys.exit(1)


class Family:
    def __init__(self, prefix):
        self.prefix = prefix
        self.mod = mod = importlib.import_module('BTrees.%sBTree' % prefix)
        self.lo, self.hi, self.nbytes = RANGES[prefix[0]]
        self.signed = self.lo < 0
        self.Set = getattr(mod, prefix + 'Set')
        self.multiunion = mod.multiunion
        check(type(self.multiunion).__name__ == 'builtin_function_or_method',
              prefix, 'native multiunion missing')

    def wrap(self, unsigned_bits):
        """Interpret an nbytes-wide bit pattern as a key of this family."""
        bits = 8 * self.nbytes
        unsigned_bits &= (1 << bits) - 1
        if self.signed and unsigned_bits >> (bits - 1):
            return unsigned_bits - (1 << bits)
        return unsigned_bits


def patterns(fam, rng, n):
    lo, hi, nbytes = fam.lo, fam.hi, fam.nbytes
    mid = (lo + hi) // 2
    yield 'uniform', [rng.randrange(lo, hi + 1) for _ in range(n)]
    yield 'tiny-range', [mid + rng.randrange(-3, 4) for _ in range(n)]
    yield 'around-zero', [max(lo, min(hi, rng.randrange(-50, 51))) for _ in range(n)]
    yield 'ascending', [lo + 3 * i for i in range(n)]
    yield 'descending', [hi - 5 * i for i in range(n)]
    yield 'all-equal-lo', [lo] * n
    yield 'all-equal-hi', [hi] * n
    yield 'all-equal-mid', [mid + 1] * n
    yield 'two-values', [rng.choice((lo, hi)) for _ in range(n)]
    yield 'extremes+noise', [rng.choice((lo, hi, lo + 1, hi - 1,
                                         rng.randrange(lo, hi + 1)))
                             for _ in range(n)]
    yield 'organ-pipe', ([mid + i for i in range(n // 2)] +
                         [mid + n - i for i in range(n - n // 2)])
    yield 'sawtooth', [mid + (i * 7919) % 97 for i in range(n)]
    # values that differ in exactly one byte position: that pass must
    # distribute, every other pass sees one byte value for all elements
    fixed = rng.getrandbits(8 * nbytes)
    for b in range(nbytes):
        mask = 0xff << (8 * b)
        vec = [fam.wrap((fixed & ~mask) | (rng.randrange(256) << (8 * b)))
               for _ in range(n)]
        yield 'only-byte-%d' % b, vec
    # two byte positions vary (the top one and another one)
    for b in range(nbytes - 1):
        vec = [fam.wrap((rng.randrange(256) << (8 * (nbytes - 1))) |
                        (rng.randrange(256) << (8 * b)))
               for _ in range(n)]
        yield 'top-and-byte-%d' % b, vec
    # the top byte takes a single value for all elements (pass skipped),
    # for several values on both sides of 0x80
    for top in (0x00, 0x7f, 0x80, 0xff):
        vec = [fam.wrap((top << (8 * (nbytes - 1))) |
                        rng.getrandbits(8 * (nbytes - 1)))
               for _ in range(n)]
        yield 'top-fixed-%02x' % top, vec
    # only the top bit varies
    yield 'top-bit', [fam.wrap((rng.randrange(2) << (8 * nbytes - 1)) | 12345)
                      for _ in range(n)]
    yield 'top-bit+low', [fam.wrap((rng.randrange(2) << (8 * nbytes - 1)) |
                                   rng.randrange(4))
                          for _ in range(n)]


def verify(fam, res, vec, rng, what):
    expected = sorted(set(vec))
    check(type(res) is fam.Set, what, 'result type')
    got = list(res)
    if got != expected:
        for i, (g, e) in enumerate(zip(got, expected)):
            if g != e:
                break
        else:
            i = min(len(got), len(expected))
        check(False, what, 'wrong result: lengths', len(got), len(expected),
              'first difference at', i, got[i:i + 4], expected[i:i + 4])
    check(True)
    check(len(res) == len(expected), what, 'len')
    check(res.minKey() == expected[0], what, 'minKey')
    check(res.maxKey() == expected[-1], what, 'maxKey')
    members = set(expected)
    for _ in range(5):
        k = rng.choice(expected)
        check(k in res, what, 'membership', k)
        probe = rng.randrange(fam.lo, fam.hi + 1)
        check((probe in res) == (probe in members), what, 'non-member', probe)
        a, b = sorted((rng.choice(expected), rng.choice(vec)))
        check(list(res.keys(a, b)) == [k for k in expected if a <= k <= b],
              what, 'range query')
    for k in (fam.lo, fam.hi):
        check((k in res) == (k in members), what, 'extreme membership', k)


SIZES = [1, 2, 3, 4, 5, 24, 25, 26, 27, 28, 50, 51, 52, 53, 100,
         256, 500, 798, 799, 800, 801, 802, 803, 804, 805,
         1024, 1025, 3001]


def run_family(fam, rng):
    lo, hi = fam.lo, fam.hi
    for n in SIZES:
        for name, vec in patterns(fam, rng, n):
            check(len(vec) == n, 'pattern length')
            # (1) the vector as given: one int operand per element
            res = fam.multiunion(vec)
            verify(fam, res, vec, rng, (fam.prefix, n, name, 'ints'))
            # (2) the same multiset, shuffled
            if n in (25, 26, 799, 800, 801, 804, 1024, 3001):
                shuffled = list(vec)
                rng.shuffle(shuffled)
                res = fam.multiunion(tuple(shuffled))
                verify(fam, res, vec, rng, (fam.prefix, n, name, 'shuffled'))
    # (3) concatenation of sorted runs: exact Set operands are memcpy'd
    for total in (20, 26, 600, 799, 800, 801, 1500, 5000):
        for nruns in (1, 2, 3, 7, 40):
            vec, runs = [], []
            for r in range(nruns):
                size = total // nruns + (1 if r < total % nruns else 0)
                style = rng.randrange(3)
                if style == 0:
                    run = [rng.randrange(lo, hi + 1) for _ in range(size)]
                elif style == 1:
                    base = rng.choice((lo, hi - 2 * size - 1, -size if lo < 0 else size))
                    run = [base + rng.randrange(2 * size + 1) for _ in range(size)]
                else:
                    run = [rng.choice((lo, hi, 0 if lo < 0 else 2**31, lo + 1, hi - 1))
                           for _ in range(size)]
                runs.append(fam.Set(run))
                vec.extend(run)
            if not vec:
                continue
            res = fam.multiunion(runs)
            verify(fam, res, vec, rng, (fam.prefix, total, nruns, 'runs'))
            # duplicates of whole operands
            res = fam.multiunion(runs + runs[::-1])
            verify(fam, res, vec, rng, (fam.prefix, total, nruns, 'runs twice'))
    # (4) one big one: radix sort with all passes active
    n = 30011
    vec = [rng.randrange(lo, hi + 1) for _ in range(n)]
    vec[100] = lo
    vec[200] = hi
    vec[300] = lo
    res = fam.multiunion([vec[:n // 2], fam.Set(vec[n // 2:]), vec[5], vec[5]])
    verify(fam, res, vec, rng, (fam.prefix, 'big'))
    # (5) exhaustive small permutations with duplicates: insertion sort + uniq
    import itertools
    vals = (lo, lo + 1, hi)
    for length in range(1, 6):
        for combo in itertools.product(vals, repeat=length):
            res = fam.multiunion(combo)
            check(list(res) == sorted(set(combo)), fam.prefix, 'exhaustive', combo)


def main():
    rng = random.Random(0xC11 + 1)
    for prefix in FAMILIES:
        run_family(Family(prefix), rng)
    print("OK: %d checks" % checks)


if __name__ == '__main__':
    main()
