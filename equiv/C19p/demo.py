"""Equivalence demonstration for BTrees.Length (property C19), refactoring C19p:
change(): augmented assignment spelled out with a temporary.

Run as:  PYTHONPATH=<worktree>/src /venv/bin/python demo.py

Every expectation is computed independently of BTrees.Length: by a plain-int
reference model (RefCell / ref_resolve), by recorded constants (pickle bytes,
signatures, event traces), or by comparing the C and the pure-Python
``persistent`` base class (the script re-runs itself with PURE_PYTHON=1).
Exits 0 iff every check holds.
"""
import copy
import inspect
import os
import pickle
import random
import subprocess
import sys

from BTrees.Length import Length

FAILS = []
NCHECKS = [0]


def check(cond, what):
    NCHECKS[0] += 1
    if not cond:
        FAILS.append(what)
        print("FAIL:", what)


# --------------------------------------------------------------------------
# reference model: a plain integer cell, and the three-way merge written as
# "original + change made by one + change made by the other"
# --------------------------------------------------------------------------
class RefCell:
    def __init__(self, v=0):
        self.v = v

    def set(self, v):
        self.v = v

    def change(self, d):
        self.v = self.v + d


def ref_resolve(old, a, b):
    return old + a + b


def big_ints(rng, n):
    out = [0, 1, -1, 2 ** 31 - 1, 2 ** 31, -2 ** 31, 2 ** 63 - 1, 2 ** 63,
           -2 ** 63 - 1, 2 ** 64, 10 ** 40, -10 ** 40]
    while len(out) < n:
        bits = rng.choice([1, 8, 31, 32, 63, 64, 65, 128, 200, 521])
        out.append(rng.getrandbits(bits) * rng.choice([1, -1]))
    return out


# --------------------------------------------------------------------------
# 1. the conflict-free counter: both commit orders, unbounded integers
# --------------------------------------------------------------------------
def test_resolution():
    rng = random.Random(0xC19)
    vals = big_ints(rng, 60)
    resolver_plain = Length()
    # ZODB builds the resolver with cls.__new__(cls): no __init__, no jar
    resolver_new = Length.__new__(Length)
    n = 0
    for _ in range(4000):
        old, a, b = rng.choice(vals), rng.choice(vals), rng.choice(vals)
        want = ref_resolve(old, a, b)
        for res in (resolver_plain, resolver_new):
            got12 = res._p_resolveConflict(old, old + a, old + b)
            got21 = res._p_resolveConflict(old, old + b, old + a)
            check(got12 == want and type(got12) is int,
                  "resolve(%r,%r,%r) order 1" % (old, a, b))
            check(got21 == want and type(got21) is int,
                  "resolve(%r,%r,%r) order 2" % (old, a, b))
        n += 1
    # the resolver does not look at, or modify, its own state
    check(resolver_plain.value == 0 and resolver_plain() == 0,
          "resolver state untouched")
    check('value' not in resolver_new.__dict__, "resolver(new) state untouched")
    # recorded instance from the test-suite
    check(Length()._p_resolveConflict(5, 7, 9) == 11, "5,7,9 -> 11")
    # keyword call with the historical parameter names
    check(Length()._p_resolveConflict(old=5, s1=7, s2=9) == 11,
          "keyword call old/s1/s2")


class Traced:
    """Number-like that records which arithmetic is performed, in order."""
    log = []

    def __init__(self, name):
        self.name = name

    def __add__(self, other):
        Traced.log.append(('add', self.name, getattr(other, 'name', other)))
        return Traced('(%s+%s)' % (self.name, getattr(other, 'name', other)))

    def __sub__(self, other):
        Traced.log.append(('sub', self.name, getattr(other, 'name', other)))
        return Traced('(%s-%s)' % (self.name, getattr(other, 'name', other)))

    def __iadd__(self, other):
        Traced.log.append(('iadd', self.name, getattr(other, 'name', other)))
        self.name = '(%s+=%s)' % (self.name, getattr(other, 'name', other))
        return self


def test_resolution_operation_order():
    # recorded constant: (s1 + s2) - old, evaluated left to right
    Traced.log = []
    r = Length()._p_resolveConflict(Traced('old'), Traced('s1'), Traced('s2'))
    check(Traced.log == [('add', 's1', 's2'), ('sub', '(s1+s2)', 'old')],
          "operation order of the formula: %r" % (Traced.log,))
    check(r.name == '((s1+s2)-old)', "formula result %r" % (r.name,))
    # floats: same rounding as the historical expression
    rng = random.Random(19)
    for _ in range(500):
        o, x, y = (rng.uniform(-1e9, 1e9), rng.uniform(-1e-3, 1e-3),
                   rng.uniform(-1e17, 1e17))
        got = Length()._p_resolveConflict(o, x, y)
        check(got == (x + y) - o, "float rounding preserved")
    # error class for unsupported operands
    try:
        Length()._p_resolveConflict(1, 'a', 2)
    except TypeError:
        check(True, "")
    else:
        check(False, "str + int must raise TypeError")
    try:
        Length()._p_resolveConflict(None, 1, 2)
    except TypeError:
        check(True, "")
    else:
        check(False, "int - None must raise TypeError")


# --------------------------------------------------------------------------
# 2. set / change / call / getstate / setstate as a plain integer cell
# --------------------------------------------------------------------------
def test_cell_against_model():
    rng = random.Random(1919)
    vals = big_ints(rng, 40)
    for trial in range(200):
        start = rng.choice(vals)
        if trial % 5 == 0:
            obj, ref = Length(), RefCell()
        elif trial % 5 == 1:
            obj, ref = Length(v=start), RefCell(start)
        else:
            obj, ref = Length(start), RefCell(start)
        for _ in range(30):
            op = rng.randrange(6)
            x = rng.choice(vals)
            if op == 0:
                check(obj.set(x) is None, "set returns None")
                ref.set(x)
            elif op == 1:
                check(obj.change(x) is None, "change returns None")
                ref.change(x)
            elif op == 2:
                check(obj.__setstate__(x) is None, "__setstate__ returns None")
                ref.set(x)
            elif op == 3:
                check(obj() == ref.v and obj(1, None, [], {}) == ref.v,
                      "call")
            elif op == 4:
                check(obj.__getstate__() == ref.v, "getstate")
            else:
                check(obj.set(v=x) is None, "set(v=...)")
                ref.set(x)
            check(obj.value == ref.v and type(obj.value) is int, "value")
            check(obj.__dict__ == {'value': ref.v}, "instance dict")
    # the value object itself is stored, not a copy / conversion
    marker = 10 ** 30
    o = Length(marker)
    check(o.value is marker and o() is marker and o.__getstate__() is marker,
          "ctor stores the object itself")
    o.set(True)
    check(o.value is True, "set stores the object itself")
    o.__setstate__(marker)
    check(o.value is marker, "__setstate__ stores the object itself")
    # class level default (lp:516653): a fresh __new__ object reads 0
    bare = Length.__new__(Length)
    check(bare() == 0 and bare.__getstate__() == 0 and bare.__dict__ == {},
          "class-level default")
    check(Length.value == 0 and type(Length.value) is int, "Length.value")
    bare.change(5)
    check(bare.__dict__ == {'value': 5}, "change on bare object")
    # keyword arguments are rejected by __call__
    try:
        Length(1)(x=1)
    except TypeError:
        check(True, "")
    else:
        check(False, "__call__ must reject keywords")


def test_change_semantics():
    # change() is an augmented assignment on the attribute: an object that
    # implements __iadd__ is updated in place and the same object re-stored
    lst = [1]
    o = Length(lst)
    o.change([2, 3])
    check(o.value is lst and lst == [1, 2, 3], "in-place += on a list value")
    # tuples / ints: a new object is bound
    o = Length((1,))
    o.change((2,))
    check(o.value == (1, 2), "tuple +=")
    # operation trace: exactly one __iadd__, no __add__
    Traced.log = []
    t = Traced('cur')
    o = Length(t)
    o.change(Traced('d'))
    check(Traced.log == [('iadd', 'cur', 'd')], "trace %r" % (Traced.log,))
    check(o.value is t, "iadd result stored")
    # reflected add is used when only the delta knows how to add
    class R:
        def __radd__(self, other):
            return ('radd', other)
    o = Length(7)
    o.change(R())
    check(o.value == ('radd', 7), "__radd__ path")
    # failing addition: exception class is preserved and the cell untouched
    o = Length(3)
    try:
        o.change('x')
    except TypeError:
        check(True, "")
    else:
        check(False, "int += str must raise TypeError")
    check(o.value == 3 and o.__dict__ == {'value': 3}, "value kept on error")
    try:
        o.change()
    except TypeError:
        check(True, "")
    else:
        check(False, "change() needs delta")
    check(o.change(delta=4) is None and o.value == 7, "change(delta=...)")


# --------------------------------------------------------------------------
# 3. persistence notifications (fake jar)
# --------------------------------------------------------------------------
class Cache:
    def __init__(self, events):
        self.events = events

    def mru(self, oid):
        self.events.append('mru')

    def update_object_size_estimation(self, oid, size):
        pass


class Jar:
    def __init__(self):
        self.events = []
        self.stored = 99
        self._cache = Cache(self.events)

    def register(self, obj):
        self.events.append('register')

    def setstate(self, obj):
        self.events.append('setstate')
        obj.__setstate__(self.stored)

    def take(self, pure):
        ev = [e for e in self.events if e != 'mru' or pure]
        del self.events[:]
        return ev


def saved(v, jar):
    o = Length(v)
    o._p_jar = jar
    o._p_oid = b'\0' * 7 + b'\1'
    o._p_changed = False
    jar.take(True)
    return o


def test_notifications():
    jar = Jar()

    def no_mru(ev):
        return [e for e in ev if e != 'mru']

    # reads do not register
    o = saved(5, jar)
    check(o() == 5 and o.__getstate__() == 5, "read saved")
    check(no_mru(jar.take(True)) == [] and o._p_changed is False,
          "reads do not dirty the object")
    # the resolver does not dirty the object either
    check(o._p_resolveConflict(1, 2, 3) == 4, "resolve on saved obj")
    check(no_mru(jar.take(True)) == [] and o._p_changed is False,
          "resolver does not dirty the object")
    # each mutator registers exactly once, and only once until saved again
    for name, call, want in (
            ('set', lambda x: x.set(7), 7),
            ('change', lambda x: x.change(2), 7),
            ('__setstate__', lambda x: x.__setstate__(7), 7)):
        o = saved(5, jar)
        call(o)
        check(no_mru(jar.take(True)) == ['register'], name + " registers once")
        check(o._p_changed is True and o.value == want, name + " result")
        call(o)
        check(no_mru(jar.take(True)) == [], name + " second call is silent")
    # change(0) and set(same) still count as modifications
    o = saved(5, jar)
    o.change(0)
    check(no_mru(jar.take(True)) == ['register'] and o._p_changed is True,
          "change(0) registers")
    # a failing change() does not register
    o = saved(5, jar)
    try:
        o.change('x')
    except TypeError:
        pass
    check(no_mru(jar.take(True)) == [] and o._p_changed is False
          and o.value == 5, "failed change leaves the object clean")
    # ghosts: every entry point loads the state exactly once
    for name, call, events, value, changed in (
            ('call', lambda x: x(), ['setstate'], 99, False),
            ('getstate', lambda x: x.__getstate__(), ['setstate'], 99, False),
            ('value', lambda x: x.value, ['setstate'], 99, False),
            ('change', lambda x: x.change(1),
             ['setstate', 'register'], 100, True),
            ('set', lambda x: x.set(3), ['setstate', 'register'], 3, True),
            ('setstate', lambda x: x.__setstate__(3),
             ['setstate', 'register'], 3, True),
            ('resolve', lambda x: x._p_resolveConflict(1, 2, 3),
             None, 99, False)):
        o = saved(5, jar)
        o._p_deactivate()
        check(o._p_changed is None, "ghosted")
        jar.take(True)
        call(o)
        ev = no_mru(jar.take(True))
        if events is None:
            # C and pure-Python persistent agree that looking up a _p_
            # method does not load a ghost
            check(ev == [], "ghost %s events %r" % (name, ev))
            check(o._p_changed is None, "ghost %s stays a ghost" % name)
            continue
        check(ev == events, "ghost %s events %r" % (name, ev))
        check(o.value == value and o._p_changed is changed,
              "ghost %s -> %r" % (name, o.value))
    # exact pickle-cache traffic of the pure-Python base class (recorded)
    if os.environ.get('PURE_PYTHON') == '1':
        for name, call, want in (
                ('set', lambda x: x.set(7), ['mru', 'mru', 'register']),
                ('change', lambda x: x.change(2),
                 ['mru', 'mru', 'mru', 'register']),
                ('__setstate__', lambda x: x.__setstate__(7),
                 ['mru', 'register']),
                ('call', lambda x: x(), ['mru']),
                ('getstate', lambda x: x.__getstate__(), ['mru', 'mru']),
                ('resolve', lambda x: x._p_resolveConflict(1, 2, 3), [])):
            o = saved(5, jar)
            call(o)
            ev = jar.take(True)
            check(ev == want, "pure-python events of %s: %r" % (name, ev))


# --------------------------------------------------------------------------
# 4. pickles and copies (recorded constants)
# --------------------------------------------------------------------------
PICKLES = {
    (42, 2): b'\x80\x02cBTrees.Length\nLength\nq\x00)\x81q\x01K*b.',
    (0, 2): b'\x80\x02cBTrees.Length\nLength\nq\x00)\x81q\x01K\x00b.',
    (-3, 2): b'\x80\x02cBTrees.Length\nLength\nq\x00)\x81q\x01J\xfd\xff\xff\xffb.',
    (2 ** 70, 2): b'\x80\x02cBTrees.Length\nLength\nq\x00)\x81q\x01'
                  b'\x8a\t\x00\x00\x00\x00\x00\x00\x00\x00@b.',
    (42, 3): b'\x80\x03cBTrees.Length\nLength\nq\x00)\x81q\x01K*b.',
}


def test_pickles():
    for (v, proto), want in sorted(PICKLES.items()):
        got = pickle.dumps(Length(v), proto)
        check(got == want, "pickle of Length(%r) proto %d: %r" % (v, proto, got))
        back = pickle.loads(want)
        check(type(back) is Length and back() == v
              and back.__dict__ == {'value': v}, "unpickle %r" % (v,))
    # a cell modified through every mutator pickles like a fresh one
    o = Length(40)
    o.change(5)
    o.set(o() - 4)
    o.change(1)
    check(pickle.dumps(o, 2) == PICKLES[(42, 2)], "pickle after mutations")
    o = Length.__new__(Length)
    check(pickle.dumps(o, 2) == PICKLES[(0, 2)], "pickle of bare object")
    rng = random.Random(7)
    for v in big_ints(rng, 40):
        for proto in range(0, pickle.HIGHEST_PROTOCOL + 1):
            back = pickle.loads(pickle.dumps(Length(v), proto))
            check(type(back) is Length and back.value == v
                  and type(back.value) is int, "roundtrip %r/%d" % (v, proto))
        red = Length(v).__reduce__()
        check(red[1] == (Length,) and red[2] == v and len(red) == 3,
              "__reduce__ %r" % (red,))
        c = copy.copy(Length(v))
        d = copy.deepcopy(Length(v))
        check(c() == v and d() == v and type(c) is Length and type(d) is Length,
              "copy/deepcopy")
    check(copy.copy(Length())() == 0, "lp:516653")


# --------------------------------------------------------------------------
# 5. public surface (recorded constants)
# --------------------------------------------------------------------------
SIGNATURES = {
    '__init__': '(self, v=0)',
    '__getstate__': '(self)',
    '__setstate__': '(self, v)',
    'set': '(self, v)',
    '_p_resolveConflict': '(self, old, s1, s2)',
    'change': '(self, delta)',
    '__call__': '(self, *args)',
}
DOCS = {
    'set': 'Set the length value to v.',
    'change': 'Add delta to the length value.',
    '__call__': 'Return the current length value.',
    '__init__': None,
    '__getstate__': None,
    '__setstate__': None,
    '_p_resolveConflict': None,
}


def test_surface():
    import persistent
    check(Length.__bases__ == (persistent.Persistent,), "bases")
    check(Length.__module__ == 'BTrees.Length' and Length.__name__ == 'Length'
          and Length.__qualname__ == 'Length', "names")
    for name, sig in SIGNATURES.items():
        f = vars(Length).get(name)
        check(inspect.isfunction(f), "%s is a plain function" % name)
        check(str(inspect.signature(f)) == sig,
              "signature of %s: %s" % (name, inspect.signature(f)))
        check(f.__doc__ == DOCS[name], "docstring of %s" % name)
        check(f.__name__ == name and f.__qualname__ == 'Length.' + name,
              "__name__ of %s" % name)
    check(Length.__doc__.startswith('BTree lengths are often too expensive')
          and len(Length.__doc__) == 571,
          "class docstring (%d)" % len(Length.__doc__))
    public = sorted(n for n in vars(Length)
                    if not n.startswith('_') or n in SIGNATURES)
    check(public == sorted(list(SIGNATURES) + ['value']),
          "public names %r" % (public,))
    # subclass hooks: each public method can be overridden independently
    calls = []

    class Sub(Length):
        def set(self, v):
            calls.append('set')
            Length.set(self, v)

        def change(self, delta):
            calls.append('change')
            Length.change(self, delta)

        def __call__(self, *args):
            calls.append('call')
            return Length.__call__(self, *args)

        def __getstate__(self):
            calls.append('getstate')
            return Length.__getstate__(self)

        def __setstate__(self, v):
            calls.append('setstate')
            Length.__setstate__(self, v)

    s = Sub(3)
    check(calls == [], "ctor calls no overridable method: %r" % (calls,))
    s.set(4)
    s.change(1)
    s()
    s.__getstate__()
    s.__setstate__(9)
    s._p_resolveConflict(1, 2, 3)
    check(calls == ['set', 'change', 'call', 'getstate', 'setstate'],
          "no cross-calls between public methods: %r" % (calls,))


def run_all():
    test_resolution()
    test_resolution_operation_order()
    test_cell_against_model()
    test_change_semantics()
    test_notifications()
    test_pickles()
    test_surface()
    EXTRA()


def _counting_subclass():
    """Length subclass whose ``value`` attribute logs every get and set."""
    log = []

    class Counting(Length):
        def _get(self):
            log.append('get')
            return self.__dict__.get('_v', 0)

        def _set(self, v):
            log.append(('set', v))
            self.__dict__['_v'] = v

        value = property(_get, _set)

    return Counting, log


def EXTRA():
    # focus of refactoring p: Length.change
    Counting, log = _counting_subclass()
    c = Counting(10)
    del log[:]
    c.change(5)
    # one read, then one write of the sum: recorded trace
    check(log == ['get', ('set', 15)], "change: attribute traffic %r" % (log,))
    # in-place operand: get, __iadd__ on the stored object, set of same object
    Traced.log = []
    t = Traced('cur')
    c = Counting(t)
    del log[:]
    c.change(Traced('d'))
    check(log == ['get', ('set', t)] and Traced.log == [('iadd', 'cur', 'd')],
          "change: in-place traffic %r %r" % (log, Traced.log))
    # __iadd__ returning NotImplemented falls back to __add__/__radd__
    class NI:
        def __iadd__(self, other):
            return NotImplemented

        def __add__(self, other):
            return ('add', other)
    o = Length(NI())
    o.change(3)
    check(o.value == ('add', 3), "NotImplemented fallback")
    # failing read (no write happens), failing add (no write happens)
    class Boom(Exception):
        pass

    class BadAdd:
        def __iadd__(self, other):
            raise Boom()
    bad = BadAdd()
    c = Counting(bad)
    del log[:]
    try:
        c.change(1)
    except Boom:
        check(log == ['get'], "no write after failing += : %r" % (log,))
    else:
        check(False, "Boom must propagate")
    # model check on huge counters, many steps
    rng = random.Random(5)
    o, ref = Length(), 0
    for _ in range(3000):
        d = rng.getrandbits(rng.choice([3, 70, 300])) * rng.choice([1, -1])
        o.change(d)
        ref = ref + d
    check(o() == ref and type(o()) is int, "3000 changes against int model")


def main():
    run_all()
    mode = ('pure-python' if os.environ.get('PURE_PYTHON') == '1'
            else 'C') + ' persistent'
    print("%s: %d checks, %d failures" % (mode, NCHECKS[0], len(FAILS)))
    rc = 1 if FAILS else 0
    if os.environ.get('PURE_PYTHON') != '1':
        env = dict(os.environ, PURE_PYTHON='1')
        rc2 = subprocess.call([sys.executable, os.path.abspath(__file__)],
                              env=env)
        rc = rc or rc2
    sys.exit(rc)


if __name__ == '__main__':
    main()
