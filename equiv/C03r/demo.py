# ---------------------------------------------------------------------------
# Common harness (identical in all four C03 demos).
#
# Drives insert / delete / update / clear histories through BTree and TreeSet,
# C and pure-Python implementation, several families, several node-size
# settings, and after EVERY step checks property C03 against an independent
# model:
#   * t._check() and BTrees.check.check(t) succeed;
#   * an independent walk over __getstate__() / _firstbucket / _next agrees
#     (leaf chain == leaves by descent, in key order, ends with None, no empty
#     node, children of one kind, keys inside the separator ranges, size
#     limits), and the content equals a dict/set model;
#   * the C and the Python implementation build the *same* structure and the
#     same pickle;
#   * (C only) the reference counts of every leaf, interior node and key
#     object are exactly what the structure implies;
#   * persistence notifications (jar.register / jar.readCurrent) seen by a
#     recording jar hash to constants recorded on the unmodified source.
# ---------------------------------------------------------------------------
import gc
import hashlib
import importlib
import pickle
import random
import sys
from collections import Counter

import BTrees.check

ALL_FAMILIES = ['OO', 'OI', 'OL', 'OU', 'OQ', 'IO', 'II', 'IF', 'IU',
                'LO', 'LL', 'LF', 'LQ', 'UO', 'UU', 'UI', 'UF',
                'QO', 'QQ', 'QL', 'QF']

FAILURES = []


def fail(msg):
    FAILURES.append(msg)
    print("FAIL:", msg)


def expect(cond, msg):
    if not cond:
        fail(msg)


def classes(family):
    mod = importlib.import_module('BTrees.%sBTree' % family)
    return {
        ('map', 'C'): getattr(mod, family + 'BTree'),
        ('map', 'Py'): getattr(mod, family + 'BTreePy'),
        ('set', 'C'): getattr(mod, family + 'TreeSet'),
        ('set', 'Py'): getattr(mod, family + 'TreeSetPy'),
    }


class node_sizes:
    """Temporarily configure max_leaf_size / max_internal_size on classes."""

    def __init__(self, clss, leaf, internal):
        self.clss = list(clss)
        self.leaf = leaf
        self.internal = internal

    def __enter__(self):
        self.saved = [(c, c.max_leaf_size, c.max_internal_size)
                      for c in self.clss]
        for c in self.clss:
            c.max_leaf_size = self.leaf
            c.max_internal_size = self.internal

    def __exit__(self, *exc):
        for c, leaf, internal in self.saved:
            c.max_leaf_size = leaf
            c.max_internal_size = internal


# --- independent walk ------------------------------------------------------

class Shape:
    __slots__ = ('leaves', 'interior', 'firstbucket_refs', 'key_refs',
                 'items', 'depth', 'tree')


def walk(t, is_map, max_leaf=None, max_internal=None, where=''):
    """Independent structural walk.  Returns a Shape; reports via fail()."""
    sh = Shape()
    sh.leaves = []          # leaf objects in descent order
    sh.interior = []        # interior nodes (root excluded)
    sh.firstbucket_refs = Counter()   # id(leaf) -> number of firstbucket refs
    sh.key_refs = Counter()           # id(key) -> references held by nodes
    sh.items = []
    sh.depth = 0
    tree_type = type(t)
    leaf_depths = set()

    def leaf_items(b, lo, hi, depth):
        st = b.__getstate__()
        data = st[0]
        if is_map:
            keys = list(data[0::2])
            values = list(data[1::2])
        else:
            keys = list(data)
            values = [None] * len(keys)
        expect(len(keys) >= 1, where + ': empty leaf')
        if max_leaf is not None:
            expect(len(keys) <= max_leaf,
                   where + ': leaf of %d > max_leaf_size' % len(keys))
        for k in keys:
            sh.key_refs[id(k)] += 1
            expect(lo is None or lo <= k, where + ': key below range')
            expect(hi is None or k < hi, where + ': key above range')
        expect(keys == sorted(set(keys)), where + ': leaf keys not sorted')
        nxt = st[1] if len(st) == 2 else None
        expect(nxt is b._next, where + ': state next is not _next')
        leaf_depths.add(depth)
        sh.items.extend(zip(keys, values))

    def node(n, lo, hi, depth, is_root):
        """Return the leftmost leaf of n's subtree."""
        st = n.__getstate__()
        if st is None:
            expect(is_root, where + ': empty interior node')
            expect(n._firstbucket is None, where + ': empty, firstbucket')
            return None
        if len(st) == 1:
            # a node whose only child is an oid-less leaf:  the leaf's state
            # is embedded, the leaf itself is reachable as _firstbucket
            b = n._firstbucket
            expect(b is not None, where + ': no firstbucket')
            expect(b.__getstate__() == st[0][0], where + ': squashed state')
            sh.leaves.append(b)
            sh.firstbucket_refs[id(b)] += 1
            leaf_items(b, lo, hi, depth + 1)
            return b
        data, firstbucket = st
        expect(len(data) & 1, where + ': even state length')
        kids = data[0::2]
        seps = data[1::2]
        nkids = len(kids)
        expect(nkids >= 1, where + ': interior node without children')
        if max_internal is not None:
            if is_root:
                expect(nkids < 2 * max_internal, where + ': root too wide')
            else:
                expect(nkids <= max_internal,
                       where + ': interior node of %d children' % nkids)
        for s in seps:
            sh.key_refs[id(s)] += 1
            expect(lo is None or lo <= s, where + ': separator below range')
            expect(hi is None or s < hi, where + ': separator above range')
        expect(list(seps) == sorted(set(seps)), where + ': separators')
        kinds = {type(k) is tree_type for k in kids}
        expect(len(kinds) == 1, where + ': children of mixed kinds')
        first = None
        for i, kid in enumerate(kids):
            klo = seps[i - 1] if i > 0 else lo
            khi = seps[i] if i < nkids - 1 else hi
            if type(kid) is tree_type:
                sh.interior.append(kid)
                leftmost = node(kid, klo, khi, depth + 1, False)
                expect(leftmost is kid._firstbucket,
                       where + ': child firstbucket is not its leftmost leaf')
            else:
                leftmost = kid
                sh.leaves.append(kid)
                leaf_items(kid, klo, khi, depth + 1)
            if i == 0:
                first = leftmost
        expect(firstbucket is first, where + ': state firstbucket')
        expect(n._firstbucket is first, where + ': _firstbucket not leftmost')
        sh.firstbucket_refs[id(first)] += 1
        return first

    node(t, None, None, 0, True)
    node = leaf_items = None    # break the closure cycle (it holds sh)
    expect(len(leaf_depths) <= 1, where + ': leaves at different depths')
    sh.depth = max(leaf_depths) if leaf_depths else 0

    # the chain
    chain = []
    b = t._firstbucket
    while b is not None:
        chain.append(b)
        expect(len(chain) <= len(sh.leaves) + 1, where + ': chain too long')
        if len(chain) > len(sh.leaves) + 1:
            break
        b = b._next
    expect(len(chain) == len(sh.leaves)
           and all(x is y for x, y in zip(chain, sh.leaves)),
           where + ': leaf chain differs from leaves reached by descent')
    keys = [k for k, _ in sh.items]
    expect(keys == sorted(set(keys)), where + ': keys not in order/unique')
    return sh


def plain(t):
    """Nested plain-data rendering of the structure (for C vs Py compare)."""
    st = t.__getstate__()
    if st is None:
        return None
    if len(st) == 1:
        return ('one', st[0][0][0])
    out = []
    for i, x in enumerate(st[0]):
        if i & 1:
            out.append(x)
        elif type(x) is type(t):
            out.append(plain(x))
        else:
            out.append(('leaf', x.__getstate__()[0]))
    return tuple(out)


def _refcount_base():
    o = object()
    holder = [o]
    del o
    for x in holder:
        return sys.getrefcount(x) - 1   # minus the list's own reference


def check_refcounts(t, sh, keyobjs, model, where):
    """C implementation only: exact reference counts implied by structure."""
    base = _refcount_base()
    prev = None
    for b in sh.leaves:
        want = 1                       # parent's child pointer
        want += 1 if prev is not None else 0     # predecessor's next
        want += sh.firstbucket_refs[id(b)]       # firstbucket pointers
        got = sys.getrefcount(b) - base - 1      # minus sh.leaves
        expect(got == want,
               '%s: leaf refcount %d, structure implies %d' % (where, got, want))
        prev = b
    for n in sh.interior:
        got = sys.getrefcount(n) - base - 1
        expect(got == 1, '%s: interior refcount %d != 1' % (where, got))
    if keyobjs is not None:
        for k in keyobjs:
            want = sh.key_refs[id(k)] + (1 if k in model else 0)
            got = sys.getrefcount(k) - base - 1  # minus keyobjs
            expect(got == want,
                   '%s: key %r refcount %d, structure implies %d'
                   % (where, k, got, want))


def verify(t, model, is_map, leaf, internal, where, keyobjs=None,
           use_check_module=True, is_c=False):
    try:
        t._check()
    except Exception as e:           # AssertionError expected if broken
        fail('%s: _check(): %r' % (where, e))
    if use_check_module:
        try:
            BTrees.check.check(t)
        except Exception as e:
            fail('%s: check.check(): %r' % (where, e))
    sh = walk(t, is_map, leaf, internal, where)
    items = sh.items
    sh.items = None        # (holds key references; see check_refcounts)
    if is_map:
        expect(items == sorted(model.items()), where + ': content differs')
        expect(list(t.items()) == items, where + ': items() differs')
    else:
        expect([k for k, _ in items] == sorted(model),
               where + ': content differs')
        expect(list(t.keys()) == sorted(model), where + ': keys() differs')
    del items
    expect(len(t) == len(model), where + ': len differs')
    expect(bool(t) == bool(model), where + ': bool differs')
    if is_c:
        check_refcounts(t, sh, keyobjs, model, where)
    return sh


# --- histories -------------------------------------------------------------

def history(seed, nsteps, nkeys):
    """A deterministic list of ('set'|'del'|'update'|'clear', ...) steps that
    grows the tree to several levels and drains it from the left, from the
    right and from the middle (emptied first / middle / last leaves,
    firstbucket hand-off up the spine), then mixes randomly."""
    rng = random.Random(seed)
    ops = []
    keys = list(range(nkeys))
    # ascending fill, drain from the left
    for k in keys:
        ops.append(('set', k))
    for k in keys:
        ops.append(('del', k))
    # descending fill, drain from the right
    for k in reversed(keys):
        ops.append(('set', k))
    for k in reversed(keys):
        ops.append(('del', k))
    # bulk update, drain from the middle outwards
    ops.append(('update', keys[::2]))
    ops.append(('update', keys[1::2]))
    mid = nkeys // 2
    order = []
    for d in range(nkeys):
        for k in (mid + d, mid - d - 1):
            if 0 <= k < nkeys and k not in order:
                order.append(k)
    for k in order:
        ops.append(('del', k))
    # random mix with phases
    for phase in range(4):
        p_ins = (0.75, 0.3, 0.6, 0.2)[phase]
        for _ in range(nsteps // 4):
            k = rng.randrange(nkeys)
            r = rng.random()
            if r < 0.01:
                ops.append(('clear',))
            elif r < 0.04:
                ops.append(('update', [rng.randrange(nkeys)
                                       for _ in range(rng.randrange(1, 9))]))
            elif rng.random() < p_ins:
                ops.append(('set', k))
            else:
                ops.append(('del', k))
    # leave nothing behind
    ops.append(('drain',))
    return ops


def apply_op(t, model, op, is_map, key_of, stepno):
    """Apply op to tree and model; return a plain description of the result
    (results / exception classes are compared C vs Py)."""
    kind = op[0]
    try:
        if kind == 'set':
            k = key_of(op[1])
            if is_map:
                t[k] = stepno
                model[k] = stepno
                return None
            r = t.add(k)
            want = 0 if k in model else 1
            model.add(k)
            expect(r == want, 'add() returned %r, want %r' % (r, want))
            return r
        if kind == 'del':
            k = key_of(op[1])
            present = k in model
            try:
                if is_map:
                    del t[k]
                else:
                    t.remove(k)
            except KeyError:
                expect(not present, 'KeyError for a present key')
                return 'KeyError'
            expect(present, 'no KeyError for an absent key')
            if is_map:
                del model[k]
            else:
                model.remove(k)
            return None
        if kind == 'update':
            ks = [key_of(k) for k in op[1]]
            if is_map:
                t.update([(k, stepno) for k in ks])
                model.update((k, stepno) for k in ks)
                return None
            r = t.update(ks)
            # the C TreeSet reports the number of new keys, the Python one
            # returns None (a known, documented-by-test difference)
            want = (len(set(ks) - set(model))
                    if not type(t).__name__.endswith('Py') else None)
            model.update(ks)
            expect(r == want, 'update() returned %r, want %r' % (r, want))
            return None
        if kind == 'clear':
            t.clear()
            model.clear()
            return None
        if kind == 'drain':
            for k in sorted(model):
                if is_map:
                    expect(t.pop(k) == model[k], 'pop() value')
                else:
                    t.remove(k)
            model.clear()
            return None
    except Exception as e:
        fail('unexpected %r in step %d %r' % (e, stepno, op))
        return type(e).__name__
    raise AssertionError(op)


class KeyPool:
    """Distinct key *objects* (so reference counts are meaningful) for the
    object-keyed families; plain ints otherwise."""

    def __init__(self, family, nkeys):
        self.objects = family[0] == 'O'
        # ints > 256 are not cached by the interpreter: one object per key
        self.keys = [1000 + 7 * i for i in range(nkeys)] if self.objects \
            else list(range(nkeys))

    def __call__(self, i):
        return self.keys[i]


def run_histories(family, leaf, internal, seed, nsteps, nkeys, impls=('C', 'Py'),
                  kinds=('map', 'set')):
    """Run one history through C and Py, map and set, compare everything."""
    clss = classes(family)
    depth_seen = 0
    with node_sizes(clss.values(), leaf, internal):
        for kind in kinds:
            is_map = kind == 'map'
            pools = {impl: KeyPool(family, nkeys) for impl in impls}
            trees = {impl: clss[(kind, impl)]() for impl in impls}
            models = {impl: ({} if is_map else set()) for impl in impls}
            ops = history(seed, nsteps, nkeys)
            for stepno, op in enumerate(ops):
                results = {}
                for impl in impls:
                    where = '%s %s/%s leaf=%d internal=%d step %d %r' % (
                        family, kind, impl, leaf, internal, stepno, op[:2])
                    results[impl] = apply_op(trees[impl], models[impl], op,
                                             is_map, pools[impl], stepno)
                    sh = verify(trees[impl], models[impl], is_map, leaf,
                                internal, where,
                                keyobjs=(pools[impl].keys
                                         if pools[impl].objects else None),
                                is_c=(impl == 'C'))
                    depth_seen = max(depth_seen, sh.depth)
                    del sh
                if len(impls) == 2:
                    expect(results['C'] == results['Py'],
                           where + ': C and Py results differ')
                    expect(plain(trees['C']) == plain(trees['Py']),
                           where + ': C and Py structures differ')
                    if stepno % 16 == 0:
                        pc = pickle.dumps(trees['C'], 2)
                        pp = pickle.dumps(trees['Py'], 2)
                        expect(pc == pp, where + ': pickles differ')
                        # (no structural check of the copy:  a plain pickle
                        # embeds the state of an oid-less only-child leaf)
                        copy = pickle.loads(pc)
                        expect(list(copy.keys()) == sorted(models['C']),
                               where + ': unpickled content differs')
                if FAILURES:
                    return depth_seen
    return depth_seen


# --- persistence notifications --------------------------------------------

class RecordingJar:
    def __init__(self):
        self.log = []
        self.next_oid = 1
        self.fail_register_for = None

    def register(self, obj):
        if obj._p_oid == self.fail_register_for:
            raise JarFailure('register')
        self.log.append(('reg', obj._p_oid))

    def readCurrent(self, obj):
        self.log.append(('cur', obj._p_oid))

    def setstate(self, obj):      # never reached: nothing is ghostified
        raise JarFailure('setstate')

    def adopt(self, obj):
        if obj._p_oid is None:
            obj._p_jar = self
            obj._p_oid = b'%08d' % self.next_oid
            self.next_oid += 1


class JarFailure(Exception):
    pass


def all_nodes(t):
    out = [t]
    st = t.__getstate__()
    if st is None:
        return out
    if len(st) == 1:
        out.append(t._firstbucket)
        return out
    for x in st[0][0::2]:
        if type(x) is type(t):
            out.extend(all_nodes(x))
        else:
            out.append(x)
    return out


def notification_digest(cls, is_map, leaf, internal, seed, nsteps, nkeys,
                        adopt_all):
    """Run a history with a recording jar.  After every step every node is
    'committed' (_p_changed = False, and given an oid when adopt_all).  The
    digest covers which oids registered / readCurrent-ed in which step."""
    h = hashlib.sha256()
    with node_sizes([cls], leaf, internal):
        jar = RecordingJar()
        t = cls()
        jar.adopt(t)
        model = {} if is_map else set()
        for stepno, op in enumerate(history(seed, nsteps, nkeys)):
            jar.log.append(('step', stepno))
            apply_op(t, model, op, is_map, lambda i: i, stepno)
            nodes = all_nodes(t)
            changed = sorted(n._p_oid for n in nodes
                             if n._p_oid is not None and n._p_changed)
            jar.log.append(('changed', tuple(changed)))
            for n in nodes:
                if adopt_all:
                    jar.adopt(n)
                if n._p_jar is not None:
                    n._p_changed = False
            t._check()
        h.update(repr(jar.log).encode())
    return h.hexdigest()[:16]
# ---------------------------------------------------------------------------
# C03r specific part:  the self checks -- _Tree._check (_base.py) and
# BTrees.check (crack_btree, crack_bucket, Walker.walk, Checker.check_sorted).
# ---------------------------------------------------------------------------
import BTrees._base
from BTrees.check import Walker, type_and_adr
from BTrees.LLBTree import LLBTree, LLBTreePy, LLTreeSet, LLTreeSetPy
from BTrees.OOBTree import OOBTree, OOBTreePy


def build(cls, is_map, n):
    t = cls()
    for k in range(n):
        if is_map:
            t[k] = -k
        else:
            t.add(k)
    return t


def kids_of(t):
    """(separators, children) of a Python or C node; a squashed single leaf
    is reported as the one child it is."""
    st = t.__getstate__()
    if st is None:
        return [], []
    if len(st) == 1:
        return [], [t._firstbucket]
    return list(st[0][1::2]), list(st[0][0::2])


# --- the exact sequence of assertions _check makes -------------------------

M_EMPTY = "Empty BTree has non-NULL firstbucket"
M_NULLFB = "Non-empty BTree has NULL firstbucket"
M_NULLCHILD = "BTree has NULL child"
M_TYPES = "BTree children have different types"
M_LEN = "Bucket length < 1"
M_FB = ("BTree has firstbucket different than "
        "its first child's firstbucket")
M_BELIEF = "Bottom-level BTree node has inconsistent firstbucket belief"
M_NEXT = "Bucket next pointer is damaged"


def expected_assertions(t):
    """What a complete _check() of a healthy Python tree must assert, in
    order -- derived from the documented structure, not from the code."""
    seps, kids = kids_of(t)
    if not kids:
        return [M_EMPTY]
    out = [M_NULLFB]
    for _ in kids:
        out += [M_NULLCHILD, M_TYPES, M_LEN]
    if type(kids[0]) is type(t):
        out.append(M_FB)
        for kid in kids:
            out += expected_assertions(kid)
    else:
        out.append(M_BELIEF)
        out += [M_NEXT] * len(kids)
    return out


class assertion_log:
    def __enter__(self):
        self.log = log = []
        self.orig = orig = BTrees._base._Tree._assert

        def _assert(tree, condition, message):
            log.append(message)
            return orig(tree, condition, message)
        BTrees._base._Tree._assert = _assert
        return log

    def __exit__(self, *exc):
        BTrees._base._Tree._assert = self.orig


def check_sequences():
    for cls, is_map in ((LLBTreePy, True), (LLTreeSetPy, False)):
        for leaf, internal in ((2, 2), (3, 2), (2, 4)):
            with node_sizes([cls], leaf, internal):
                for n in (0, 1, 2, 3, 5, 9, 17, 40):
                    t = build(cls, is_map, n)
                    want = expected_assertions(t)
                    with assertion_log() as log:
                        expect(t._check() is None, 'r: _check() result')
                    expect(log == want,
                           'r: assertion sequence of _check differs '
                           '(%s, %d/%d, n=%d)' % (cls.__name__, leaf,
                                                  internal, n))


# --- damaged trees: Python and C must complain alike -----------------------

def leaves_of(t):
    seps, kids = kids_of(t)
    out = []
    for kid in kids:
        if type(kid) is type(t):
            out.extend(leaves_of(kid))
        else:
            out.append(kid)
    return out


def outcome(t):
    try:
        t._check()
    except AssertionError as e:
        return str(e)
    return 'ok'


def damaged_chains():
    """Cut / misdirect the next pointer of every leaf in turn (middle of a
    bottom node, end of a bottom node, end of the tree); the C checker is
    the reference for the Python one."""
    for ccls, pcls, is_map in ((LLBTree, LLBTreePy, True),
                               (LLTreeSet, LLTreeSetPy, False)):
        with node_sizes([ccls, pcls], 2, 2):
            n = 21
            nleaves = len(leaves_of(build(ccls, is_map, n)))
            expect(nleaves >= 8, 'r: damaged_chains needs a deep tree')
            for li in range(nleaves):
                for how in ('cut', 'skip', 'self'):
                    res = {}
                    for impl, cls in (('C', ccls), ('Py', pcls)):
                        t = build(cls, is_map, n)
                        lv = leaves_of(t)
                        expect(len(lv) == nleaves, 'r: leaf count')
                        expect(outcome(t) == 'ok', 'r: healthy tree')
                        if how == 'cut':
                            new = None
                        elif how == 'skip':
                            new = lv[li + 2] if li + 2 < nleaves else \
                                type(lv[0])()
                        else:
                            new = lv[li]
                        changes = new is not lv[li]._next
                        if not changes:
                            pass
                        elif new is None and impl == 'C':
                            # (the C member would store the None object)
                            del lv[li]._next
                        else:
                            lv[li]._next = new
                        expect(lv[li]._next is new, 'r: damage not applied')
                        res[impl] = outcome(t)
                        want = M_NEXT if changes else 'ok'
                        expect(res[impl] == want,
                               'r: %s leaf %d %s: %r' % (cls.__name__, li, how,
                                                         res[impl]))
                        if impl == 'Py':
                            # the check stops at the first damaged pointer:
                            # the assertions made are a prefix of the
                            # healthy sequence, ending at that pointer's turn
                            healthy = expected_assertions(
                                build(pcls, is_map, n))
                            with assertion_log() as log:
                                outcome(t)
                            if changes:
                                nth = [i for i, m in enumerate(healthy)
                                       if m == M_NEXT][li]
                                expect(log == healthy[:nth + 1],
                                       'r: _check did not stop at leaf %d' % li)
                            else:
                                expect(log == healthy, 'r: full sequence')
                    expect(res['C'] == res['Py'],
                           'r: C says %r, Py says %r' % (res['C'], res['Py']))


def damaged_nodes_py():
    """Damage only expressible on the Python implementation; the messages
    are the C checker's texts (recorded)."""
    with node_sizes([LLBTreePy], 2, 2):
        def fresh():
            t = build(LLBTreePy, True, 21)
            expect(type(t._data[0].child) is LLBTreePy
                   and type(t._data[0].child._data[0].child) is LLBTreePy,
                   'r: needs three levels')
            return t
        # firstbucket beliefs
        t = fresh()
        t._firstbucket = t._firstbucket._next
        expect(outcome(t) == M_FB, 'r: root firstbucket: ' + outcome(t))
        t = fresh()
        t._firstbucket = None
        expect(outcome(t) == M_NULLFB, 'r: NULL firstbucket: ' + outcome(t))
        t = fresh()
        last = t._data[-1].child
        last._firstbucket = t._firstbucket
        # found when the *previous* child is checked against it, or by the
        # child itself, whichever the walk reaches first: the previous
        # child's last leaf no longer points at it
        expect(outcome(t) == M_NEXT, 'r: inner firstbucket: ' + outcome(t))
        t = fresh()
        bottom = t
        while type(bottom._data[0].child) is LLBTreePy:
            bottom = bottom._data[-1].child
        bottom._firstbucket = t._firstbucket
        # (noticed first through its left sibling, whose last leaf does not
        # point at what this node claims to start with)
        expect(outcome(t) == M_NEXT, 'r: bottom firstbucket: ' + outcome(t))
        t = fresh()
        bottom = t
        while type(bottom._data[0].child) is LLBTreePy:
            bottom = bottom._data[0].child
        bottom._firstbucket = bottom._data[1].child
        expect(outcome(t) == M_FB, 'r: leftmost bottom node: ' + outcome(t))
        t = fresh()
        bottom = t._data[-1].child
        while type(bottom._data[0].child) is LLBTreePy:
            bottom = bottom._data[0].child
        # its parent still (rightly) believes in the real first leaf
        real = bottom._data[0].child
        bottom._firstbucket = real._next
        expect(outcome(t) == M_FB, 'r: inner bottom node: ' + outcome(t))
        # emptied leaf / emptied interior node / empty root with firstbucket
        t = fresh()
        leaf = leaves_of(t)[3]
        for k in list(leaf.keys()):
            del leaf[k]
        expect(outcome(t) == M_LEN, 'r: empty leaf: ' + outcome(t))
        t = fresh()
        t._data[1].child._data = []
        expect(outcome(t) == M_LEN, 'r: empty node: ' + outcome(t))
        t = fresh()
        fb = t._firstbucket
        t._data = []
        expect(outcome(t) == M_EMPTY, 'r: empty root: ' + outcome(t))
        # children of mixed kinds, NULL child, foreign child type
        t = fresh()
        t._data[-1].child = leaves_of(t)[-1]
        expect(outcome(t) == M_TYPES, 'r: mixed kinds: ' + outcome(t))
        t = fresh()
        t._data[1].child = None
        expect(outcome(t) == M_NULLCHILD, 'r: NULL child: ' + outcome(t))
        t = fresh()
        for item in t._data:
            item.child = OOBTreePy({1: 1})
        expect(outcome(t) == "Incorrect child type",
               'r: foreign children: ' + outcome(t))


# --- BTrees.check: walk order, bounds, complaints --------------------------

class Recorder(Walker):
    def __init__(self, obj):
        Walker.__init__(self, obj)
        self.seen = []

    def visit_btree(self, obj, path, parent, is_mapping, keys, kids, lo, hi):
        self.seen.append(('T', tuple(path), id(parent) if parent is not None
                          else None, is_mapping, list(keys), len(kids),
                          lo, hi))

    def visit_bucket(self, obj, path, parent, is_mapping, keys, values,
                     lo, hi):
        self.seen.append(('B', tuple(path), id(parent), is_mapping,
                          list(keys), list(values), lo, hi))


def reference_visits(t, is_map, path=(), parent=None, lo=None, hi=None):
    """Depth-first, left-to-right, node before its children."""
    seps, kids = kids_of(t)
    out = [('T', path, id(parent) if parent is not None else None, is_map,
            seps, len(kids), lo, hi)]
    for i in range(len(kids)):
        klo = lo if i == 0 else seps[i - 1]
        khi = hi if i == len(kids) - 1 else seps[i]
        kid = kids[i]
        if type(kid) is type(t):
            out += reference_visits(kid, is_map, path + (i,), t, klo, khi)
        else:
            data = kid.__getstate__()[0]
            out.append(('B', path + (i,), id(t), is_map,
                        list(data[0::2]) if is_map else list(data),
                        list(data[1::2]) if is_map else [], klo, khi))
    return out


def walk_order():
    for cls, is_map in ((LLBTree, True), (LLBTreePy, True),
                        (LLTreeSet, False), (LLTreeSetPy, False)):
        for leaf, internal in ((2, 2), (3, 2), (2, 4)):
            with node_sizes([cls], leaf, internal):
                for n in (0, 1, 3, 4, 9, 30):
                    t = build(cls, is_map, n)
                    want = reference_visits(t, is_map)
                    rec = Recorder(t)
                    rec.walk()
                    got = rec.seen
                    if n and len(t.__getstate__()) == 1:
                        # squashed single leaf: the walker synthesizes a
                        # bucket (another object, same content and path)
                        expect(len(got) == 2 and got[0] == want[0]
                               and got[1][:2] == want[1][:2]
                               and got[1][3:] == want[1][3:],
                               'r: walk of one-leaf tree')
                    else:
                        expect(got == want, 'r: walk order / bounds differ '
                               '(%s %d/%d n=%d)' % (cls.__name__, leaf,
                                                    internal, n))


def reference_complaints(root, is_map):
    """The complaints check() must produce, from the documented rules: for
    every node in walk order and every key in index order: below the lower
    bound, not below the upper bound, not below its right neighbour."""
    out = []

    def complain(msg, obj, path):
        out.append("%s, in %s, path from root %s"
                   % (msg, type_and_adr(obj), ".".join(str(p) for p in path)))

    def keys_check(obj, path, keys, lo, hi):
        idx = 0
        while idx < len(keys):
            x = keys[idx]
            if lo is not None and x < lo:
                complain("key %r < lower bound %r at index %d" % (x, lo, idx),
                         obj, path)
            if hi is not None and x >= hi:
                complain("key %r >= upper bound %r at index %d"
                         % (x, hi, idx), obj, path)
            if idx + 1 < len(keys) and x >= keys[idx + 1]:
                complain("key %r at index %d >= key %r at index %d"
                         % (x, idx, keys[idx + 1], idx + 1), obj, path)
            idx += 1

    def node(t, path, lo, hi):
        seps, kids = kids_of(t)
        keys_check(t, path, seps, lo, hi)
        for i, kid in enumerate(kids):
            klo = lo if i == 0 else seps[i - 1]
            khi = hi if i == len(kids) - 1 else seps[i]
            if type(kid) is type(t):
                node(kid, path + [i], klo, khi)
            else:
                data = kid.__getstate__()[0]
                keys_check(kid, path + [i],
                           list(data[0::2]) if is_map else list(data),
                           klo, khi)
    node(root, [], None, None)
    if out:
        out.insert(0, "Errors found in %s:" % type_and_adr(root))
    return out


def complaints():
    def bucket(bcls, is_map, keys, nxt=None):
        b = bcls()
        data = []
        for k in keys:
            data.append(k)
            if is_map:
                data.append(k * 10)
        b.__setstate__((tuple(data), nxt) if nxt is not None
                       else (tuple(data),))
        return b

    for tcls, is_map in ((LLBTree, True), (LLBTreePy, True),
                         (LLTreeSet, False), (LLTreeSetPy, False)):
        bcls = tcls._bucket_type
        # level 1: three leaves, each wrong in its own way
        b3 = bucket(bcls, is_map, [8, 7, 20])        # unsorted
        b2 = bucket(bcls, is_map, [2, 4, 4, 9], b3)  # below lo, dup, >= hi
        b1 = bucket(bcls, is_map, [1, 5], b2)        # 5 >= hi
        left = tcls()
        left.__setstate__(((b1, 3, b2, 7, b3), b1))
        # level 1 again, separators themselves unsorted / out of range
        c2 = bucket(bcls, is_map, [40, 41])
        c1 = bucket(bcls, is_map, [30], c2)
        right = tcls()
        right.__setstate__(((c1, 50, c2, 45, bucket(bcls, is_map, [60])), c1))
        root = tcls()
        root.__setstate__(((left, 25, right), b1))
        want = reference_complaints(root, is_map)
        expect(len(want) >= 8, 'r: scenario must produce many complaints: %r' % want)
        try:
            BTrees.check.check(root)
        except AssertionError as e:
            expect(str(e) == "\n".join(want),
                   'r: %s complaints differ:\n%s\n--- want ---\n%s'
                   % (tcls.__name__, e, "\n".join(want)))
        else:
            fail('r: check() accepted a scrambled %s' % tcls.__name__)
        # and a healthy tree of the same shape passes
        h3 = bucket(bcls, is_map, [7, 8])
        h2 = bucket(bcls, is_map, [3, 4], h3)
        h1 = bucket(bcls, is_map, [1, 2], h2)
        ok = tcls()
        ok.__setstate__(((h1, 3, h2, 7, h3), h1))
        expect(reference_complaints(ok, is_map) == [], 'r: reference')
        BTrees.check.check(ok)
        ok._check()


def specific():
    check_sequences()
    damaged_chains()
    damaged_nodes_py()
    walk_order()
    complaints()


# notification digests recorded on the unmodified source
# (class name, adopt_all) -> digest
DIGESTS = {
    ('OOBTree', False): 'cd7ce16e308b3af3',
    ('OOBTree', True): 'ad666ca154663931',
    ('OOBTreePy', False): '94597414d2235a4b',
    ('OOBTreePy', True): '003945184756fbb6',
    ('OOTreeSet', False): 'cd7ce16e308b3af3',
    ('OOTreeSet', True): 'c294ed433fd69a6f',
    ('OOTreeSetPy', False): '94597414d2235a4b',
    ('OOTreeSetPy', True): '4d9069e04b4e8df9',
}
# ---------------------------------------------------------------------------
# driver (identical in all four C03 demos)
# ---------------------------------------------------------------------------

def main():
    deepest = 0
    # every family, smallest legal node sizes
    for family in ALL_FAMILIES:
        deepest = max(deepest, run_histories(family, 2, 2, 11, 200, 30))
        if FAILURES:
            return 1
    # a few families, several node-size settings, longer histories
    for family, configs in (('OO', ((2, 2), (2, 3), (3, 2), (4, 3), (7, 5))),
                            ('LL', ((2, 2), (3, 4), (5, 2))),
                            ('IF', ((3, 3),))):
        for n, (leaf, internal) in enumerate(configs):
            deepest = max(deepest, run_histories(family, leaf, internal,
                                                 100 + n, 800, 60))
            if FAILURES:
                return 1
    expect(deepest >= 4, 'histories never reached 3+ levels (%d)' % deepest)
    # default sizes as well (subclass-free, big tree, one verification)
    from BTrees.IIBTree import IIBTree, IIBTreePy
    for cls in (IIBTree, IIBTreePy):
        t = cls()
        model = {}
        rng = random.Random(7)
        for i in range(40000):
            k = rng.randrange(30000)
            t[k] = i
            model[k] = i
        verify(t, model, True, cls.max_leaf_size, cls.max_internal_size,
               'default sizes ' + cls.__name__)
        for k in sorted(model)[:20000:1] + sorted(model)[::-3]:
            if k in model:
                del t[k]
                del model[k]
        verify(t, model, True, cls.max_leaf_size, cls.max_internal_size,
               'default sizes after deletes ' + cls.__name__)
    # persistence notifications against recorded constants
    from BTrees.OOBTree import OOBTree, OOBTreePy, OOTreeSet, OOTreeSetPy
    for cls, is_map in ((OOBTree, True), (OOBTreePy, True),
                        (OOTreeSet, False), (OOTreeSetPy, False)):
        for adopt_all in (False, True):
            d = notification_digest(cls, is_map, 2, 2, 5, 300, 30, adopt_all)
            if '--record' in sys.argv:
                print('    (%r, %r): %r,' % (cls.__name__, adopt_all, d))
            else:
                expect(DIGESTS.get((cls.__name__, adopt_all)) == d,
                       'notification digest %s adopt_all=%s: %s'
                       % (cls.__name__, adopt_all, d))
    specific()
    if FAILURES:
        print('%d failure(s)' % len(FAILURES))
        return 1
    print('OK')
    return 0


if __name__ == '__main__':
    sys.exit(main())
