#!/usr/bin/env python
"""Differential demo for refactoring C01/u (BucketTemplate.c: _bucket_set
and its new helpers bucket_open_slot / bucket_close_slot).

Run as:  PYTHONPATH=<tree>/src /venv/bin/python demo.py

_bucket_set is the one routine behind every insert / replace / delete of a
Bucket or Set, standalone or as a leaf of a BTree / TreeSet.  The program
therefore drives mainly the leaf containers of all 22 families: seeded random
histories against a dict / set model, growth over every reallocation step
and shrinking to empty in several orders, the unique forms (insert,
setdefault, add), persistence effects with a stand-in jar (a leaf registers
exactly when it changes; same-value stores; ghosts; refused loads; the
"changed" report that makes a one-leaf tree register its root), error paths
(unconvertible keys and values, default-comparison keys, missing keys, a
comparison raising at every step of the binary search), finalizers that look
at the leaf while a key / value is released, and reference counts of object
keys and values in the C leaves.  Trees with tiny node sizes are driven too
(every tree mutation ends in _bucket_set), with a walk of the node structure
after each call.

Everything observed is also folded into a SHA-256 trace digest which is
compared with the value recorded on the unmodified tree, so any observable
difference (not only a disagreement with the model) makes the demo fail.
Exit status 0 == behaviour as specified.
"""
import gc
import hashlib
import importlib
import random
import sys
import time

SEED = 20260930
# Which implementations to drive: 'C' (extension types) and/or 'Py'.
IMPLS = ('C', 'Py')
# Number of random operations per (family, kind, impl, size) history.
NOPS_TREE = 150
NOPS_LEAF = 1000
EXPECTED_DIGEST = (
    "6ddbcdfba09cc1e77a8f4d867a7157332ec7ef119cfe3974cb8dc19fc1935583")
# (recorded on the unmodified tree)
# (recorded on the unmodified tree)

T0 = time.time()
_H = hashlib.sha256()
_NREC = [0]


def rec(*a):
    _NREC[0] += 1
    _H.update(repr(a).encode('utf-8'))
    _H.update(b'\n')


class Failure(Exception):
    pass


def check(cond, *msg):
    if not cond:
        raise Failure(' '.join(str(m) for m in msg))


# --------------------------------------------------------------------------
# keys and values
# --------------------------------------------------------------------------

class K:
    """Object key with explicit ordering, countable comparisons and an
    optional fuse: the FUSE-th comparison from now raises Boom."""
    __slots__ = ('n', '__weakref__')
    count = 0
    fuse = None

    def __init__(self, n):
        self.n = n

    @classmethod
    def _tick(cls):
        cls.count += 1
        if cls.fuse is not None:
            cls.fuse -= 1
            if cls.fuse <= 0:
                cls.fuse = None
                raise Boom('comparison')

    def __lt__(self, other):
        K._tick()
        return self.n < other.n

    def __gt__(self, other):
        K._tick()
        return self.n > other.n

    def __le__(self, other):
        K._tick()
        return self.n <= other.n

    def __ge__(self, other):
        K._tick()
        return self.n >= other.n

    def __eq__(self, other):
        if not isinstance(other, K):
            return NotImplemented
        K._tick()
        return self.n == other.n

    def __ne__(self, other):
        if not isinstance(other, K):
            return NotImplemented
        K._tick()
        return self.n != other.n

    def __hash__(self):
        return hash(self.n)

    def __repr__(self):
        return 'K(%d)' % self.n


class V:
    """Object value (never equal to another one), for reference counts."""
    __slots__ = ('n',)

    def __init__(self, n):
        self.n = n

    def __repr__(self):
        return 'V(%d)' % self.n


class Boom(Exception):
    pass


class ActivationError(Exception):
    pass


def sortkey(k):
    # None is the smallest object key.
    return (k is not None, 0 if k is None else k)


I_MIN, I_MAX = -2 ** 31, 2 ** 31 - 1
L_MIN, L_MAX = -2 ** 63, 2 ** 63 - 1
U_MAX = 2 ** 32 - 1
Q_MAX = 2 ** 64 - 1

KEY_POOLS = {
    'O': [None] + list(range(-3, 19)),
    'I': [I_MIN, I_MIN + 1, -7, -1, 0, 1, 2, 3, 4, 5, 6, 7, 8, 9, 10, 11,
          12, 13, 100, 1000, I_MAX - 1, I_MAX],
    'L': [L_MIN, L_MIN + 1, I_MIN - 1, -7, -1, 0, 1, 2, 3, 4, 5, 6, 7, 8, 9,
          10, 11, 12, 13, I_MAX + 1, L_MAX - 1, L_MAX],
    'U': [0, 1, 2, 3, 4, 5, 6, 7, 8, 9, 10, 11, 12, 13, 14, 15, 100, 1000,
          I_MAX, I_MAX + 1, U_MAX - 1, U_MAX],
    'Q': [0, 1, 2, 3, 4, 5, 6, 7, 8, 9, 10, 11, 12, 13, 14, 15, 100,
          U_MAX, U_MAX + 1, L_MAX + 1, Q_MAX - 1, Q_MAX],
    'f': [bytes([a, b]) for a in (0, 97, 255) for b in (0, 1, 65, 66, 67,
                                                        254, 255)],
}
VAL_POOLS = {
    'O': [None, 0, 1, 'a', 'b', (1, 2), 2.5, 'longer string value'],
    'I': [I_MIN, -1, 0, 1, 2, 3, I_MAX],
    'L': [L_MIN, -1, 0, 1, 2, 3, L_MAX],
    'U': [0, 1, 2, 3, U_MAX],
    'Q': [0, 1, 2, 3, Q_MAX],
    'F': [0.0, -1.25, 0.5, 3.0, 1024.0, -65536.5],
    'f': [b'\0' * 6, b'abcdef', b'\xff' * 6, b'zzzzzz'],
}
BAD_KEYS = {
    'O': [object()],
    'I': ['x', 2 ** 31, -2 ** 31 - 1, 1.5, None, 2 ** 70],
    'L': ['x', 2 ** 63, -2 ** 63 - 1, 1.5, None, 2 ** 70],
    'U': ['x', -1, 2 ** 32, 1.5, None, 2 ** 70],
    'Q': ['x', -1, 2 ** 64, 1.5, None, 2 ** 70],
    'f': ['ab', b'a', b'abc', 7, None],
}
BAD_VALS = {
    'O': [],
    'I': ['x', 2 ** 31, None, 1.5],
    'L': ['x', 2 ** 63, None, 1.5],
    'U': ['x', -1, 2 ** 32, None],
    'Q': ['x', -1, 2 ** 64, None],
    'F': ['x', None],
    'f': ['abcdef', b'abc', None],
}

FAMILIES = ['IF', 'II', 'IO', 'IU', 'LF', 'LL', 'LO', 'LQ', 'OI', 'OL', 'OO',
            'OQ', 'OU', 'QF', 'QL', 'QO', 'QQ', 'UF', 'UI', 'UO', 'UU', 'fs']


class Family:
    def __init__(self, prefix, impl):
        self.prefix = prefix
        self.impl = impl
        mod = importlib.import_module('BTrees.%sBTree' % prefix)
        sfx = 'Py' if impl == 'Py' else ''
        self.BTree = getattr(mod, prefix + 'BTree' + sfx)
        self.Bucket = getattr(mod, prefix + 'Bucket' + sfx)
        self.TreeSet = getattr(mod, prefix + 'TreeSet' + sfx)
        self.Set = getattr(mod, prefix + 'Set' + sfx)
        if prefix == 'fs':
            self.kk = self.vk = 'f'
        else:
            self.kk, self.vk = prefix[0], prefix[1]
        if impl == 'C':
            check(not hasattr(self.BTree, '_split_root'),
                  'expected the C type, got the Python one', prefix)

    def sized(self, base, leaf, internal):
        name = '%s_%d_%d' % (base.__name__, leaf, internal)
        return type(name, (base,), {'max_leaf_size': leaf,
                                    'max_internal_size': internal})


# --------------------------------------------------------------------------
# structure walking (works for C and Py nodes: both have __getstate__)
# --------------------------------------------------------------------------

class Leaf:
    __slots__ = ('obj', 'keys', 'values', 'next')


def inline_flat(lf):
    if lf.values is None:
        return tuple(lf.keys)
    flat = []
    for k, v in zip(lf.keys, lf.values):
        flat.append(k)
        flat.append(v)
    return tuple(flat)


def walk(root, tree_base, is_map, max_leaf=None, max_internal=None):
    """Check the structural invariants of the tree rooted at root and return
    (leaves, separators) where separators is the list of all separator keys
    of interior nodes (with multiplicity)."""
    seps = []
    leaves = []
    SENT = object()

    def in_bounds(k, lo, hi):
        if lo is not SENT:
            check(not sortkey(k) < sortkey(lo), 'key', k, 'below bound', lo)
        if hi is not SENT:
            check(sortkey(k) < sortkey(hi), 'key', k, 'not below bound', hi)

    def leaf_from_state(obj, st, lo, hi):
        lf = Leaf()
        lf.obj = obj
        flat = st[0]
        if is_map:
            check(len(flat) % 2 == 0, 'odd bucket state')
            lf.keys = list(flat[0::2])
            lf.values = list(flat[1::2])
        else:
            lf.keys = list(flat)
            lf.values = None
        lf.next = st[1] if len(st) > 1 else None
        check(lf.keys, 'empty leaf inside a tree')
        if max_leaf is not None:
            check(len(lf.keys) <= max_leaf, 'leaf over max_leaf_size')
        for a, b in zip(lf.keys, lf.keys[1:]):
            check(sortkey(a) < sortkey(b), 'leaf keys out of order', a, b)
        for k in lf.keys:
            in_bounds(k, lo, hi)
        leaves.append(lf)
        return lf

    def node(n, lo, hi, is_root):
        """returns the first Leaf of the subtree"""
        st = n.__getstate__()
        check(st is not None, 'empty interior node')
        if len(st) == 1:
            # one inlined, oid-less bucket
            check(is_root or True)
            inl = st[0]
            check(len(inl) == 1 and isinstance(inl[0], tuple), 'bad inline')
            return leaf_from_state(None, inl[0], lo, hi)
        items, firstbucket = st
        kids = items[0::2]
        keys = items[1::2]
        check(len(kids) == len(keys) + 1, 'children/keys mismatch')
        if max_internal is not None:
            limit = 2 * max_internal - 1 if is_root else max_internal
            check(len(kids) <= limit, 'interior node too wide',
                  len(kids), limit)
        for a, b in zip(keys, keys[1:]):
            check(sortkey(a) < sortkey(b), 'separators out of order')
        for k in keys:
            in_bounds(k, lo, hi)
        seps.extend(keys)
        first = None
        for i, kid in enumerate(kids):
            klo = lo if i == 0 else keys[i - 1]
            khi = hi if i == len(keys) else keys[i]
            if isinstance(kid, tree_base):
                check(type(kid) is type(n), 'child tree of another type')
                f = node(kid, klo, khi, False)
            else:
                f = leaf_from_state(kid, kid.__getstate__(), klo, khi)
            if first is None:
                first = f
        fb_checks.append((first, firstbucket))
        return first

    st = root.__getstate__()
    if st is None:
        return [], []
    fb_checks = []
    node(root, SENT, SENT, True)
    if len(st) == 2:
        # A subtree holding one oid-less bucket inlines that bucket's state,
        # so the bucket object itself is found by following the leaf chain.
        b = st[1]
        for lf in leaves:
            check(b is not None, 'leaf chain too short')
            bst = b.__getstate__()
            if lf.obj is None:
                lf.obj = b
                check(bst[0] == inline_flat(lf), 'inlined leaf differs')
            b = bst[1] if len(bst) > 1 else None
        check(b is None, 'leaf chain too long')
    for first, firstbucket in fb_checks:
        check(first.obj is firstbucket, 'firstbucket is not the first leaf')
    for a, b in zip(leaves, leaves[1:]):
        check(a.next is b.obj, 'leaf chain broken')
    check(leaves[-1].next is None, 'last leaf has a successor')
    return leaves, seps


def tree_nodes(root, tree_base):
    """All persistent node objects of the tree, interior nodes depth-first
    and then every leaf of the chain.  Like a real storage this reaches the
    leaves through the 'next' pointers too, so the only bucket left without
    an oid is the sole bucket of a one-leaf tree (which nobody else refers
    to and whose state is inlined in the root's)."""
    out = []
    seen = set()

    def add(o):
        if id(o) not in seen:
            seen.add(id(o))
            out.append(o)

    def interior(n):
        add(n)
        st = n.__getstate__()
        if st is None or len(st) == 1:
            return
        for kid in st[0][0::2]:
            if isinstance(kid, tree_base):
                interior(kid)
            else:
                add(kid)

    interior(root)
    st = root.__getstate__()
    if st is not None and len(st) == 2:
        b = st[1]
        while b is not None:
            add(b)
            bst = b.__getstate__()
            b = bst[1] if len(bst) > 1 else None
    return out


# --------------------------------------------------------------------------
# stand-in jar
# --------------------------------------------------------------------------

class Jar:
    def __init__(self):
        self.registered = []
        self.reads = []
        self.loads = []
        self.states = {}
        self.objs = {}
        self.fail = set()
        self.counter = 0

    # the data-manager API used by persistent
    def register(self, obj):
        self.registered.append(obj._p_oid)

    def readCurrent(self, obj):
        self.reads.append(obj._p_oid)

    def setstate(self, obj):
        oid = obj._p_oid
        self.loads.append(oid)
        if oid in self.fail:
            raise ActivationError(oid)
        obj.__setstate__(self.states[oid])

    def oldstate(self, obj, serial):
        return self.states[obj._p_oid]

    # helpers
    def commit(self, root, tree_base):
        """Give every node an oid (except a sole inlined bucket), remember
        its state and mark it up to date."""
        for n in tree_nodes(root, tree_base):
            if n._p_oid is None:
                self.counter += 1
                n._p_jar = self
                n._p_oid = b'%08d' % self.counter
                n._p_serial = b'\0\0\0\0\0\0\0\1'
            self.objs[n._p_oid] = n
        for n in tree_nodes(root, tree_base):
            self.states[n._p_oid] = n.__getstate__()
        for n in tree_nodes(root, tree_base):
            n._p_changed = False
        self.reset()

    def reset(self):
        del self.registered[:]
        del self.reads[:]
        del self.loads[:]

    def ghostify_all(self, keep=()):
        for oid in sorted(self.objs):
            o = self.objs[oid]
            if o in keep:
                continue
            o._p_deactivate()

    def lost_updates(self):
        """oids of up-to-date (not 'changed') non-ghost nodes whose state
        differs from the committed state"""
        bad = []
        for oid in sorted(self.objs):
            o = self.objs[oid]
            if o._p_changed is None or o._p_changed:
                continue
            if o.__getstate__() != self.states[oid]:
                bad.append(oid)
        return bad


# --------------------------------------------------------------------------
# random histories against a model
# --------------------------------------------------------------------------

def exc_name(e):
    return type(e).__name__


def norm(r):
    """normalise a return value for the trace"""
    if isinstance(r, bool):
        return int(r)
    if isinstance(r, float):
        return repr(r)
    return r


class Driver:
    def __init__(self, fam, kind, cls, rng, keys, vals, tag,
                 tree_base=None, max_leaf=None, max_internal=None):
        self.fam = fam
        self.kind = kind            # 'BTree' 'Bucket' 'TreeSet' 'Set'
        self.is_map = kind in ('BTree', 'Bucket')
        self.is_tree = kind in ('BTree', 'TreeSet')
        self.cls = cls
        self.rng = rng
        self.keys = keys
        self.vals = vals
        self.tag = tag
        self.tree_base = tree_base
        self.max_leaf = max_leaf
        self.max_internal = max_internal
        self.t = cls()
        self.model = {}
        self.jar = None

    # ---- comparison with the model
    def contents(self):
        if self.is_map:
            return list(self.t.items())
        return list(self.t)

    def model_contents(self):
        ks = sorted(self.model, key=sortkey)
        if self.is_map:
            return [(k, self.model[k]) for k in ks]
        return ks

    def verify(self, deep=True):
        got = self.contents()
        exp = self.model_contents()
        check(got == exp, self.tag, 'contents differ', got, exp)
        check(len(self.t) == len(exp), self.tag, 'len differs')
        check(bool(self.t) == bool(exp), self.tag, 'bool differs')
        check(list(self.t.keys()) == [k for k in sorted(self.model,
                                                        key=sortkey)])
        if self.is_tree and deep:
            leaves, seps = walk(self.t, self.tree_base, self.is_map,
                                self.max_leaf, self.max_internal)
            flat = [k for lf in leaves for k in lf.keys]
            check(flat == sorted(self.model, key=sortkey),
                  self.tag, 'leaf walk differs from model')
            if hasattr(self.t, '_check'):
                self.t._check()
            return leaves, seps
        return None, None

    # ---- one random operation
    def step(self):
        rng = self.rng
        t = self.t
        m = self.model
        k = rng.choice(self.keys)
        v = rng.choice(self.vals) if self.is_map else None
        if self.is_map:
            ops = ['set'] * 8 + ['del'] * 6 + ['get', 'getitem', 'in',
                                               'has_key', 'setdefault',
                                               'pop', 'pop', 'popd',
                                               'popitem', 'update',
                                               'badkey', 'badval']
            if hasattr(t, 'insert'):
                ops += ['insert'] * 3
        else:
            ops = ['add'] * 6 + ['remove'] * 5 + ['discard'] * 2 + [
                'insert', 'in', 'has_key', 'update', 'spop', 'ior', 'iand',
                'isub', 'ixor', 'badkey']
        if rng.random() < 0.004:
            ops = ['clear']
        op = rng.choice(ops)
        before = None
        try:
            if op == 'set':
                t[k] = v
                m[k] = v
                r = None
            elif op == 'del':
                if k in m:
                    del t[k]
                    del m[k]
                    r = None
                else:
                    before = self.model_contents()
                    del t[k]
                    raise Failure('del of missing key did not raise')
            elif op == 'get':
                r = t.get(k, 'dflt')
                check(r == m.get(k, 'dflt'), self.tag, 'get')
            elif op == 'getitem':
                if k in m:
                    r = t[k]
                    check(r == m[k], self.tag, 'getitem')
                else:
                    before = self.model_contents()
                    t[k]
                    raise Failure('getitem of missing key did not raise')
            elif op == 'in':
                r = k in t
                check(r == (k in m), self.tag, 'in')
            elif op == 'has_key':
                r = bool(t.has_key(k))
                check(r == (k in m), self.tag, 'has_key')
            elif op == 'setdefault':
                r = t.setdefault(k, v)
                check(r == m.setdefault(k, v), self.tag, 'setdefault')
            elif op == 'pop':
                if k in m:
                    r = t.pop(k)
                    check(r == m.pop(k), self.tag, 'pop')
                else:
                    before = self.model_contents()
                    t.pop(k)
                    raise Failure('pop of missing key did not raise')
            elif op == 'popd':
                r = t.pop(k, 'dflt')
                check(r == m.pop(k, 'dflt'), self.tag, 'pop default')
            elif op == 'popitem':
                if m:
                    r = t.popitem()
                    mk = min(m, key=sortkey)
                    check(r == (mk, m.pop(mk)), self.tag, 'popitem')
                else:
                    before = self.model_contents()
                    t.popitem()
                    raise Failure('popitem of empty did not raise')
            elif op == 'insert' and self.is_map:
                r = t.insert(k, v)
                exp = 0 if k in m else 1
                m.setdefault(k, v)
                check(int(r) == exp, self.tag, 'insert')
            elif op == 'update' and self.is_map:
                pairs = [(rng.choice(self.keys), rng.choice(self.vals))
                         for _ in range(rng.randrange(0, 5))]
                form = rng.randrange(3)
                if form == 0:
                    r = t.update(pairs)
                elif form == 1:
                    r = t.update(dict(pairs))
                    pairs = list(dict(pairs).items())
                else:
                    r = t.update(tuple(pairs))
                m.update(pairs)
            elif op == 'badkey':
                before = self.model_contents()
                bk = rng.choice(BAD_KEYS[self.fam.kk])
                sub = rng.choice(['set', 'del', 'get', 'in', 'pop']
                                 if self.is_map else
                                 ['add', 'remove', 'in', 'discard'])
                rec('badkey', sub, type(bk).__name__)
                if sub == 'set':
                    t[bk] = v
                elif sub == 'del':
                    del t[bk]
                elif sub == 'get':
                    r = t.get(bk, 'dflt')
                    check(r == 'dflt', 'get(bad key)')
                elif sub == 'in':
                    r = bk in t
                    check(r is False, 'bad key in')
                elif sub == 'pop':
                    t.pop(bk)
                elif sub == 'add':
                    t.add(bk)
                elif sub == 'remove':
                    t.remove(bk)
                elif sub == 'discard':
                    r = t.discard(bk)
                if sub in ('set', 'del', 'pop', 'add', 'remove'):
                    raise Failure('bad key accepted: %r' % (bk,))
            elif op == 'badval':
                if not BAD_VALS[self.fam.vk]:
                    return
                before = self.model_contents()
                bv = rng.choice(BAD_VALS[self.fam.vk])
                rec('badval', type(bv).__name__)
                t[k] = bv
                raise Failure('bad value accepted: %r' % (bv,))
            elif op == 'add' or (op == 'insert' and not self.is_map):
                r = t.add(k) if op == 'add' else t.insert(k)
                exp = 0 if k in m else 1
                m[k] = None
                check(int(r) == exp, self.tag, 'add')
            elif op == 'remove':
                if k in m:
                    r = t.remove(k)
                    del m[k]
                else:
                    before = self.model_contents()
                    t.remove(k)
                    raise Failure('remove of missing key did not raise')
            elif op == 'discard':
                r = t.discard(k)
                m.pop(k, None)
            elif op == 'update':
                ks = [rng.choice(self.keys)
                      for _ in range(rng.randrange(0, 5))]
                r = t.update(ks)
                for x in ks:
                    m[x] = None
            elif op == 'spop':
                if m:
                    r = t.pop()
                    check(r in m, self.tag, 'set pop')
                    del m[r]
                else:
                    before = self.model_contents()
                    t.pop()
                    raise Failure('pop of empty set did not raise')
            elif op in ('ior', 'iand', 'isub', 'ixor'):
                ks = [rng.choice(self.keys)
                      for _ in range(rng.randrange(0, 6))]
                other = self.fam.Set(ks) if rng.random() < 0.5 else \
                    self.fam.TreeSet(ks)
                ms = set(m)
                if op == 'ior':
                    t |= other
                    ms |= set(ks)
                elif op == 'iand':
                    t &= other
                    ms &= set(ks)
                elif op == 'isub':
                    t -= other
                    ms -= set(ks)
                else:
                    t ^= other
                    ms ^= set(ks)
                check(t is self.t, 'in-place operator rebinds')
                m.clear()
                for x in ms:
                    m[x] = None
                r = None
            elif op == 'clear':
                r = t.clear()
                m.clear()
            else:
                raise Failure('unknown op ' + op)
            rec(op, norm(r))
        except Failure:
            raise
        except (KeyError, TypeError, ValueError, OverflowError,
                IndexError) as e:
            check(before is not None, self.tag, op, k,
                  'unexpected exception', repr(e))
            rec(op, 'raised', exc_name(e))
            check(self.model_contents() == before)
        return op

    def run(self, nops, deep_every=1):
        for i in range(nops):
            self.step()
            self.verify(deep=(i % deep_every == 0))
        rec(self.tag, 'final', self.contents())


def section_histories():
    rng = random.Random(SEED)
    sizes = [(1, 2), (2, 2), (2, 3), (3, 4), (4, 3), (1, 3)]
    n = 0
    for impl in IMPLS:
        for fi, prefix in enumerate(FAMILIES):
            fam = Family(prefix, impl)
            keys = KEY_POOLS[fam.kk]
            vals = VAL_POOLS[fam.vk]
            for si in range(2):
                leaf, internal = sizes[(fi + si * 3) % len(sizes)]
                for kind in ('BTree', 'TreeSet'):
                    base = getattr(fam, kind)
                    cls = fam.sized(base, leaf, internal)
                    d = Driver(fam, kind, cls, rng, keys, vals,
                               '%s/%s/%s/%d,%d' % (impl, prefix, kind, leaf,
                                                   internal),
                               tree_base=base, max_leaf=leaf,
                               max_internal=internal)
                    d.run(NOPS_TREE)
                    n += NOPS_TREE
            for kind in ('Bucket', 'Set'):
                d = Driver(fam, kind, getattr(fam, kind), rng, keys, vals,
                           '%s/%s/%s' % (impl, prefix, kind))
                d.run(NOPS_LEAF)
                n += NOPS_LEAF
    return n


# --------------------------------------------------------------------------
# deterministic shapes: grow to three and more levels, then delete in
# several orders so that every unlink / firstbucket path of _BTree_set runs
# --------------------------------------------------------------------------

def section_shapes():
    n = 0
    orders = ['asc', 'desc', 'inside_out', 'outside_in', 'stride']
    for impl in IMPLS:
        for prefix in ('OO', 'II', 'QQ', 'fs', 'LF'):
            fam = Family(prefix, impl)
            pool = sorted(KEY_POOLS[fam.kk], key=sortkey)
            if fam.kk in ('I', 'L', 'U', 'Q'):
                pool = sorted(set(pool) | set(range(20, 38)))
            elif fam.kk == 'O':
                pool = [None] + list(range(39))
            for leaf, internal in ((1, 2), (2, 2), (3, 3)):
                for kind in ('BTree', 'TreeSet'):
                    base = getattr(fam, kind)
                    cls = fam.sized(base, leaf, internal)
                    for order in orders:
                        t = cls()
                        is_map = kind == 'BTree'
                        val = VAL_POOLS[fam.vk][-1]
                        ins = list(pool)
                        if order in ('desc', 'stride'):
                            ins.reverse()
                        for k in ins:
                            if is_map:
                                t[k] = val
                            else:
                                t.add(k)
                        live = list(pool)
                        if order == 'asc':
                            dels = list(pool)
                        elif order == 'desc':
                            dels = list(reversed(pool))
                        elif order == 'inside_out':
                            mid = len(pool) // 2
                            dels = [pool[j] for j in sorted(
                                range(len(pool)),
                                key=lambda j: (abs(j - mid), j))]
                        elif order == 'outside_in':
                            dels = []
                            a, b = 0, len(pool) - 1
                            while a <= b:
                                dels.append(pool[a])
                                if a != b:
                                    dels.append(pool[b])
                                a += 1
                                b -= 1
                        else:
                            dels = pool[0::3] + pool[1::3] + pool[2::3]
                        for k in dels:
                            if is_map:
                                del t[k]
                            else:
                                t.remove(k)
                            live.remove(k)
                            leaves, seps = walk(t, base, is_map, leaf,
                                                internal)
                            flat = [x for lf in leaves for x in lf.keys]
                            check(flat == live, 'shape', prefix, kind, order)
                            check(list(t.keys()) == live)
                            check(len(t) == len(live))
                            rec(len(leaves), len(seps))
                            n += 1
                            # deleting again must raise and change nothing
                            try:
                                if is_map:
                                    del t[k]
                                else:
                                    t.remove(k)
                            except KeyError:
                                pass
                            else:
                                raise Failure('second delete did not raise')
                        check(not t and t.__getstate__() is None)
    return n


# --------------------------------------------------------------------------
# error paths of the tree-level set/delete
# --------------------------------------------------------------------------

def section_errors():
    n = 0
    for impl in IMPLS:
        for prefix in ('OO', 'IO', 'LL', 'fs', 'UU'):
            fam = Family(prefix, impl)
            keys = KEY_POOLS[fam.kk]
            val = VAL_POOLS[fam.vk][1]
            for kind in ('BTree', 'TreeSet'):
                base = getattr(fam, kind)
                is_map = kind == 'BTree'
                # delete from an empty tree
                t = fam.sized(base, 2, 2)()
                for k in keys[:4]:
                    try:
                        if is_map:
                            del t[k]
                        else:
                            t.remove(k)
                    except KeyError as e:
                        rec('empty-del', exc_name(e))
                    else:
                        raise Failure('delete from empty tree')
                    check(len(t) == 0 and not t and list(t.keys()) == [])
                    check(t.__getstate__() is None)
                    n += 1
                # the tree is still usable
                if is_map:
                    t[keys[1]] = val
                else:
                    t.add(keys[1])
                check(list(t.keys()) == [keys[1]])

                # bad node sizes configured on the class (C reads them
                # lazily; the Python implementation does not validate, so
                # this is only driven against the C types)
                if impl == 'C':
                    for bad in ({'max_leaf_size': 0},
                                {'max_internal_size': 0},
                                {'max_leaf_size': -5},
                                {'max_internal_size': -1},
                                {'max_leaf_size': 'x'},
                                {'max_internal_size': None}):
                        cls = type('Bad', (base,), dict(bad))
                        t = cls()
                        for k in keys[:3]:
                            try:
                                if is_map:
                                    t[k] = val
                                else:
                                    t.add(k)
                            except (ValueError, TypeError) as e:
                                rec('badsize', sorted(bad)[0], exc_name(e))
                            else:
                                raise Failure('bad size accepted', bad)
                            check(len(t) == 0 and not t)
                            check(t.__getstate__() is None)
                            t._check()
                            try:
                                if is_map:
                                    del t[k]
                                else:
                                    t.remove(k)
                            except KeyError:
                                pass
                            else:
                                raise Failure('delete from empty tree')
                            n += 1
                        # repairing the class makes the instance usable
                        for name in bad:
                            setattr(cls, name, 2)
                        for k in keys[:6]:
                            if is_map:
                                t[k] = val
                            else:
                                t.add(k)
                        check(list(t.keys()) == sorted(keys[:6],
                                                       key=sortkey))
                        t._check()
    return n


def build_K_tree(cls, is_map, ks, vs):
    t = cls()
    for k, v in zip(ks, vs):
        if is_map:
            t[k] = v
        else:
            t.add(k)
    return t


def section_raising_comparisons():
    """For a fixed tree of K keys, run one insert / delete with the fuse set
    to blow at the i-th comparison, for every i until the operation gets
    through.  Record outcome and resulting contents (they go into the trace
    digest) and check the tree is still structurally sound afterwards."""
    n = 0
    rng = random.Random(SEED + 1)
    for impl in IMPLS:
        fam = Family('OO', impl)
        for kind in ('BTree', 'TreeSet'):
            base = getattr(fam, kind)
            is_map = kind == 'BTree'
            for leaf, internal in ((1, 2), (2, 3)):
                cls = fam.sized(base, leaf, internal)
                nums = list(range(0, 40, 2))
                for target, op in ((0, 'del'), (8, 'del'), (20, 'del'),
                                   (38, 'del'), (16, 'del'), (7, 'set'),
                                   (-1, 'set'), (41, 'set'), (8, 'set'),
                                   (9, 'del')):
                    fuse = 1
                    while True:
                        ks = [K(i) for i in nums]
                        vs = [V(i) for i in nums]
                        t = build_K_tree(cls, is_map, ks, vs)
                        # shrink a bit so that some leaves hold one key
                        for i in (2, 6, 10, 22, 36):
                            if is_map:
                                del t[K(i)]
                            else:
                                t.remove(K(i))
                        before = [k.n for k in t.keys()]
                        probe = K(target)
                        K.fuse = fuse
                        try:
                            if op == 'del':
                                if is_map:
                                    del t[probe]
                                else:
                                    t.remove(probe)
                            else:
                                if is_map:
                                    t[probe] = V(-1)
                                else:
                                    t.add(probe)
                            out = 'ok'
                        except Boom:
                            out = 'boom'
                        except KeyError:
                            out = 'KeyError'
                        blown = K.fuse is None
                        K.fuse = None
                        # NB: when the comparison that blows is the one of
                        # the separator repair during a delete, the key is
                        # already gone from its leaf and the unlinking of an
                        # emptied leaf is skipped (pre-existing behaviour,
                        # identical before and after the refactoring); so
                        # the structure is only checked when the call got
                        # through or changed nothing.
                        try:
                            after = [k.n for k in t.keys()]
                        except RuntimeError as e:
                            after = exc_name(e)
                        if out != 'boom' or after == before:
                            walk(t, base, is_map, None, None)
                            if hasattr(t, '_check'):
                                t._check()
                        rec('fuse', impl, kind, leaf, internal, target, op,
                            fuse, out, after == before, after)
                        if out == 'KeyError':
                            check(after == before)
                        if out == 'ok':
                            exp = sorted(set(before) - {target}
                                         if op == 'del' else
                                         set(before) | {target})
                            check(after == exp, 'fuse: wrong result')
                        n += 1
                        if not blown:
                            break
                        fuse += 1
                        check(fuse < 200, 'runaway fuse loop')
    return n


# --------------------------------------------------------------------------
# persistence effects
# --------------------------------------------------------------------------

def section_persistence():
    n = 0
    rng = random.Random(SEED + 2)
    for impl in IMPLS:
        for prefix in ('OO', 'II', 'LF', 'fs', 'QO'):
            fam = Family(prefix, impl)
            keys = KEY_POOLS[fam.kk]
            vals = VAL_POOLS[fam.vk]
            for kind in ('BTree', 'TreeSet'):
                base = getattr(fam, kind)
                is_map = kind == 'BTree'
                for leaf, internal in ((1, 2), (2, 3), (30, 30)):
                    cls = fam.sized(base, leaf, internal)
                    d = Driver(fam, kind, cls, rng, keys, vals,
                               'pers/%s/%s/%s' % (impl, prefix, kind),
                               tree_base=base, max_leaf=leaf,
                               max_internal=internal)
                    for k in keys[::2]:
                        if is_map:
                            d.t[k] = vals[0]
                        else:
                            d.t.add(k)
                        d.model[k] = vals[0] if is_map else None
                    jar = Jar()
                    for rnd in range(30):
                        jar.commit(d.t, base)
                        mode = rnd % 3
                        if mode == 1:
                            jar.ghostify_all()
                        elif mode == 2:
                            jar.ghostify_all(keep=(d.t,))
                        before = d.model_contents()
                        op = d.step()
                        changed = d.model_contents() != before
                        trace = (list(jar.registered), list(jar.reads),
                                 list(jar.loads))
                        rec('pers', op, changed, trace)
                        if changed:
                            check(jar.registered, 'mutation not registered',
                                  d.tag, op)
                        lost = jar.lost_updates()
                        check(not lost, 'lost update', d.tag, op, lost)
                        d.verify()
                        n += 1
    return n


def section_activation_failures():
    """Every node in turn refuses to load while one delete / insert runs on
    a fully ghostified tree.  The outcome and the contents afterwards go into
    the trace digest; the structure must stay walkable."""
    n = 0
    for impl in IMPLS:
        for prefix in ('OO', 'II'):
            fam = Family(prefix, impl)
            for kind in ('BTree', 'TreeSet'):
                base = getattr(fam, kind)
                is_map = kind == 'BTree'
                cls = fam.sized(base, 1, 2)
                probes = [(0, 'del'), (3, 'del'), (4, 'del'), (7, 'del'),
                          (11, 'del'), (5, 'set'), (12, 'set'), (-1, 'set')]
                for target, op in probes:
                    count = None
                    idx = 0
                    while True:
                        t = cls()
                        for k in (0, 1, 2, 3, 4, 6, 7, 8, 9, 10, 11):
                            if is_map:
                                t[k] = k
                            else:
                                t.add(k)
                        jar = Jar()
                        jar.commit(t, base)
                        oids = sorted(jar.objs)
                        if idx >= len(oids):
                            break
                        jar.ghostify_all()
                        jar.fail = {oids[idx]}
                        try:
                            if op == 'del':
                                if is_map:
                                    del t[target]
                                else:
                                    t.remove(target)
                            else:
                                if is_map:
                                    t[target] = 99
                                else:
                                    t.add(target)
                            out = 'ok'
                        except ActivationError:
                            out = 'ActivationError'
                        loads = list(jar.loads)
                        regs = list(jar.registered)
                        jar.fail = set()
                        # (a refused load in the middle of the unwinding of
                        # a delete can leave an emptied leaf linked; recorded,
                        # not judged: it is the same before and after)
                        try:
                            after = list(t.keys())
                        except RuntimeError as e:
                            after = exc_name(e)
                        if out == 'ok':
                            walk(t, base, is_map, 1, 2)
                        rec('actfail', impl, prefix, kind, target, op, idx,
                            out, after, loads, regs)
                        n += 1
                        idx += 1
    return n


# --------------------------------------------------------------------------
# reference counts of object keys and values (C types only: that is where
# they are managed by hand)
# --------------------------------------------------------------------------

def section_refcounts():
    n = 0
    rng = random.Random(SEED + 3)
    fam = Family('OO', 'C')
    for kind in ('BTree', 'TreeSet'):
        base = getattr(fam, kind)
        is_map = kind == 'BTree'
        for leaf, internal in ((1, 2), (2, 2), (2, 3), (3, 4)):
            cls = fam.sized(base, leaf, internal)
            ks = [K(i) for i in range(24)]
            vs = [V(i) for i in range(6)]
            gc.collect()
            kbase = [sys.getrefcount(k) for k in ks]
            vbase = [sys.getrefcount(v) for v in vs]
            t = cls()
            present = {}
            for stepno in range(120):
                i = rng.randrange(len(ks))
                k = ks[i]
                r = rng.random()
                if r < 0.5:
                    if is_map:
                        j = rng.randrange(len(vs))
                        t[k] = vs[j]
                        present[i] = j
                    else:
                        t.add(k)
                        present[i] = None
                elif r < 0.9:
                    try:
                        if is_map:
                            del t[k]
                        else:
                            t.remove(k)
                    except KeyError:
                        check(i not in present)
                    else:
                        check(i in present)
                        del present[i]
                elif r < 0.95 and is_map:
                    got = t.pop(k, None)
                    if i in present:
                        check(got is vs[present.pop(i)])
                    else:
                        check(got is None)
                    del got
                else:
                    # equal but distinct key object: must not be stored
                    # in place of the one already there
                    twin = K(k.n)
                    if is_map:
                        j = rng.randrange(len(vs))
                        t[twin] = vs[j]
                        if i in present:
                            present[i] = j
                            check(sys.getrefcount(twin) == 2)
                        else:
                            ks[i] = twin
                            present[i] = j
                    else:
                        t.add(twin)
                        if i in present:
                            check(sys.getrefcount(twin) == 2)
                        else:
                            ks[i] = twin
                            present[i] = None
                    del twin
                k = None
                leaves, seps = walk(t, base, is_map, leaf, internal)
                slots = {}
                for lf in leaves:
                    for x in lf.keys:
                        slots[id(x)] = slots.get(id(x), 0) + 1
                for x in seps:
                    slots[id(x)] = slots.get(id(x), 0) + 1
                vslots = {}
                if is_map:
                    for lf in leaves:
                        for x in lf.values:
                            vslots[id(x)] = vslots.get(id(x), 0) + 1
                leaves = seps = lf = x = None
                gc.collect()    # walk()'s recursive closure is a cycle
                # (measured exactly like the baselines above)
                kgot = [sys.getrefcount(k) for k in ks]
                vgot = [sys.getrefcount(v) for v in vs]
                for idx in range(len(ks)):
                    exp = kbase[idx] + slots.get(id(ks[idx]), 0)
                    check(kgot[idx] == exp, 'refcount of key', ks[idx],
                          kgot[idx], exp, kind, leaf, internal, stepno)
                for idx in range(len(vs)):
                    exp = vbase[idx] + vslots.get(id(vs[idx]), 0)
                    check(vgot[idx] == exp, 'refcount of value', vs[idx],
                          vgot[idx], exp, kind, leaf, internal, stepno)
                rec('rc', sum(kgot), sum(vgot))
                n += 1
            t.clear()
            check([sys.getrefcount(k) for k in ks] == kbase,
                  'key leak after clear')
            check([sys.getrefcount(v) for v in vs] == vbase,
                  'value leak after clear')
    return n


# --------------------------------------------------------------------------
# leaf-level sections (the code refactored here is the leaf insert / replace
# / delete routine)
# --------------------------------------------------------------------------

def leaf_state_keys(b, is_map):
    st = b.__getstate__()
    flat = st[0]
    if is_map:
        return list(flat[0::2]), list(flat[1::2])
    return list(flat), None


def section_leaf_growth():
    """Fill standalone buckets / sets well beyond every reallocation step
    (16, 32, 64, 128 slots), inserting at the front, at the back and in the
    middle, then empty them completely (the vectors are released) and fill
    them again."""
    n = 0
    rng = random.Random(SEED + 10)
    for impl in IMPLS:
        for prefix in FAMILIES:
            fam = Family(prefix, impl)
            if fam.kk == 'f':
                universe = [bytes([a, b]) for a in range(0, 256, 17)
                            for b in range(0, 256, 23)]
            elif fam.kk in ('U', 'Q'):
                universe = list(range(0, 150)) + KEY_POOLS[fam.kk][-4:]
            elif fam.kk == 'O':
                universe = [None] + list(range(-40, 110))
            else:
                universe = (list(range(-40, 110)) + KEY_POOLS[fam.kk][:2] +
                            KEY_POOLS[fam.kk][-2:])
            universe = sorted(set(universe), key=sortkey)
            vals = VAL_POOLS[fam.vk]
            for kind in ('Bucket', 'Set'):
                is_map = kind == 'Bucket'
                cls = getattr(fam, kind)
                for order in ('asc', 'desc', 'random'):
                    b = cls()
                    m = {}
                    for rnd in range(2):
                        ins = list(universe)
                        if order == 'desc':
                            ins.reverse()
                        elif order == 'random':
                            rng.shuffle(ins)
                        for k in ins:
                            v = rng.choice(vals)
                            if is_map:
                                if rnd:
                                    check(b.insert(k, v) == 1) if hasattr(
                                        b, 'insert') else b.__setitem__(k, v)
                                else:
                                    b[k] = v
                                m[k] = v
                            else:
                                check(int(b.add(k)) == 1)
                                m[k] = None
                            n += 1
                        ks, vs = leaf_state_keys(b, is_map)
                        check(ks == universe, 'leaf keys', prefix, kind)
                        if is_map:
                            check(vs == [m[k] for k in universe])
                            check(list(b.items()) == [(k, m[k])
                                                      for k in universe])
                        check(len(b) == len(universe))
                        # the unique forms must not touch what is there
                        for k in universe[::7]:
                            if is_map:
                                other = vals[0] if m[k] != vals[0] else \
                                    vals[1]
                                check(b.setdefault(k, other) == m[k])
                                check(b[k] == m[k])
                            else:
                                check(int(b.add(k)) == 0)
                        dels = list(universe)
                        if order == 'asc':
                            dels.reverse()
                        elif order == 'random':
                            rng.shuffle(dels)
                        live = list(universe)
                        for j, k in enumerate(dels):
                            if is_map:
                                if j % 2:
                                    check(b.pop(k) == m.pop(k))
                                else:
                                    del b[k]
                                    del m[k]
                            else:
                                b.remove(k)
                                del m[k]
                            live.remove(k)
                            if j % 9 == 0 or len(live) < 3:
                                ks, vs = leaf_state_keys(b, is_map)
                                check(ks == live)
                                if is_map:
                                    check(vs == [m[x] for x in live])
                            check(len(b) == len(live))
                            n += 1
                        check(not b and b.__getstate__() == ((),))
                        try:
                            if is_map:
                                del b[universe[0]]
                            else:
                                b.remove(universe[0])
                        except KeyError:
                            pass
                        else:
                            raise Failure('delete from an empty leaf')
                    rec('growth', impl, prefix, kind, order)
    return n


def section_leaf_persistence():
    """Standalone leaves with a jar: a call registers the leaf exactly when
    it changes it (assigning the value already there is a change only for
    object values, where no comparison is made); ghosts are loaded first and
    a refused load changes nothing."""
    n = 0
    rng = random.Random(SEED + 11)
    for impl in IMPLS:
        for prefix in FAMILIES:
            fam = Family(prefix, impl)
            keys = KEY_POOLS[fam.kk]
            vals = VAL_POOLS[fam.vk]
            for kind in ('Bucket', 'Set'):
                is_map = kind == 'Bucket'
                d = Driver(fam, kind, getattr(fam, kind), rng, keys, vals,
                           'leafpers/%s/%s/%s' % (impl, prefix, kind))
                jar = Jar()
                b = d.t
                jar.counter += 1
                b._p_jar = jar
                b._p_oid = b'%08d' % jar.counter
                b._p_serial = b'\0\0\0\0\0\0\0\1'
                jar.objs[b._p_oid] = b
                for rnd in range(60):
                    jar.states[b._p_oid] = b.__getstate__()
                    b._p_changed = False
                    jar.reset()
                    ghost = rnd % 3 == 1
                    if ghost:
                        b._p_deactivate()
                        check(b._p_changed is None)
                    before = d.model_contents()
                    op = d.step()
                    changed = d.model_contents() != before
                    rec('leafpers', op, changed, list(jar.registered),
                        list(jar.loads))
                    if changed:
                        check(jar.registered == [b._p_oid],
                              'mutation not registered', d.tag, op)
                        check(b._p_changed)
                    elif op not in ('set', 'update', 'ior', 'iand', 'isub',
                                    'ixor', 'clear'):
                        check(not jar.registered, 'spurious registration',
                              d.tag, op)
                    if ghost and op not in ('badkey', 'badval'):
                        check(jar.loads == [b._p_oid] or op in (
                            'update', 'ior', 'iand', 'isub', 'ixor',
                            'clear'), 'ghost not loaded', d.tag, op,
                            jar.loads)
                    check(not jar.lost_updates(), 'lost update', d.tag, op)
                    d.verify()
                    n += 1
                # same-value assignment
                if is_map and d.model:
                    for k in list(d.model)[:5]:
                        b._p_changed = False
                        jar.reset()
                        b[k] = d.model[k]
                        rec('samevalue', impl, prefix, list(jar.registered))
                        if impl == 'C' and fam.vk not in ('O', 'f'):
                            check(not jar.registered,
                                  'same value registered', prefix)
                        check(b.setdefault(k, vals[0]) == d.model[k])
                        d.verify()
                        n += 1
                # a refused load changes nothing
                jar.states[b._p_oid] = b.__getstate__()
                b._p_changed = False
                before = d.model_contents()
                for k in keys[:6]:
                    for op in ('set', 'del', 'unique'):
                        b._p_deactivate()
                        jar.fail = {b._p_oid}
                        jar.reset()
                        try:
                            if op == 'set':
                                if is_map:
                                    b[k] = vals[-1]
                                else:
                                    b.add(k)
                            elif op == 'del':
                                if is_map:
                                    del b[k]
                                else:
                                    b.remove(k)
                            else:
                                if is_map:
                                    b.setdefault(k, vals[-1])
                                else:
                                    b.insert(k)
                        except ActivationError:
                            pass
                        else:
                            raise Failure('refused load ignored')
                        check(b._p_changed is None and not jar.registered)
                        jar.fail = set()
                        check(d.contents() == before)
                        n += 1
    return n


def section_leaf_errors():
    """Single-key calls on a leaf that must raise and leave it alone:
    unconvertible keys and values, keys with default comparison, deleting a
    missing key, and (object keys) a comparison raising at each step of the
    binary search."""
    n = 0
    for impl in IMPLS:
        for prefix in FAMILIES:
            fam = Family(prefix, impl)
            keys = KEY_POOLS[fam.kk]
            vals = VAL_POOLS[fam.vk]
            for kind in ('Bucket', 'Set'):
                is_map = kind == 'Bucket'
                b = getattr(fam, kind)()
                for k in keys[::2]:
                    if is_map:
                        b[k] = vals[0]
                    else:
                        b.add(k)
                before = b.__getstate__()
                for bk in BAD_KEYS[fam.kk]:
                    for op in ('set', 'del', 'unique'):
                        try:
                            if op == 'set':
                                if is_map:
                                    b[bk] = vals[0]
                                else:
                                    b.add(bk)
                            elif op == 'del':
                                if is_map:
                                    del b[bk]
                                else:
                                    b.remove(bk)
                            else:
                                if is_map:
                                    b.setdefault(bk, vals[0])
                                else:
                                    b.insert(bk)
                        except (TypeError, KeyError, OverflowError,
                                ValueError) as e:
                            rec('leaf-badkey', impl, prefix, kind, op,
                                type(bk).__name__, exc_name(e))
                        else:
                            raise Failure('bad key accepted', prefix, bk)
                        check(b.__getstate__() == before)
                        n += 1
                if is_map:
                    for bv in BAD_VALS[fam.vk]:
                        for k in (keys[0], keys[1]):    # present / absent
                            for op in ('set', 'unique'):
                                try:
                                    if op == 'set':
                                        b[k] = bv
                                    else:
                                        r = b.setdefault(k, bv)
                                except (TypeError, OverflowError,
                                        ValueError) as e:
                                    rec('leaf-badval', impl, prefix, op,
                                        type(bv).__name__, exc_name(e))
                                else:
                                    # The C setdefault looks the key up
                                    # first and never converts the default
                                    # of a key that is present (the Python
                                    # one converts first and raises).
                                    check(op == 'unique' and impl == 'C' and
                                          k == keys[0] and r == vals[0],
                                          'bad value accepted', prefix, bv)
                                    rec('leaf-badval', impl, prefix, op,
                                        type(bv).__name__, 'returned')
                                check(b.__getstate__() == before)
                                n += 1
                for k in keys[1::2]:
                    try:
                        if is_map:
                            del b[k]
                        else:
                            b.remove(k)
                    except KeyError as e:
                        check(e.args == (k,), 'KeyError argument')
                    else:
                        raise Failure('missing key deleted')
                    check(b.__getstate__() == before)
                    n += 1
        # raising comparisons
        fam = Family('OO', impl)
        for kind in ('Bucket', 'Set'):
            is_map = kind == 'Bucket'
            cls = getattr(fam, kind)
            nums = list(range(0, 44, 2))
            for target, op in ((0, 'del'), (20, 'del'), (42, 'del'),
                               (21, 'del'), (21, 'set'), (-1, 'set'),
                               (43, 'set'), (20, 'set'), (20, 'unique'),
                               (21, 'unique')):
                fuse = 1
                while True:
                    b = cls()
                    for i in nums:
                        if is_map:
                            b[K(i)] = V(i)
                        else:
                            b.add(K(i))
                    probe = K(target)
                    K.fuse = fuse
                    try:
                        if op == 'del':
                            if is_map:
                                del b[probe]
                            else:
                                b.remove(probe)
                        elif op == 'set':
                            if is_map:
                                b[probe] = V(-1)
                            else:
                                b.add(probe)
                        else:
                            if is_map:
                                b.setdefault(probe, V(-1))
                            else:
                                b.insert(probe)
                        out = 'ok'
                    except Boom:
                        out = 'boom'
                    except KeyError:
                        out = 'KeyError'
                    blown = K.fuse is None
                    K.fuse = None
                    after = [k.n for k in b.keys()]
                    rec('leaf-fuse', impl, kind, target, op, fuse, out, after)
                    if out != 'ok':
                        check(after == nums, 'raising call changed the leaf')
                    elif op == 'del':
                        check(after == [x for x in nums if x != target])
                    else:
                        check(after == sorted(set(nums) | {target}))
                    n += 1
                    if not blown:
                        break
                    fuse += 1
                    check(fuse < 100, 'runaway fuse loop')
    return n


class Spy:
    """A value / key whose finalizer looks at the container it was in."""
    log = []
    target = None

    def __init__(self, n, probe=False):
        self.n = n
        self.probe = probe      # a look-up key that is never stored

    def __lt__(self, other):
        return self.n < other.n

    def __eq__(self, other):
        return isinstance(other, Spy) and self.n == other.n

    def __hash__(self):
        return hash(self.n)

    def __del__(self):
        t = Spy.target
        if t is None or self.probe:
            return
        try:
            seen = [k.n if isinstance(k, Spy) else k for k in t.keys()]
            if hasattr(t, 'values'):
                seen = (seen, [v.n if isinstance(v, Spy) else v
                               for v in t.values()])
            Spy.log.append((self.n, len(t), seen))
        except Exception as e:      # pragma: no cover
            Spy.log.append((self.n, 'error', exc_name(e)))


def section_finalizers():
    """The object taken out of a leaf is released only when the leaf is
    consistent again: its finalizer must see the final contents."""
    n = 0
    for impl in IMPLS:
        fam = Family('OO', impl)
        for kind, cls in (('Bucket', fam.Bucket), ('Set', fam.Set),
                          ('BTree', fam.sized(fam.BTree, 2, 2)),
                          ('TreeSet', fam.sized(fam.TreeSet, 2, 2))):
            is_map = kind in ('Bucket', 'BTree')
            t = cls()
            for i in range(12):
                if is_map:
                    t[Spy(i)] = Spy(100 + i)
                else:
                    t.add(Spy(i))
            Spy.target = t
            del Spy.log[:]
            gc.collect()
            if is_map:
                t[Spy(3, True)] = Spy(203)  # replace: old value dies
                t[Spy(4, True)] = 'plain'
            for i in (0, 5, 11, 6):
                if is_map:
                    del t[Spy(i, True)]     # key and value die
                else:
                    t.remove(Spy(i, True))
            if is_map:
                t.pop(Spy(7, True))
            gc.collect()
            Spy.target = None
            rec('finalizers', impl, kind, list(Spy.log))
            n += len(Spy.log)
            if kind in ('BTree', 'TreeSet'):
                # A key released by the leaf is finalized before the tree
                # above has unlinked a leaf that became empty, so what the
                # finalizer sees of a *tree* is only recorded, not judged.
                t = None
                continue
            for entry in Spy.log:
                check(entry[1] != 'error', 'finalizer failed', impl, kind, entry)
            # every finalizer saw a container without the dying object
            for entry in Spy.log:
                seen = entry[2]
                ks = seen[0] if is_map else seen
                check(entry[0] >= 100 or entry[0] not in ks,
                      'finalizer saw its own key', impl, kind, entry)
                if is_map and entry[0] >= 100:
                    check(entry[0] not in seen[1],
                          'finalizer saw its own value', impl, kind, entry)
                check(entry[1] == len(ks), 'len disagrees with keys')
            t = None
    return n


def section_leaf_refcounts():
    """Reference counts of object keys / values held by a C leaf equal the
    number of slots holding them, after every call."""
    n = 0
    rng = random.Random(SEED + 12)
    fam = Family('OO', 'C')
    for kind in ('Bucket', 'Set'):
        is_map = kind == 'Bucket'
        ks = [K(i) for i in range(40)]
        vs = [V(i) for i in range(6)]
        gc.collect()
        kbase = [sys.getrefcount(k) for k in ks]
        vbase = [sys.getrefcount(v) for v in vs]
        b = getattr(fam, kind)()
        for stepno in range(1500):
            i = rng.randrange(len(ks))
            k = ks[i]
            r = rng.random()
            try:
                if r < 0.45:
                    if is_map:
                        b[k] = vs[rng.randrange(len(vs))]
                    else:
                        b.add(k)
                elif r < 0.55:
                    twin = K(k.n)
                    if is_map:
                        b.setdefault(twin, vs[rng.randrange(len(vs))])
                    else:
                        b.insert(twin)
                    if twin in b and not any(x is twin for x in b.keys()):
                        check(sys.getrefcount(twin) == 2, 'twin retained')
                    else:
                        ks[i] = twin
                    twin = None
                elif r < 0.92:
                    if is_map:
                        del b[k]
                    else:
                        b.remove(k)
                elif r < 0.96:
                    K.fuse = rng.randrange(1, 6)
                    try:
                        if is_map:
                            b[k] = vs[0]
                        else:
                            b.add(k)
                    finally:
                        K.fuse = None
                else:
                    K.fuse = rng.randrange(1, 6)
                    try:
                        if is_map:
                            del b[k]
                        else:
                            b.remove(k)
                    finally:
                        K.fuse = None
            except (KeyError, Boom):
                pass
            k = None
            keys_in, vals_in = leaf_state_keys(b, is_map)
            slots = {}
            for x in keys_in:
                slots[id(x)] = slots.get(id(x), 0) + 1
            vslots = {}
            for x in vals_in or ():
                vslots[id(x)] = vslots.get(id(x), 0) + 1
            check(len(keys_in) == len(b))
            keys_in = vals_in = x = None
            kgot = [sys.getrefcount(k) for k in ks]
            vgot = [sys.getrefcount(v) for v in vs]
            for idx in range(len(ks)):
                exp = kbase[idx] + slots.get(id(ks[idx]), 0)
                check(kgot[idx] == exp, 'leaf refcount of key', ks[idx],
                      kgot[idx], exp, kind, stepno)
            for idx in range(len(vs)):
                exp = vbase[idx] + vslots.get(id(vs[idx]), 0)
                check(vgot[idx] == exp, 'leaf refcount of value', vs[idx],
                      vgot[idx], exp, kind, stepno)
            rec('leafrc', sum(kgot), sum(vgot))
            n += 1
        b.clear()
        check([sys.getrefcount(k) for k in ks] == kbase, 'key leak')
        check([sys.getrefcount(v) for v in vs] == vbase, 'value leak')
    return n


def main():
    sections = [
        ('histories', section_histories),
        ('leaf growth', section_leaf_growth),
        ('leaf persistence', section_leaf_persistence),
        ('leaf errors', section_leaf_errors),
        ('finalizers', section_finalizers),
        ('leaf refcounts', section_leaf_refcounts),
        ('tree persistence', section_persistence),
        ('tree refcounts', section_refcounts),
    ]
    try:
        for name, fn in sections:
            cnt = fn()
            print('%-22s %7d checks  trace %s  (%.1fs)' % (
                name, cnt, _H.hexdigest()[:12], time.time() - T0))
    except Failure as e:
        print('FAIL:', e)
        return 1
    digest = _H.hexdigest()
    print('trace records: %d  digest: %s' % (_NREC[0], digest))
    if EXPECTED_DIGEST is None:
        print('no expected digest recorded')
        return 0
    if digest != EXPECTED_DIGEST:
        print('FAIL: trace digest differs from the recorded one',
              EXPECTED_DIGEST)
        return 1
    print('OK')
    return 0


if __name__ == '__main__':
    sys.exit(main())
