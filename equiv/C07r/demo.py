"""Equivalence demonstration for property C07 (leaf conflict resolution is an
exact three-way merge or a refusal).  FOCUS: C07r - _base.py: the common first step of Bucket._p_resolveConflict and Set._p_resolveConflict (build three leaves of type(self), load the non-None states in order, refuse changed successor links = reason 0 before emptied leaves = reason 12) and the final emptiness test of both methods; Python half of sections A-D, and section F (order of constructor / __setstate__ calls, exceptions from either, None states not loaded)

Run as:  PYTHONPATH=<worktree>/src /venv/bin/python demo.py

What is checked (exit status 0 iff everything holds):

 A. exhaustive enumeration of (original, committed, new) leaf-state triples for
    the OO family (mapping: 3 keys x 2 values, empty both as None and as
    ``((),)``; set: 4 keys), C and pure-Python implementation, Bucket/Set level
    and one-leaf BTree/TreeSet level:
      * merge-or-refuse decision and merged state against an independent
        reference model working on key-level change sets (no cursor walk);
      * C and Python raise/return exactly the same thing (same
        BTreesConflictError args = three cursor positions + reason code);
      * SHA-256 of the whole outcome table equals a recorded constant.
 B. every other family (21 of them, native keys/values, fsBTree included):
    seeded sample of triples, same three checks (model, C == Py, no digest).
 C. successor-link (``_next``) handling: same/different/missing links in the
    three states -> reason 0 takes precedence over every other reason, the link
    is carried into the merged state.
 D. one recorded witness per reason code 0..9, 11, 12, 13 (args recorded).
 E. state unwrapping at tree level: multi-leaf states (reason 11), malformed
    shapes (TypeError with recorded message), first bad argument wins.
 F. error paths of the state loader (__setstate__ raising, constructor
    raising, unorderable keys during the merge, wrong number of arguments) and
    reference-count / instance-count neutrality of successful and refused
    merges (C implementation; also run on the Python one where meaningful).
"""
import gc
import hashlib
import itertools
import random
import sys

import BTrees
from BTrees.Interfaces import BTreesConflictError

FAILURES = []


def check(cond, *what):
    if not cond:
        FAILURES.append(what)
        if len(FAILURES) <= 20:
            print("FAIL:", *what)


# --------------------------------------------------------------------------
# reference model: key-level change sets, no cursors
# --------------------------------------------------------------------------
_MISSING = object()


def model(old, com, new):
    """old/com/new: dict key -> value (sets: value None).  Returns the merged
    dict, or None for 'refuse'."""
    if not com or not new:
        return None
    universe = set(old) | set(com) | set(new)
    ch_com = {k for k in universe
              if old.get(k, _MISSING) != com.get(k, _MISSING)}
    ch_new = {k for k in universe
              if old.get(k, _MISSING) != new.get(k, _MISSING)}
    if ch_com & ch_new:
        return None
    for side in (com, new):
        smallest = min(side)
        if any(k not in side and k < smallest for k in old):
            return None         # removed what was then the smallest key
    merged = dict(old)
    for side, changed in ((com, ch_com), (new, ch_new)):
        for k in changed:
            if k in side:
                merged[k] = side[k]
            else:
                del merged[k]
    if not merged:
        return None
    return merged


def to_state(d, is_map, empty_as_none=False, nxt=_MISSING):
    if not d and empty_as_none:
        return None
    flat = []
    for k in sorted(d):
        flat.append(k)
        if is_map:
            flat.append(d[k])
    if nxt is _MISSING:
        return (tuple(flat),)
    return (tuple(flat), nxt)


def run(obj, *states):
    try:
        return ('ok', obj._p_resolveConflict(*states))
    except BTreesConflictError as e:
        check(type(e) is BTreesConflictError, "exact class", type(e))
        check(e.args[3] == e.reason, "reason attr", e.args)
        return ('conflict', e.args)
    except Exception as e:      # noqa
        return ('error', type(e).__name__, str(e))


def wrap_tree(s):
    return None if s is None else ((s,),)


# --------------------------------------------------------------------------
# families
# --------------------------------------------------------------------------
def family_material(prefix):
    if prefix == 'fs':
        return ([b'aa', b'bb', b'cc', b'dd'], [b'000000', b'111111'])
    kt, vt = prefix
    keys = {'O': ['a', 'b', 'c', 'd']}.get(kt, [1, 2, 3, 4])
    vals = {'O': ['x', 'y'], 'F': [1.0, 2.5]}.get(vt, [10, 20])
    return keys, vals


def classes(prefix):
    mod = getattr(__import__('BTrees.%sBTree' % prefix), '%sBTree' % prefix)
    g = lambda n: getattr(mod, n)  # noqa
    c = dict(Bucket=g('Bucket'), Set=g('Set'), BTree=g('BTree'),
             TreeSet=g('TreeSet'))
    p = dict(Bucket=g('BucketPy'), Set=g('SetPy'), BTree=g('BTreePy'),
             TreeSet=g('TreeSetPy'))
    check(c['Bucket'] is not p['Bucket'], "C extension not in use", prefix)
    return c, p


def all_states(keys, vals, is_map):
    out = []
    if is_map:
        for combo in itertools.product([None] + list(vals), repeat=len(keys)):
            out.append({k: v for k, v in zip(keys, combo) if v is not None})
    else:
        for combo in itertools.product([0, 1], repeat=len(keys)):
            out.append({k: None for k, f in zip(keys, combo) if f})
    return out


def check_triple(c, p, is_map, old, com, new, nones, digest=None):
    leaf = 'Bucket' if is_map else 'Set'
    tree = 'BTree' if is_map else 'TreeSet'
    states = [to_state(d, is_map, n) for d, n in zip((old, com, new), nones)]
    expected = model(old, com, new)
    r_c = run(c[leaf](), *states)
    r_p = run(p[leaf](), *states)
    check(r_c == r_p, "C != Py", leaf, states, r_c, r_p)
    if expected is None:
        check(r_c[0] == 'conflict', "model refuses", leaf, states, r_c)
    else:
        check(r_c == ('ok', to_state(expected, is_map)),
              "model merges", leaf, states, r_c)
    # one-leaf trees: same decision, result wrapped
    tstates = [wrap_tree(s) for s in states]
    t_c = run(c[tree](), *tstates)
    t_p = run(p[tree](), *tstates)
    if r_c[0] == 'ok':
        want = ('ok', ((r_c[1],),))
    else:
        want = r_c
    check(t_c == want, "tree C", tree, tstates, t_c, want)
    check(t_p == want, "tree Py", tree, tstates, t_p, want)
    if digest is not None:
        digest.update(repr((states, r_c)).encode())


def section_A():
    c, p = classes('OO')
    table = {}
    for is_map, keys in ((True, ['a', 'b', 'c']), (False, ['a', 'b', 'c', 'd'])):
        digest = hashlib.sha256()
        sts = all_states(keys, ['x', 'y'], is_map)
        # the empty state shows up twice: once as ((),) and once as None
        variants = [(d, False) for d in sts] + [({}, True)]
        n = 0
        for (o, on), (cm, cn), (nw, nn) in itertools.product(variants,
                                                             repeat=3):
            check_triple(c, p, is_map, o, cm, nw, (on, cn, nn), digest)
            n += 1
        table[is_map] = (n, digest.hexdigest())
    return table


RECORDED_DIGESTS = {
    True: (21952, 'c3ce00e1ea913bbfb99ec80111f62cd5fe2f0833dc0562263639e7bc851ce8ca'),
    False: (4913, '85b9f9c657eaeebd2e04df0d8643b340e5cafe3b9a00e25065026e89fcc934bf'),
}


def section_B():
    rnd = random.Random(20260929)
    n = 0
    for prefix in BTrees._FAMILIES:
        if prefix == 'OO':
            continue
        keys, vals = family_material(prefix)
        c, p = classes(prefix)
        for is_map in (True, False):
            sts = all_states(keys[:3] if is_map else keys, vals, is_map)
            for _ in range(1500):
                o, cm, nw = (rnd.choice(sts) for _ in range(3))
                nones = [rnd.random() < 0.5 for _ in range(3)]
                check_triple(c, p, is_map, o, cm, nw, nones)
                n += 1
    return n


def section_C():
    """successor links"""
    n = 0
    for prefix in ('OO', 'LL', 'IF', 'fs'):
        keys, vals = family_material(prefix)
        c, p = classes(prefix)
        for impl in (c, p):
            for is_map in (True, False):
                leaf = impl['Bucket' if is_map else 'Set']
                n1, n2 = leaf(), leaf()
                v = vals[0] if is_map else None
                k1, k2, k3, k4 = keys
                triples = [
                    # (old, com, new): mergeable, conflicting, empty side
                    ({k1: v, k2: v}, {k1: v, k2: v, k3: v},
                     {k1: v, k2: v, k4: v}),
                    ({k1: v, k2: v}, {k1: v, k2: v, k3: v},
                     {k1: v, k2: v, k3: v}),
                    ({k1: v}, {}, {k1: v, k2: v}),
                    ({}, {k1: v}, {k2: v}),
                ]
                for o, cm, nw in triples:
                    for links in itertools.product([_MISSING, n1, n2],
                                                   repeat=3):
                        sts = [to_state(d, is_map, False, l)
                               for d, l in zip((o, cm, nw), links)]
                        rc1 = sys.getrefcount(n1)
                        r = run(leaf(), *sts)
                        same = links[0] is links[1] is links[2]
                        if not same:
                            check(r == ('conflict', (-1, -1, -1, 0)),
                                  "link mismatch", prefix, sts, r)
                        else:
                            m = model(o, cm, nw)
                            if m is None:
                                check(r[0] == 'conflict' and r[1][3] != 0,
                                      "link same, refuse", prefix, sts, r)
                            else:
                                check(r == ('ok', to_state(m, is_map, False,
                                                           links[0])),
                                      "link carried", prefix, sts, r)
                                if links[0] is not _MISSING:
                                    check(r[1][1] is links[0], "same link")
                        del r
                        check(sys.getrefcount(n1) == rc1, "link refcount",
                              prefix, impl is c)
                        n += 1
    return n


# one recorded witness per reason code (mapping states over int keys, LL and
# OO families, Bucket and Set):  (is_map, old, com, new, expected args)
WITNESSES = [
    # 1: both change the value of the same key (even to the same value)
    (True, {1: 10, 2: 10}, {1: 10, 2: 20}, {1: 10, 2: 30}, (2, 2, 2, 1)),
    (True, {1: 10, 2: 10}, {1: 10, 2: 20}, {1: 10, 2: 20}, (2, 2, 2, 1)),
    # 2: new deletes, committed changes
    (True, {1: 10, 2: 10, 3: 10}, {1: 10, 2: 20, 3: 10}, {1: 10, 3: 10},
     (2, 2, 2, 2)),
    # 3: committed deletes, new changes
    (True, {1: 10, 2: 10, 3: 10}, {1: 10, 3: 10}, {1: 10, 2: 20, 3: 10},
     (2, 2, 2, 3)),
    # 4: both insert the same key before an original key
    (True, {1: 10, 3: 10}, {1: 10, 2: 10, 3: 10}, {1: 10, 2: 10, 3: 10},
     (2, 2, 2, 4)),
    (False, {1: 0, 3: 0}, {1: 0, 2: 0, 3: 0}, {1: 0, 2: 0, 3: 0},
     (2, 2, 2, 4)),
    # 4 again: both delete the same key and continue with the same key
    (True, {1: 10, 2: 10, 3: 10}, {1: 10, 3: 10}, {1: 10, 3: 10},
     (2, 2, 2, 4)),
    (False, {1: 0, 2: 0, 3: 0}, {1: 0, 3: 0}, {1: 0, 3: 0}, (2, 2, 2, 4)),
    # 5: both delete the same key and continue with different keys
    (True, {1: 10, 2: 10, 3: 10}, {1: 10, 3: 10}, {1: 10, 4: 10},
     (2, 2, 2, 5)),
    (False, {1: 0, 2: 0, 3: 0}, {1: 0, 3: 0}, {1: 0, 4: 0}, (2, 2, 2, 5)),
    # 6: both append the same key
    (True, {1: 10}, {1: 10, 2: 10}, {1: 10, 2: 10}, (-1, 2, 2, 6)),
    (False, {1: 0}, {1: 0, 2: 0}, {1: 0, 2: 0}, (-1, 2, 2, 6)),
    # 7: new deleted the tail, committed changed it
    (True, {1: 10, 2: 10}, {1: 10, 2: 20}, {1: 10}, (2, 2, -1, 7)),
    # 8: committed deleted the tail, new changed it
    (True, {1: 10, 2: 10}, {1: 10}, {1: 10, 2: 20}, (2, -1, 2, 8)),
    # 9: both deleted the tail
    (True, {1: 10, 2: 10}, {1: 10}, {1: 10}, (2, -1, -1, 9)),
    (False, {1: 0, 2: 0}, {1: 0}, {1: 0}, (2, -1, -1, 9)),
    # 12: one side emptied the leaf
    (True, {1: 10}, {}, {1: 10, 2: 10}, (-1, -1, -1, 12)),
    (False, {1: 0}, {1: 0, 2: 0}, {}, (-1, -1, -1, 12)),
    # 13: removed the smallest key
    (True, {1: 10, 2: 10}, {1: 10, 2: 10, 3: 10}, {2: 10}, (1, 1, 1, 13)),
    (True, {1: 10, 2: 10}, {2: 10}, {1: 10, 2: 10, 3: 10}, (1, 1, 1, 13)),
    (False, {1: 0, 2: 0}, {2: 0}, {1: 0, 2: 0, 3: 0}, (1, 1, 1, 13)),
    # 13 even though the merge would be empty (reason 10 is unreachable)
    (False, {1: 0, 2: 0}, {1: 0}, {2: 0}, (1, 1, 1, 13)),
    # successful merges: positions do not matter, result recorded
    (True, {1: 10, 2: 10, 3: 10}, {1: 10, 3: 10, 4: 10},
     {0: 10, 1: 20, 2: 10, 3: 10}, ((0, 10, 1, 20, 3, 10, 4, 10),)),
    (False, {2: 0, 3: 0, 5: 0}, {2: 0, 5: 0, 7: 0}, {1: 0, 2: 0, 3: 0, 5: 0},
     ((1, 2, 5, 7),)),
]


def section_D():
    n = 0
    for prefix in ('LL', 'OO', 'IU', 'QO', 'OQ'):
        c, p = classes(prefix)
        for impl in (c, p):
            for is_map, o, cm, nw, want in WITNESSES:
                leaf = 'Bucket' if is_map else 'Set'
                tree = 'BTree' if is_map else 'TreeSet'
                sts = [to_state(d, is_map) for d in (o, cm, nw)]
                r = run(impl[leaf](), *sts)
                t = run(impl[tree](), *[wrap_tree(s) for s in sts])
                if len(want) == 4:
                    check(r == ('conflict', want), "witness", prefix, sts, r)
                    check(t == ('conflict', want), "witness/tree", prefix, t)
                else:
                    check(r == ('ok', want), "witness ok", prefix, sts, r)
                    check(t == ('ok', ((want,),)), "witness ok/tree", t)
                n += 1
    return n


def section_E():
    """tree-level unwrapping"""
    leafstate = ((1, 10, 2, 10),)
    good = ((leafstate,),)
    multi = (('child0', 5, 'child1'), 'firstbucket')   # a 2-tuple
    TE = 'error', 'TypeError'
    bad = [
        (5, TE + ("_p_resolveConflict: expected tuple or None for state",)),
        ([leafstate], TE + ("_p_resolveConflict: expected tuple or None for "
                            "state",)),
        ((), TE + ("_p_resolveConflict: expected 1- or 2-tuple for state",)),
        ((1, 2, 3), TE + ("_p_resolveConflict: expected 1- or 2-tuple for "
                          "state",)),
        ((5,), TE + ("_p_resolveConflict: expected 1-tuple containing bucket "
                     "state",)),
        (((),), TE + ("_p_resolveConflict: expected 1-tuple containing bucket "
                      "state",)),
        (((1, 2),), TE + ("_p_resolveConflict: expected 1-tuple containing "
                          "bucket state",)),
        ((([1, 10],),), TE + ("_p_resolveConflict: expected tuple for bucket "
                              "state",)),
        (((None,),), TE + ("_p_resolveConflict: expected tuple for bucket "
                           "state",)),
    ]
    c11 = ('conflict', (-1, -1, -1, 11))
    n = 0
    for prefix in ('LL', 'OO', 'IF'):
        c, p = classes(prefix)
        for impl in (c, p):
            for kind in ('BTree', 'TreeSet'):
                t = impl[kind]
                g = good if kind == 'BTree' else wrap_tree(((1, 2),))
                # multi-leaf state in any position -> 11
                for pos in range(3):
                    for other in (g, None):
                        args = [other] * 3
                        args[pos] = multi
                        check(run(t(), *args) == c11, "multi", kind, args)
                        n += 1
                check(run(t(), multi, multi, multi) == c11, "multi x3")
                # malformed state in any position -> TypeError, message
                for b, want in bad:
                    for pos in range(3):
                        args = [g] * 3
                        args[pos] = b
                        r = run(t(), *args)
                        check(r == want, "malformed", kind, args, r, want)
                        n += 1
                # first offending argument decides
                b0, w0 = bad[0]
                b3, w3 = bad[3]
                check(run(t(), b0, multi, g) == w0, "order 1")
                check(run(t(), multi, b0, g) == c11, "order 2")
                check(run(t(), g, b3, multi) == w3, "order 3")
                check(run(t(), g, multi, b3) == c11, "order 4")
                check(run(t(), b3, b0, multi) == w3, "order 5")
                check(run(t(), None, None, b0) == w0, "order 6")
                # all-None / empty sides reach the leaf code
                check(run(t(), None, None, None)
                      == ('conflict', (-1, -1, -1, 12)), "all None")
                check(run(t(), g, g, None)
                      == ('conflict', (-1, -1, -1, 12)), "new None")
                check(run(t(), None, g, g)[0] == 'conflict', "old None dup")
                # wrong arity
                for args in ((), (g,), (g, g), (g, g, g, g)):
                    r = run(t(), *args)
                    check(r[:2] == ('error', 'TypeError'), "arity", args, r)
                    n += 1
                # reference-count neutrality of the unwrapping / re-wrapping
                step = 2 if kind == 'BTree' else 1
                l_old = (tuple(range(1, 5)),)
                l_com = (tuple(range(1, 5 + step)),)
                l_new = (tuple(range(1, 5)) + tuple(range(7, 7 + step)),)
                t_old, t_com, t_new = (tuple([tuple([x])])
                                       for x in (l_old, l_com, l_new))
                t_multi = tuple(['data', 'firstbucket'])
                objs = [l_old, l_com, l_new, t_old, t_com, t_new, t_multi,
                        l_old[0], l_com[0], l_new[0], t_old[0], t_com[0]]
                inst = t()
                check(run(inst, t_old, t_com, t_new)
                      == ('ok', (((l_com[0] + l_new[0][4:],),),)),
                      "tree merge", kind, run(inst, t_old, t_com, t_new))
                before = [sys.getrefcount(x) for x in objs]
                for _ in range(100):
                    check(run(inst, t_old, t_com, t_new)[0] == 'ok', "t ok")
                    check(run(inst, t_old, t_com, t_com)[0] == 'conflict',
                          "t conflict")
                    check(run(inst, t_old, t_com, t_multi) == c11, "t multi")
                    check(run(inst, t_old, t_com, l_old)[0] == 'error',
                          "t malformed")
                    check(run(inst, t_old, None, t_new)
                          == ('conflict', (-1, -1, -1, 12)), "t None")
                after = [sys.getrefcount(x) for x in objs]
                check(before == after, "tree refcounts moved", kind,
                      impl is c, before, after)
    return n


def section_F():
    """loader error paths; reference/instance count neutrality"""
    n = 0
    for prefix in ('OO', 'LO', 'OL'):
        c, p = classes(prefix)
        keys, vals = family_material(prefix)
        # mortal (not interned / not immortal) objects, so that reference
        # counts are informative
        if prefix[0] == 'O':
            keys = [('k', i) for i in range(4)]
        if prefix[1] == 'O':
            vals = [['v', i] for i in range(2)]
        for impl in (c, p):
            for kind in ('Bucket', 'Set'):
                is_map = kind == 'Bucket'
                base = impl[kind]
                live = []

                class Sub(base):
                    fail_setstate_at = None
                    fail_init_at = None
                    n_init = 0
                    n_setstate = 0

                    def __init__(self, *a):
                        cls = type(self)
                        cls.n_init += 1
                        if cls.n_init == cls.fail_init_at:
                            raise RuntimeError("init", cls.n_init)
                        base.__init__(self, *a)

                    def __setstate__(self, state):
                        cls = type(self)
                        cls.n_setstate += 1
                        if cls.n_setstate == cls.fail_setstate_at:
                            raise LookupError("setstate", cls.n_setstate)
                        return base.__setstate__(self, state)

                def reset(**kw):
                    Sub.n_init = Sub.n_setstate = 0
                    Sub.fail_init_at = Sub.fail_setstate_at = None
                    for k, v in kw.items():
                        setattr(Sub, k, v)

                v = vals[0]
                k1, k2, k3, k4 = keys
                o = {k1: v, k2: v}
                cm = {k1: v, k2: v, k3: v}
                nw = {k1: v, k2: v, k4: v}
                sts = [to_state(d, is_map) for d in (o, cm, nw)]
                merged = to_state({k1: v, k2: v, k3: v, k4: v}, is_map)
                inst = Sub()
                reset()
                check(run(inst, *sts) == ('ok', merged), "sub ok", prefix)
                check(Sub.n_setstate == 3, "3 setstates", Sub.n_setstate)
                n_init_ok = Sub.n_init
                # None states are not loaded at all
                reset()
                check(run(inst, None, to_state({k3: v}, is_map),
                          to_state({k4: v}, is_map))
                      == ('ok', to_state({k3: v, k4: v}, is_map)), "old None")
                check(Sub.n_setstate == 2, "2 setstates", Sub.n_setstate)
                reset()
                check(run(inst, None, None, None)
                      == ('conflict', (-1, -1, -1, 12)), "None x3")
                check(Sub.n_setstate == 0, "0 setstates", Sub.n_setstate)
                # __setstate__ raising at call i: propagated, later ones not run
                for i in (1, 2, 3):
                    reset(fail_setstate_at=i)
                    r = run(inst, *sts)
                    check(r == ('error', 'LookupError', "('setstate', %d)" % i),
                          "setstate raising", prefix, kind, i, r)
                    check(Sub.n_setstate == i, "stop after failure")
                    n += 1
                # constructor raising at call i (1..3 are the three loaders)
                for i in (1, 2, 3):
                    reset(fail_init_at=i)
                    r = run(inst, *sts)
                    check(r == ('error', 'RuntimeError', "('init', %d)" % i),
                          "init raising", prefix, kind, i, r)
                    check(Sub.n_setstate == i - 1, "setstates before", i,
                          Sub.n_setstate)
                    n += 1
                # malformed leaf states: the loader's own exceptions propagate
                reset()
                for badstate in (5, (5,), 'ab', ([1, 2],)):
                    for pos in range(3):
                        args = list(sts)
                        args[pos] = badstate
                        r1 = run(inst, *args)
                        r2 = run(base(), *args)
                        check(r1[0] == 'error' and r1 == r2,
                              "malformed leaf state", prefix, kind, args, r1,
                              r2)
                        n += 1
                # wrong arity
                for args in ((), (sts[0],), (sts[0],) * 2, (sts[0],) * 4):
                    r = run(base(), *args)
                    check(r[:2] == ('error', 'TypeError'), "arity", r)
                # instance/reference neutrality
                reset()
                del inst
                gc.collect()
                inst = Sub()
                nxt = base()
                kobjs = list(keys)
                conflict = [to_state(d, is_map) for d in (o, cm, cm)]
                withnext = [to_state(d, is_map, False, nxt)
                            for d in (o, cm, nw)]
                mism = [to_state(o, is_map, False, nxt), sts[1], sts[2]]
                scen = [sts, conflict, withnext, mism,
                        [None, sts[1], sts[2]], [sts[0], None, sts[2]]]

                def snapshot():
                    gc.collect()
                    return ([sys.getrefcount(x) for x in kobjs]
                            + [sys.getrefcount(x) for x in vals]
                            + [sys.getrefcount(nxt), sys.getrefcount(Sub),
                               sys.getrefcount(BTreesConflictError)]
                            + [sys.getrefcount(s) for sc in scen for s in sc
                               if s is not None])

                for sc in scen:
                    run(inst, *sc)      # warm up
                before = snapshot()
                for _ in range(50):
                    for sc in scen:
                        run(inst, *sc)
                    for i in (1, 2, 3):
                        reset(fail_setstate_at=i)
                        run(inst, *sts)
                        reset(fail_init_at=i)
                        run(inst, *sts)
                        reset()
                after = snapshot()
                check(before == after, "refcounts moved", prefix, kind,
                      impl is c, before, after)
                n += 1

        # unorderable keys make the merge walk itself fail (OO only)
    c, p = classes('OO')
    for impl in (c, p):
        for kind, st in (('Bucket', lambda *k: (tuple(
                x for key in k for x in (key, 0)),)),
                         ('Set', lambda *k: (tuple(k),))):
            r = run(impl[kind](), st(1, 2), st(1, 'a'), st(1, 2, 3))
            check(r[:2] == ('error', 'TypeError'), "unorderable", kind, r)
            r = run(impl[kind](), st(1, 2), st(1, 2, 3), st(1, 'a'))
            check(r[:2] == ('error', 'TypeError'), "unorderable", kind, r)
            r = run(impl[kind](), st(1), st(1, 2), st(1, 'a'))
            check(r[:2] == ('error', 'TypeError'), "unorderable tail", kind, r)
            n += 3
    return n


def main():
    table = section_A()
    print("A: exhaustive OO enumeration:", table)
    if RECORDED_DIGESTS is not None:
        check(table == RECORDED_DIGESTS, "outcome table digest", table)
    print("B: sampled triples, 21 families:", section_B())
    print("C: successor link cases:", section_C())
    print("D: recorded witnesses:", section_D())
    print("E: tree-level unwrapping cases:", section_E())
    print("F: loader error paths / refcounts:", section_F())
    if FAILURES:
        print("%d FAILURES" % len(FAILURES))
        return 1
    print("all checks passed")
    return 0


if __name__ == '__main__':
    sys.exit(main())
