"""Differential demo for refactoring v (C13): the Python side.

Targets
  * BTrees._datatypes: O.__call__, _AbstractNativeDataType.__call__ (I U L Q F),
    _AbstractBytes.__call__ (f s) - called directly, with the exact exception
    (class, args, __context__ class, __cause__) recorded for every probe;
  * BTrees._base.Bucket: __setitem__, setdefault, _set, __setstate__ - through
    the Py classes of all 22 families (buckets and small-node trees), with a
    stand-in jar observing _p_changed / registration, a dict model, and the C
    classes run side by side where they are specified to agree.

Run:  PYTHONPATH=<tree>/src python demo.py      (exit status 0 == OK)
"""
import importlib
import operator
import pickle
import random
import struct
import sys

from BTrees import _datatypes as dt

FAILURES = []


def check(cond, *what):
    if not cond:
        FAILURES.append(' '.join(str(w) for w in what))
        if len(FAILURES) > 40:
            finish()


def finish():
    if FAILURES:
        for f in FAILURES:
            print('FAIL:', f[:400])
        print('%d failure(s)' % len(FAILURES))
        sys.exit(1)
    print('OK')
    sys.exit(0)


class Plain:
    pass


class Ordered:
    def __init__(self, n):
        self.n = n

    def __lt__(self, other):
        return self.n < other.n

    def __eq__(self, other):
        return isinstance(other, Ordered) and self.n == other.n

    def __hash__(self):
        return hash(self.n)


class Idx:
    def __init__(self, v):
        self.v = v

    def __index__(self):
        return self.v


class Flt:
    def __float__(self):
        return 2.5


class BadIdx:
    def __index__(self):
        raise ValueError('no index today')


class MyInt(int):
    pass


class MyBytes(bytes):
    pass


INT_RANGE = {'I': (-2 ** 31, 2 ** 31 - 1), 'U': (0, 2 ** 32 - 1),
             'L': (-2 ** 63, 2 ** 63 - 1), 'Q': (0, 2 ** 64 - 1)}
ERRDESC = {'I': '32-bit integer expected',
           'U': 'non-negative 32-bit integer expected',
           'L': '64-bit integer expected',
           'Q': 'non-negative 64-bit integer expected',
           'F': 'float expected'}

BOUNDARY = sorted({s * 2 ** e + d for e in (0, 8, 16, 31, 32, 63, 64, 100)
                   for s in (1, -1) for d in (-2, -1, 0, 1, 2)})
OTHERS = [True, False, MyInt(7), MyInt(2 ** 70), 1.0, 1.5, float('nan'),
          float('inf'), -0.0, 1e300, 1e-50, '1', 'abc', b'ab', b'123456', b'',
          b'abc', MyBytes(b'ab'), MyBytes(b'123456'), bytearray(b'ab'), None,
          (1,), [1], Plain(), Ordered(1), Idx(5), Idx(2 ** 70), Idx(-1),
          BadIdx(), Flt(), 1 + 2j, object(), int, type]


def describe(f, *a):
    """Everything observable about a call: result (value + type) or the
    exception with its args and the classes of __context__/__cause__."""
    try:
        r = f(*a)
    except Exception as e:  # noqa
        ctx = e.__context__
        return ('raise', type(e), e.args, type(ctx) if ctx is not None
                else None, e.__cause__, e.__suppress_context__)
    return ('return', type(r), r)


def same_desc(a, b):
    if a[0] != b[0] or a[1] is not b[1]:
        return False
    if a[0] == 'return':
        return a[2] is b[2] or a[2] == b[2] or (a[2] != a[2] and b[2] != b[2])
    if len(a[2]) != len(b[2]):
        return False
    for x, y in zip(a[2], b[2]):
        if not (x is y or x == y):
            return False
    return a[3:] == b[3:]


# ------------------------------------------------- model of the datatypes

def model_native(code, item):
    """What <code>()(item) is specified to do (pure-Python datatypes)."""
    desc = ERRDESC[code]

    def reject(ctx):
        if isinstance(item, int):
            return ('raise', TypeError, ('Value out of range', item), ctx,
                    None, False)
        return ('raise', TypeError, (desc,), ctx, None, False)

    if code == 'F':
        # struct.pack('f', x): needs a real number
        try:
            struct.pack('f', item)
        except (struct.error, TypeError, ValueError) as e:
            return reject(type(e))
        r = float(item)
        return ('return', float, r)
    try:
        idx = operator.index(item)
    except TypeError:
        return reject(TypeError)
    except ValueError:
        return reject(ValueError)
    lo, hi = INT_RANGE[code]
    if not (lo <= idx <= hi):
        return reject(struct.error)
    return ('return', int, int(item))


def model_bytes(length, item):
    if isinstance(item, bytes) and len(item) == length:
        return ('return', type(item), item)
    return ('raise', TypeError,
            ('%d-byte array expected, not %r' % (length, item),), None, None,
            False)


def model_O(item):
    if item is None or type(item).__lt__ is not object.__lt__:
        return ('return', type(item), item)
    return ('raise', TypeError,
            ('Object of class %s has default comparison'
             % type(item).__name__,), None, None, False)


def section_datatypes():
    probes = BOUNDARY + OTHERS
    for code in 'IULQF':
        conv = getattr(dt, code)()
        for item in probes:
            got = describe(conv, item)
            want = model_native(code, item)
            check(same_desc(got, want), 'datatype', code, repr(item), got,
                  want)
            if got[0] == 'return':
                # what is returned is a plain int/float equal to the input
                check(type(got[2]) in (int, float), code, repr(item))
            # coerce() is the same validation
            check(same_desc(describe(conv.coerce, item), got), 'coerce', code,
                  repr(item))
        # the cached packer is stored on the instance after first use
        check('_check_native' in conv.__dict__, code, 'Lazy cache')
    for code, length in (('f', 2), ('s', 6)):
        conv = getattr(dt, code)()
        for item in probes:
            got = describe(conv, item)
            want = model_bytes(length, item)
            check(same_desc(got, want), 'datatype', code, repr(item), got,
                  want)
            if got[0] == 'return':
                check(got[2] is item, code, 'identity')
    conv = dt.O()
    for item in probes:
        got = describe(conv, item)
        want = model_O(item)
        check(same_desc(got, want), 'datatype O', repr(item), got, want)
        if got[0] == 'return':
            check(got[2] is item, 'O identity')
    check(dt.Any()(Plain) is Plain, 'Any')
    # an abstract native type (no struct format) rejects everything
    abstract = dt._AbstractIntDataType()
    got = describe(abstract, 1)
    check(got[:3] == ('raise', TypeError, ('Value out of range', 1)) and
          got[3] is TypeError, 'abstract int', got)
    got = describe(abstract, 'x')
    check(got[:3] == ('raise', TypeError, (None,)) and got[3] is TypeError,
          'abstract str', got)


# ------------------------------------------------- containers

FAMILIES = ['II', 'IO', 'IF', 'IU', 'LL', 'LO', 'LF', 'LQ', 'OI', 'OL', 'OO',
            'OQ', 'OU', 'QF', 'QL', 'QO', 'QQ', 'UF', 'UI', 'UO', 'UU', 'fs']


def converter(code, as_value=False):
    if code == 'O' and as_value:
        return dt.Any()
    return getattr(dt, code)()


def good_key(code, n):
    if code == 'f':
        return struct.pack('>H', n)
    if code == 'O':
        return 'k%05d' % n
    return n


def good_value(code, n):
    if code == 's':
        return struct.pack('>HI', 7, n)
    if code == 'O':
        return 'v%d' % n
    if code == 'F':
        return n + 0.5
    return n


class Jar:
    def __init__(self):
        self.registered = []

    def register(self, obj):
        self.registered.append(obj)

    def readCurrent(self, obj):
        pass

    def setstate(self, obj):
        raise RuntimeError('no ghosts here')


def adopt(obj):
    jar = Jar()
    obj._p_jar = jar
    obj._p_oid = b'\0' * 7 + b'\1'
    obj._p_changed = False
    del jar.registered[:]
    return jar


def classes(fam, py):
    mod = importlib.import_module('BTrees.%sBTree' % fam)
    sfx = 'Py' if py else ''
    return [getattr(mod, fam + kind + sfx)
            for kind in ('BTree', 'Bucket', 'TreeSet', 'Set')]


def small(cls):
    return type(cls.__name__ + 'Small', (cls,),
                {'max_leaf_size': 4, 'max_internal_size': 3})


def probes_for(code):
    if code in 'fs':
        return [b'ab', b'123456', b'', b'abc', b'12345', b'1234567',
                MyBytes(b'ab'), MyBytes(b'123456'), 'ab', '123456', 12, None,
                bytearray(b'ab'), (b'ab',)]
    if code == 'O':
        return [None, 'x', 'k00035', Plain(), object()]
    if code == 'F':
        return [0.0, 1.5, 0.1, -1e300, 1e-50, float('inf'), 0, 1, True,
                2 ** 62, 2 ** 2000, -2 ** 2000, 'x', None, b'123456', Plain(),
                (1.0,), Flt()]
    return [0, 1, -1, True, MyInt(9), Idx(3), Idx(2 ** 70), BadIdx(),
            2 ** 31 - 1, 2 ** 31, -2 ** 31, -2 ** 31 - 1, 2 ** 32 - 1, 2 ** 32,
            2 ** 63 - 1, 2 ** 63, -2 ** 63, -2 ** 63 - 1, 2 ** 64 - 1, 2 ** 64,
            10 ** 40, 1.0, 'x', None, b'ab', Plain()]


def sort_key(kv):
    return (kv[0] is not None, kv[0])      # None sorts first


def eq(a, b):
    return a is b or a == b or (a != a and b != b)


def section_bucket_entry_points(fam):
    kc, vc = fam[0], fam[1]
    to_key, to_value = converter(kc), converter(vc, True)
    BTree, Bucket, TreeSet, Set = classes(fam, True)
    base = [(good_key(kc, n), good_value(vc, n)) for n in (10, 20, 30, 40, 50,
                                                           60, 70)]
    k_old, k_new = good_key(kc, 30), good_key(kc, 35)
    v_good = good_value(vc, 99)
    for cls in (Bucket, small(BTree)):
        is_bucket = cls is Bucket
        # ---- value probes under an existing and a new key
        cases = [(k, v) for v in probes_for(vc) for k in (k_old, k_new)]
        # ---- key probes with a good value
        cases += [(k, v_good) for k in probes_for(kc)]
        for k, v in cases:
            dk, dv = describe(to_key, k), describe(to_value, v)
            for how in ('setitem', 'setdefault', 'update', 'insert'):
                if how == 'insert' and is_bucket:
                    continue
                c = cls(base)
                jar = adopt(c)
                before = list(c.items())
                tag = '%s %s k=%r v=%r' % (cls.__name__, how, k, v)
                if how == 'setitem':
                    got = describe(c.__setitem__, k, v)
                elif how == 'setdefault':
                    got = describe(c.setdefault, k, v)
                elif how == 'update':
                    got = describe(c.update, [(k, v)])
                else:
                    got = describe(c.insert, k, v)
                if dk[0] == 'raise':
                    want = dk       # the key is converted first
                elif dv[0] == 'raise':
                    want = dv
                else:
                    want = None
                if want is not None:
                    check(same_desc(got, want), tag, got, want)
                    check(list(c.items()) == before, tag, 'contents changed')
                    check(not c._p_changed and not jar.registered, tag,
                          'persistence effect of a rejected write')
                    continue
                nk, nv = dk[2], dv[2]
                model = dict(before)
                present = nk in model
                if how == 'setitem' or how == 'update':
                    model[nk] = nv
                    want = ('return', type(None), None)
                elif how == 'setdefault':
                    want = ('return', None, model.setdefault(nk, nv))
                else:
                    want = ('return', int, 0 if present else 1)
                    model.setdefault(nk, nv)
                check(got[0] == 'return' and eq(got[2], want[2]), tag, got,
                      want)
                items = list(c.items())
                wanted = sorted(model.items(), key=sort_key)
                check(len(items) == len(wanted) and all(
                    eq(a[0], b[0]) and eq(a[1], b[1]) and
                    type(a[1]) is type(b[1])
                    for a, b in zip(items, wanted)), tag, 'contents', items,
                    wanted)
                if is_bucket:
                    changed = not (present and how in ('setdefault',))
                    check(bool(c._p_changed) == changed and
                          bool(jar.registered) == changed, tag,
                          'persistence effect', c._p_changed)
        # ---- constructor
        for k in probes_for(kc):
            dk = describe(to_key, k)
            got = describe(cls, [(k, v_good)])
            if dk[0] == 'raise':
                check(same_desc(got, dk), cls.__name__, 'ctor', repr(k), got)
            else:
                check(got[0] == 'return' and
                      list(got[2].items()) == [(dk[2], v_good)],
                      cls.__name__, 'ctor', repr(k), got)


def section_bucket_set_direct(fam):
    """Bucket._set is called with already converted data; pin its protocol."""
    kc, vc = fam[0], fam[1]
    Bucket = classes(fam, True)[1]
    strict = type('Strict' + Bucket.__name__, (Bucket,),
                  {'VALUE_SAME_CHECK': True})
    for cls in (Bucket, strict):
        b = cls()
        jar = adopt(b)
        k1, k2, k0 = good_key(kc, 5), good_key(kc, 9), good_key(kc, 1)
        v1, v2 = good_value(vc, 1), good_value(vc, 2)
        tag = cls.__name__ + ' _set'
        check(b._set(k1, v1) == (1, v1), tag, 'insert')
        check(b._p_changed and jar.registered == [b], tag, 'changed')
        check(b._set(k2, v2, True) == (1, v2), tag, 'insert ifunset')
        check(b._set(k0, v2) == (1, v2), tag, 'insert front')
        check(list(b.items()) == [(k0, v2), (k1, v1), (k2, v2)], tag, 'order')
        b._p_changed = False
        del jar.registered[:]
        check(b._set(k1, v2, True) == (None, v1), tag, 'ifunset keeps')
        check(not b._p_changed and not jar.registered, tag,
              'ifunset must not mark the bucket changed')
        r = b._set(k1, v1)
        if cls is strict:
            check(r == (None, v1) and not b._p_changed, tag, 'same value', r)
        else:
            check(r == (0, v1) and b._p_changed, tag, 'same value stored', r)
        b._p_changed = False
        del jar.registered[:]
        check(b._set(k1, v2) == (0, v2), tag, 'replace')
        check(b._p_changed and jar.registered == [b], tag, 'replace changed')
        check(list(b.items()) == [(k0, v2), (k1, v2), (k2, v2)], tag, 'final')
    # a value whose == raises: the exception gets out, nothing is stored
    if vc == 'O':
        class Boom:
            def __eq__(self, other):
                raise ZeroDivisionError('eq')
            __hash__ = None
        b = strict()
        k = good_key(kc, 1)
        old = Boom()
        b._set(k, old)
        jar = adopt(b)
        got = describe(b._set, k, 'new')
        check(got[1] is ZeroDivisionError, 'Boom', got)
        check(b[k] is old and not b._p_changed, 'Boom state')
        check(b._set(k, 'new', True)[1] is old, 'Boom ifunset skips ==')


def section_setstate(fam):
    kc, vc = fam[0], fam[1]
    BTree, Bucket, TreeSet, Set = classes(fam, True)
    CBucket = classes(fam, False)[1]
    pairs = [(good_key(kc, n), good_value(vc, n)) for n in range(1, 8)]
    flat = tuple(x for kv in pairs for x in kv)
    tag = Bucket.__name__ + ' setstate'
    nxt = Bucket()
    for state in ((flat,), (flat, nxt), ((), ), ((), nxt),
                  (flat, nxt, 'ignored')):
        b = Bucket([(good_key(kc, 100), good_value(vc, 100))])
        b._next = 'stale'
        r = b.__setstate__(state)
        check(r is None, tag, 'return value')
        check(list(b.items()) == (pairs if state[0] else []), tag, 'items')
        check(b._next is (nxt if len(state) == 2 else None), tag, '_next',
              len(state))
        check(type(b._keys) is list and type(b._values) is list, tag,
              'container types')
        want_state = (state[0], nxt) if len(state) == 2 else (state[0],)
        check(b.__getstate__() == want_state, tag, 'getstate')
    # the same state means the same thing to the C bucket
    cb = CBucket()
    cb.__setstate__((flat,))
    pb = Bucket()
    pb.__setstate__((flat,))
    check(list(cb.items()) == list(pb.items()), tag, 'C/Py items')
    check(cb.__getstate__() == pb.__getstate__(), tag, 'C/Py state')
    check(pickle.dumps(pb, 2).replace(b'Py', b'') ==
          pickle.dumps(cb, 2), tag, 'C/Py pickle')
    check(list(pickle.loads(pickle.dumps(pb, 2)).items()) == pairs, tag,
          'pickle round trip')
    # error paths
    b = Bucket(pairs[:2])
    got = describe(b.__setstate__, ([1, 2],))
    check(got[:3] == ('raise', TypeError,
                      ('tuple required for first state element',)), tag, got)
    check(list(b.items()) == pairs[:2], tag,
          'contents survive a refused state')
    got = describe(b.__setstate__, ())
    check(got[1] is IndexError, tag, 'empty state', got)
    check(list(b.items()) == pairs[:2], tag, 'contents survive')
    # odd number of elements: fails when the value is fetched, after the
    # key was appended (and after _next was assigned)
    b = Bucket(pairs[:2])
    b._next = 'stale'
    odd = flat[:5]
    got = describe(b.__setstate__, (odd, nxt))
    check(got[1] is IndexError, tag, 'odd state', got)
    check(list(b._keys) == list(odd[0::2]) and
          list(b._values) == list(odd[1::2]), tag, 'odd state leftovers',
          b._keys, b._values)
    check(b._next is nxt, tag, 'odd state _next')
    check(not b._p_changed, tag, 'setstate does not mark changed')


def section_random(fam, rng, nops):
    kc, vc = fam[0], fam[1]
    to_key, to_value = converter(kc), converter(vc, True)
    kprobes = [k for k in probes_for(kc)
               if type(k) not in (Plain, object, BadIdx)]
    vprobes = probes_for(vc)
    for maker in (lambda cl: cl[1], lambda cl: small(cl[0])):
        pcls = maker(classes(fam, True))
        c = pcls()
        model = {}
        tag = pcls.__name__ + ' random'
        for n in range(nops):
            k = good_key(kc, rng.randrange(40)) if rng.random() < .8 \
                else rng.choice(kprobes)
            v = good_value(vc, rng.randrange(1000)) if rng.random() < .7 \
                else rng.choice(vprobes)
            dk, dv = describe(to_key, k), describe(to_value, v)
            op = rng.choice(('set', 'set', 'set', 'setdefault', 'del', 'pop',
                             'get', 'in'))
            if op == 'set':
                got = describe(c.__setitem__, k, v)
                if dk[0] == 'raise' or dv[0] == 'raise':
                    want = dk if dk[0] == 'raise' else dv
                else:
                    model[dk[2]] = dv[2]
                    want = ('return', type(None), None)
            elif op == 'setdefault':
                got = describe(c.setdefault, k, v)
                if dk[0] == 'raise' or dv[0] == 'raise':
                    want = dk if dk[0] == 'raise' else dv
                else:
                    r = model.setdefault(dk[2], dv[2])
                    want = ('return', type(r), r)
            elif op == 'del':
                got = describe(c.__delitem__, k)
                if dk[0] == 'raise':
                    want = dk
                elif dk[2] in model:
                    del model[dk[2]]
                    want = ('return', type(None), None)
                else:
                    want = ('raise', KeyError, (dk[2],), None, None, False)
            elif op == 'pop':
                got = describe(c.pop, k, 'D')
                if dk[0] == 'raise':
                    want = dk
                else:
                    r = model.pop(dk[2], 'D')
                    want = ('return', type(r), r)
            elif op == 'get':
                got = describe(c.get, k, 'D')
                r = 'D' if dk[0] == 'raise' else model.get(dk[2], 'D')
                want = ('return', type(r), r)
            else:
                got = describe(c.__contains__, k)
                r = dk[0] != 'raise' and dk[2] in model
                want = ('return', bool, r)
            check(same_desc(got, want), tag, n, op, repr(k), repr(v), got,
                  want)
            if n % 50 == 0 or n == nops - 1:
                items = list(c.items())
                wanted = sorted(model.items(), key=sort_key)
                check(len(items) == len(wanted) and all(
                    eq(a[0], b[0]) and eq(a[1], b[1])
                    for a, b in zip(items, wanted)), tag, 'diverged at', n)
                c._check() if hasattr(c, '_check') else None
        if pcls.__name__.endswith('BucketPy'):
            d = pcls()
            d.__setstate__(c.__getstate__())
            check(list(d.items()) == list(c.items()), tag, 'state round trip')


def main():
    rng = random.Random(0xC13 + 2)
    section_datatypes()
    for fam in FAMILIES:
        section_bucket_entry_points(fam)
        section_bucket_set_direct(fam)
        section_setstate(fam)
        section_random(fam, rng, 1500)
    finish()


if __name__ == '__main__':
    main()
