"""Equivalence demonstration for refactoring C15p.

C15p splits BTreeIter_next (BTreeItemsTemplate.c) into BTreeIter_next and a
new helper BTreeIter_advance, and replaces the `goto Done` by if/else.

Sections that exercise the touched code (every `next()` on an iterator made by
iter(tree), tree.iterkeys/itervalues/iteritems, iter(bucket), bucket.iter*):
  B  c_iterator_scenarios: recorded outcomes - end of slice, crossing to the
     next leaf, walking off the chain, the size-change error and its
     stickiness, leaf emptied/unlinked/cleared under the parked cursor
  C  refcounts: the cursor's counted reference moves from leaf to leaf and is
     dropped at the end of the slice
  D  persistence: a leaf that fails to load, no leaf left sticky
  A  random_schedules: the property itself, against a dict model
Run as:  PYTHONPATH=<worktree>/src python demo.py   (exit status 0 = pass)
"""
import gc
import random
import sys

from BTrees import check as btcheck
from BTrees import IIBTree as II
from BTrees import LFBTree as LF
from BTrees import OOBTree as OO

FAMILIES = {'OO': OO, 'II': II, 'LF': LF}
SIZE_CHANGED = "the bucket being iterated changed size"
CHECKS = [0]
STATS = {}


def stat(what):
    STATS[what] = STATS.get(what, 0) + 1


def ok(cond, *what):
    CHECKS[0] += 1
    if not cond:
        raise AssertionError(' '.join(str(w) for w in what))


# ---------------------------------------------------------------------------
# helpers
# ---------------------------------------------------------------------------

def small(cls, leaf=4, internal=3):
    """A subclass of a tree class with tiny nodes: many leaves, many splits."""
    return type(cls.__name__ + 'Small', (cls,),
                {'max_leaf_size': leaf, 'max_internal_size': internal})


def is_set(t):
    return 'Set' in type(t).__name__


def is_tree(t):
    return 'Tree' in type(t).__name__


def val(fam, k):
    return float(k) / 2 if fam == 'LF' else k * 3 + 1


def fill(t, fam, keys):
    if is_set(t):
        t.update(keys)
    else:
        t.update({k: val(fam, k) for k in keys})
    return t


def leaves(t):
    out = []
    b = t._firstbucket
    while b is not None:
        out.append(b)
        b = b._next
    return out


def sound(t, model, fam):
    """The container is undamaged and holds exactly `model`."""
    if is_tree(t):
        t._check()
        if type(t) in btcheck._type2kind:
            btcheck.check(t)
    ok(len(t) == len(model), 'len', len(t), len(model))
    ok(list(t.keys()) == sorted(model), 'keys differ')
    ok(list(t) == sorted(model), 'iter differs')
    if not is_set(t):
        ok(list(t.items()) == sorted(model.items()), 'items differ')
        ok(list(t.values()) == [model[k] for k in sorted(model)], 'values')
    for k in list(model)[:20]:
        ok(k in t)


def entry(kind, k, model):
    if kind == 'k':
        return k
    if kind == 'v':
        return model[k]
    return (k, model[k])


def all_classes(fam):
    """(name, constructor) for the four kinds in both implementations."""
    mod = FAMILIES[fam]
    out = []
    for suffix in ('', 'Py'):
        for kind in ('BTree', 'TreeSet', 'Bucket', 'Set'):
            cls = getattr(mod, fam + kind + suffix)
            if kind in ('BTree', 'TreeSet'):
                cls = small(cls)
            out.append((fam + kind + suffix, cls))
    return out


# ---------------------------------------------------------------------------
# A. the property: random interleavings of iteration and mutation
# ---------------------------------------------------------------------------

def open_view(rng, t, model):
    """Open an iterator or a lazy sequence over t.  Returns a dict."""
    keys = sorted(model)
    rangeargs = ()
    lo = hi = None
    if rng.random() < 0.4 and keys:
        lo = rng.choice(keys) - rng.choice((0, 0, 1))
        hi = lo + rng.randrange(0, 60)
        rangeargs = (lo, hi)
    sel = [k for k in keys
           if (lo is None or k >= lo) and (hi is None or k <= hi)]
    if is_set(t):
        kind = 'k'
    else:
        kind = rng.choice('kvi')
    names = {'k': 'keys', 'v': 'values', 'i': 'items'}
    snap = [entry(kind, k, model) for k in sel]
    if rng.random() < 0.5 or not is_tree(t):
        # an iterator
        if kind == 'k' and not rangeargs and rng.random() < 0.5:
            obj = iter(t)
        else:
            meth = getattr(t, 'iter' + names[kind], None)
            if meth is None:          # TreeSets have no iterkeys()
                obj = iter(t.keys(*rangeargs))
            else:
                obj = meth(*rangeargs)
        return {'what': 'iter', 'obj': obj, 'snap': snap, 'pos': 0,
                'clean': True, 'dead': False}
    obj = getattr(t, names[kind])(*rangeargs)
    return {'what': 'seq', 'obj': obj, 'snap': snap, 'clean': True}


def step_view(rng, view):
    """One use of a view.  Only the outcomes the property allows may occur;
    as long as the container was not mutated since the view was opened, the
    outcome must be the one the model predicts."""
    snap = view['snap']
    if view['what'] == 'iter':
        try:
            got = next(view['obj'])
        except StopIteration:
            if view['clean']:
                ok(view['pos'] == len(snap), 'early StopIteration')
            view['dead'] = True
        except RuntimeError as e:
            ok(not view['clean'], 'RuntimeError on unmutated container', e)
            stat('iter RuntimeError')
        except IndexError:
            ok(not view['clean'], 'IndexError on unmutated container')
            stat('iter IndexError')
        else:
            stat('iter entry')
            if view['clean']:
                ok(view['pos'] < len(snap) and got == snap[view['pos']],
                   'wrong entry', got)
                view['pos'] += 1
        return
    seq = view['obj']
    choice = rng.random()
    if choice < 0.7:
        n = len(snap)
        i = rng.randrange(-n - 2, n + 2)
        try:
            got = seq[i]
        except IndexError:
            if view['clean']:
                ok(not (-n <= i < n), 'IndexError in range', i, n)
        except RuntimeError as e:
            ok(not view['clean'], 'RuntimeError on unmutated container', e)
            stat('seq RuntimeError')
        else:
            stat('seq entry')
            if view['clean']:
                ok(-n <= i < n and got == snap[i], 'wrong seq entry', i, got)
    elif choice < 0.8:
        n = len(seq)
        ok(n >= 0)
        if view['clean']:
            ok(n == len(snap), 'len', n, len(snap))
    elif choice < 0.9:
        b = bool(seq)
        if view['clean']:
            ok(b == bool(snap))
    else:
        i = rng.randrange(0, len(snap) + 2)
        j = rng.randrange(0, len(snap) + 2)
        try:
            got = list(seq[i:j])
        except (RuntimeError, IndexError):
            ok(not view['clean'], 'slice failed on unmutated container')
        else:
            if view['clean']:
                ok(got == snap[i:j], 'slice', i, j)


def mutate(rng, t, model, fam, universe):
    r = rng.random()
    if r < 0.02:
        t.clear()
        model.clear()
    elif r < 0.45:
        k = rng.randrange(universe)
        if is_set(t):
            t.add(k)
            model[k] = k
        else:
            v = val(fam, k + rng.randrange(3))
            t[k] = v
            model[k] = v
    elif r < 0.55 and model:
        # empty (and for trees: unlink) a whole leaf, or a run of keys
        ks = sorted(model)
        start = rng.randrange(len(ks))
        for k in ks[start:start + rng.randrange(1, 12)]:
            if is_set(t):
                t.remove(k)
            else:
                del t[k]
            del model[k]
    elif r < 0.9 and model:
        k = rng.choice(sorted(model))
        if is_set(t):
            if rng.random() < 0.5:
                t.remove(k)
            else:
                t.discard(k)
        elif rng.random() < 0.5:
            del t[k]
        else:
            ok(t.pop(k) == model[k])
        del model[k]
    else:
        k = rng.randrange(universe)
        try:
            if is_set(t):
                t.remove(k)
            else:
                del t[k]
        except KeyError:
            ok(k not in model)
        else:
            ok(k in model)
            del model[k]


def random_schedules(fam, seeds=6, steps=250):
    for name, cls in all_classes(fam):
        for seed in range(seeds):
            rng = random.Random(f'{name}-{seed}')
            universe = rng.choice((30, 120))
            model = {}
            t = cls()
            keys = rng.sample(range(universe), rng.randrange(universe))
            fill(t, fam, keys)
            for k in keys:
                model[k] = k if is_set(t) else val(fam, k)
            views = []
            for step in range(steps):
                r = rng.random()
                if r < 0.1 or not views:
                    views.append(open_view(rng, t, model))
                    if len(views) > 6:
                        # dropping a view releases its leaves
                        del views[rng.randrange(len(views))]
                elif r < 0.7:
                    step_view(rng, rng.choice(views))
                else:
                    mutate(rng, t, model, fam, universe)
                    for v in views:
                        v['clean'] = False
                if step % 50 == 49:
                    sound(t, model, fam)
            sound(t, model, fam)
            # drain what is left, then drop the views: still sound
            for v in views:
                if v['what'] == 'iter':
                    for _ in range(3 * universe):
                        step_view(rng, v)
                        if v['dead']:
                            break
            del views
            gc.collect()
            sound(t, model, fam)


# ---------------------------------------------------------------------------
# B. recorded scenarios for the C iterator (BTreeIter_next) and the C lazy
#    sequence (BTreeItems_seek): which outcome, which message, stickiness
# ---------------------------------------------------------------------------

def outcome(f, *a):
    try:
        return ('ok', f(*a))
    except StopIteration:
        return ('stop',)
    except RuntimeError as e:
        return ('RuntimeError', str(e))
    except IndexError as e:
        return ('IndexError', e.args)


def c_iterator_scenarios():
    for fam in FAMILIES:
        mod = FAMILIES[fam]
        T = small(getattr(mod, fam + 'BTree'), leaf=10)
        # leaves of a tree built by ascending insertion with leaf size 10:
        t = fill(T(), fam, range(40))
        sizes = [len(b) for b in leaves(t)]
        ok(sizes == [5, 5, 5, 5, 5, 5, 10], sizes)

        # 1. parked at offset 3 of leaf 0; the leaf shrinks below the offset
        it = iter(t)
        ok([next(it) for _ in range(3)] == [0, 1, 2])
        del t[2], t[3], t[4]
        ok(outcome(next, it) == ('RuntimeError', SIZE_CHANGED))
        ok(outcome(next, it) == ('RuntimeError', SIZE_CHANGED))  # sticky
        t[2] = t[3] = t[4] = val(fam, 0)
        ok(outcome(next, it) == ('RuntimeError', SIZE_CHANGED))  # INT_MAX
        model = {k: val(fam, k) for k in range(40)}
        model[2] = model[3] = model[4] = val(fam, 0)
        sound(t, model, fam)

        # 2. the leaf shrinks, but not below the offset: iteration goes on,
        #    skipping one entry (entries shifted left under the cursor)
        t = fill(T(), fam, range(40))
        it = t.iteritems()
        ok([next(it)[0] for _ in range(2)] == [0, 1])
        del t[0]
        ok(outcome(next, it) == ('ok', (3, val(fam, 3))))
        ok(outcome(next, it) == ('ok', (4, val(fam, 4))))
        ok(outcome(next, it) == ('ok', (5, val(fam, 5))))   # next leaf

        # 3. the cursor has moved to the start of leaf 1; leaf 1 is then
        #    emptied and unlinked: it is kept alive by the iterator, has
        #    length 0, and the iterator reports the size change
        t = fill(T(), fam, range(40))
        it = t.itervalues()
        for _ in range(5):
            next(it)
        for k in range(5, 10):
            del t[k]
        ok(len(leaves(t)) == 6)
        ok(outcome(next, it) == ('RuntimeError', SIZE_CHANGED))
        ok(outcome(next, it) == ('RuntimeError', SIZE_CHANGED))
        t._check()

        # 4. the last entry of the slice was delivered: the iterator is
        #    exhausted, whatever happens to the tree afterwards
        t = fill(T(), fam, range(40))
        it = t.iterkeys(3, 7)
        ok([next(it) for _ in range(5)] == [3, 4, 5, 6, 7])
        t[100] = val(fam, 100)
        ok(outcome(next, it) == ('stop',))
        ok(outcome(next, it) == ('stop',))
        it = t.iterkeys(36, 39)   # ends at the last entry of the last leaf
        ok(list(it) == [36, 37, 38, 39])
        ok(outcome(next, it) == ('stop',))

        # 5. the leaf grows at its end while the cursor is parked in it
        t = fill(T(), fam, range(0, 80, 2))
        it = iter(t)
        ok([next(it) for _ in range(5)] == [0, 2, 4, 6, 8])
        # cursor is parked at offset 0 of leaf 1 (keys 10..18)
        t[11] = val(fam, 11)
        ok([next(it) for _ in range(3)] == [10, 11, 12])
        # delete everything that follows in leaf 1, and walk off its end:
        del t[14], t[16], t[18]
        ok(outcome(next, it) == ('RuntimeError', SIZE_CHANGED))

        # 6. end of slice in the middle of the last leaf: when the leaf
        #    shrinks, `last` is still the recorded offset
        t = fill(T(), fam, range(40))
        it = t.iterkeys(30, 33)
        ok(next(it) == 30)
        del t[31]
        ok([next(it) for _ in range(3)] == [32, 33, 34])
        ok(outcome(next, it) == ('stop',))

        # 7. clear() while the cursor is parked: the leaves are unlinked
        #    from the tree but still chained to each other
        t = fill(T(), fam, range(40))
        it = iter(t)
        ok(next(it) == 0)
        t.clear()
        ok(list(it) == list(range(1, 40)))
        ok(outcome(next, it) == ('stop',))
        sound(t, {}, fam)

        # 8. buckets and sets: one leaf, no chain
        B = getattr(mod, fam + 'Bucket')
        b = fill(B(), fam, range(10))
        it = b.iteritems(2, 8)
        ok(next(it) == (2, val(fam, 2)))
        b.clear()
        ok(outcome(next, it) == ('RuntimeError', SIZE_CHANGED))
        fill(b, fam, range(20))
        ok(outcome(next, it) == ('RuntimeError', SIZE_CHANGED))
        it = iter(b)
        ok([next(it) for _ in range(19)] == list(range(19)))
        del b[5]
        # parked at offset 19 == last, but the bucket now has 19 entries
        ok(outcome(next, it) == ('RuntimeError', SIZE_CHANGED))
        S = getattr(mod, fam + 'Set')
        s = S(range(10))
        it = iter(s)
        ok(next(it) == 0)
        s.remove(9)
        ok([next(it) for _ in range(8)] == list(range(1, 9)))
        # after offset 8 the cursor walked off the end of the (only) leaf
        ok(outcome(next, it) == ('stop',))
        it = iter(S())
        ok(outcome(next, it) == ('stop',))


def c_sequence_scenarios():
    for fam in FAMILIES:
        mod = FAMILIES[fam]
        T = small(getattr(mod, fam + 'BTree'), leaf=10)
        t = fill(T(), fam, range(40))
        ks = t.keys()
        ok(len(ks) == 40 and bool(ks))
        ok([ks[i] for i in (0, 7, 39, -1, -40, 20, 3)] ==
           [0, 7, 39, 39, 0, 20, 3])
        ok(outcome(ks.__getitem__, 40) == ('IndexError', (40,)))
        ok(outcome(ks.__getitem__, -41) == ('IndexError', (-1,)))
        ok(ks[3] == 3)                      # finger parked: leaf 0, offset 3
        del t[2], t[3], t[4]
        ok(outcome(ks.__getitem__, 3) == ('RuntimeError', SIZE_CHANGED))
        # A failed seek leaves the finger (leaf 0, offset 3, index 3) alone.
        # Moving right from the stale finger: leaf 0 has 2 entries now, so
        # "the most we can move right" is -2, and two positions are lost.
        ok(outcome(ks.__getitem__, 4) == ('ok', 7))
        ok(outcome(ks.__getitem__, 5) == ('ok', 8))
        ok(outcome(ks.__getitem__, 1) == ('ok', 1))    # far left: re-synced
        ok(outcome(ks.__getitem__, 3) == ('ok', 6))
        ok(len(ks) == 37)
        ok(outcome(ks.__getitem__, 37) == ('IndexError', (37,)))
        ok(outcome(ks.__getitem__, 36) == ('ok', 39))
        ok(outcome(ks.__getitem__, -37) == ('ok', 0))
        ok(list(ks) == [0, 1] + list(range(5, 40)))

        # finger parked in a leaf that is then emptied and unlinked
        t = fill(T(), fam, range(40))
        its = t.items(7, 33)
        ok(its[0] == (7, val(fam, 7)) and its[-1] == (33, val(fam, 33)))
        ok(its[4] == (11, val(fam, 11)))     # leaf 2, offset 1
        for k in range(10, 15):
            del t[k]
        ok(outcome(its.__getitem__, 4) == ('RuntimeError', SIZE_CHANGED))
        # moving left from the unlinked leaf: its predecessor cannot be
        # found in the chain any more
        ok(outcome(its.__getitem__, 0) == ('IndexError', (0,)))
        # moving right from it: the unlinked leaf still points to leaf 3
        e = lambda k: ('ok', (k, val(fam, k)))
        ok(outcome(its.__getitem__, 6) == e(18))
        ok(outcome(its.__getitem__, 4) == e(16))
        ok(outcome(its.__getitem__, -1) == e(33))
        ok([outcome(its.__getitem__, i) for i in range(5)] ==
           [e(7), e(8), e(9), e(15), e(16)])
        ok(len(its) == 22)
        ok(list(t.items(7, 33)) ==
           [(k, val(fam, k)) for k in range(7, 34) if not 10 <= k < 15])
        t._check()

        # slices are new BTreeItems objects sharing the leaves
        t = fill(T(), fam, range(40))
        vs = t.values()
        sl = vs[8:23]
        ok(list(sl) == [val(fam, k) for k in range(8, 23)])
        ok(len(vs[5:5]) == 0 and not vs[5:5] and list(vs[30:100]) ==
           [val(fam, k) for k in range(30, 40)])
        ok(outcome(vs.__getitem__, slice(0, 10, 2)) ==
           ('RuntimeError', 'slices must have step size of 1'))
        t.clear()
        ok(list(sl) == [val(fam, k) for k in range(8, 23)])
        del t
        ok(sl[0] == val(fam, 8) and sl[-1] == val(fam, 22) and len(sl) == 15)

        # empty tree, empty range
        t = T()
        ok(len(t.keys()) == 0 and not t.keys() and list(t.items()) == [])
        ok(outcome(t.keys().__getitem__, 0) == ('IndexError', (0,)))
        fill(t, fam, range(40))
        ok(len(t.keys(50, 60)) == 0 and list(t.keys(12, 11)) == [])


# ---------------------------------------------------------------------------
# C. reference counts: who keeps the leaves alive
# ---------------------------------------------------------------------------

def refcounts():
    T = small(OO.OOBTree, leaf=10)
    t = fill(T(), 'OO', range(40))
    lv = leaves(t)
    gc.collect()
    base = [sys.getrefcount(lv[i]) for i in range(len(lv))]

    def delta():
        return [sys.getrefcount(lv[i]) - base[i] for i in range(len(lv))]

    zero = [0] * len(lv)
    ks = t.keys()                     # first+current on leaf 0, last on -1
    ok(delta() == [2, 0, 0, 0, 0, 0, 1], delta())
    ok(ks[12] == 12)                  # finger moves to leaf 2
    ok(delta() == [1, 0, 1, 0, 0, 0, 1], delta())
    ok(outcome(ks.__getitem__, 99)[0] == 'IndexError')
    ok(delta() == [1, 0, 1, 0, 0, 0, 1], delta())
    sl = ks[7:18]                     # leaf 1 .. leaf 3; finger of ks -> 3
    ok(delta() == [1, 2, 0, 2, 0, 0, 1], delta())
    it = iter(sl)                     # generic sequence iterator over sl
    ok(delta() == [1, 2, 0, 2, 0, 0, 1], delta())
    ok([next(it) for _ in range(4)] == [7, 8, 9, 10])  # sl's finger: leaf 2
    ok(delta() == [1, 1, 1, 2, 0, 0, 1], delta())
    ok(list(it) == list(range(11, 18)))             # sl's finger: leaf 3
    ok(delta() == [1, 1, 0, 3, 0, 0, 1], delta())
    ok(outcome(next, it) == ('stop',))
    ok(delta() == [1, 1, 0, 3, 0, 0, 1], delta())
    del it, sl
    ok(delta() == [1, 0, 0, 1, 0, 0, 1], delta())
    del ks
    ok(delta() == zero, delta())

    # iterators made by the tree and by a bucket
    it = t.iteritems(12, 22)
    ok(delta() == [0, 0, 2, 0, 1, 0, 0], delta())
    for _ in range(3):
        next(it)
    ok(delta() == [0, 0, 1, 1, 1, 0, 0], delta())
    # Emptying leaf 3 unlinks it.  It was the first child of an interior
    # node: the tree drops three references to it (child pointer, that
    # node's firstbucket, leaf 2's next) and the iterator keeps one; leaf 4
    # gains two (firstbucket, leaf 2's next) while leaf 3 still points to it.
    del t[15], t[16], t[17], t[18], t[19]
    ok(delta() == [0, 0, 1, -2, 3, 0, 0], delta())
    ok(len(lv[3]) == 0 and lv[3]._next is lv[4] and lv[2]._next is lv[4])
    ok(outcome(next, it) == ('RuntimeError', SIZE_CHANGED))
    del it
    b = lv[0]
    n = sys.getrefcount(b)
    it = b.iterkeys()
    ok(sys.getrefcount(b) == n + 3)
    ok(list(it) == [0, 1, 2, 3, 4])
    ok(sys.getrefcount(b) == n + 2)
    del it
    ok(sys.getrefcount(b) == n)
    it = b.iterkeys(7, 9)             # empty range: no leaf is held
    ok(sys.getrefcount(b) == n)
    ok(outcome(next, it) == ('stop',))
    del it
    try:
        b.iterkeys(1, 2, 3, 4, 5)
    except TypeError:
        pass
    else:
        ok(False, 'iterkeys accepted 5 arguments')
    ok(sys.getrefcount(b) == n)

    # the entries handed out are new references owned by the caller
    class K:
        def __init__(self, n):
            self.n = n

        def __lt__(self, other):
            return self.n < other.n

        def __eq__(self, other):
            return self.n == other.n

        def __hash__(self):
            return hash(self.n)

    keys = [K(i) for i in range(30)]
    vals = [object() for i in range(30)]
    t2 = T()
    for k, v in zip(keys, vals):
        t2[k] = v
    gc.collect()
    kref = [sys.getrefcount(k) for k in keys]
    vref = [sys.getrefcount(v) for v in vals]
    for view in (t2.items(), t2.keys(), t2.values()):
        got = list(view)
        got2 = [view[i] for i in range(-30, 30)]
        it = iter(view)
        next(it)
        del t2[keys[2]]
        t2[keys[2]] = vals[2]
        for _ in range(40):
            if outcome(next, it)[0] != 'ok':
                break
        del got, got2, it, view
    gc.collect()
    ok([sys.getrefcount(k) for k in keys] == kref)
    ok([sys.getrefcount(v) for v in vals] == vref)


# ---------------------------------------------------------------------------
# D. persistence: activation of leaves on demand, failure to load a leaf,
#    no leaf is left sticky
# ---------------------------------------------------------------------------

class Boom(Exception):
    pass


class Jar:
    def __init__(self):
        self.states = {}
        self.fail = False
        self.loads = []
        self.registered = []

    def add(self, ob, oid):
        ob._p_jar = self
        ob._p_oid = oid

    def ghostify(self, ob):
        self.states[ob._p_oid] = ob.__getstate__()
        ob._p_invalidate()
        ok(ob._p_state == -1)

    def setstate(self, ob):
        if self.fail:
            raise Boom(ob._p_oid)
        self.loads.append(ob._p_oid)
        ob.__setstate__(self.states[ob._p_oid])

    def register(self, ob):
        self.registered.append(ob._p_oid)


def persistence():
    for fam in FAMILIES:
        mod = FAMILIES[fam]
        T = small(getattr(mod, fam + 'BTree'), leaf=10)
        t = fill(T(), fam, range(40))
        lv = leaves(t)
        jar = Jar()
        for n, b in enumerate(lv):
            jar.add(b, b'leaf%d' % n)

        def states():
            return [b._p_state for b in lv]

        st0 = states()
        ok(2 not in st0)
        it = t.iteritems()
        ok(next(it) == (0, val(fam, 0)))
        jar.ghostify(lv[0])
        jar.fail = True
        ok(outcome2(next, it) == ('Boom', b'leaf0'))
        ok(lv[0]._p_state == -1)
        jar.fail = False
        ok(next(it) == (1, val(fam, 1)))       # nothing was lost
        ok(jar.loads == [b'leaf0'] and lv[0]._p_state == 0)
        # crossing into a ghost leaf: it is loaded by the *next* call
        for _ in range(3):
            next(it)
        jar.ghostify(lv[1])
        ok(lv[1]._p_state == -1)
        ok(next(it) == (5, val(fam, 5)))
        ok(jar.loads == [b'leaf0', b'leaf1'])
        # ... and when the load fails the cursor stays where it is
        for _ in range(4):
            next(it)
        jar.ghostify(lv[2])
        jar.fail = True
        ok(outcome2(next, it) == ('Boom', b'leaf2'))
        ok(outcome2(next, it) == ('Boom', b'leaf2'))
        jar.fail = False
        ok([k for k, v in it] == list(range(10, 40)))
        ok(2 not in states(), states())

        # size change detected in an activated leaf: leaf not left sticky
        it = iter(t)
        next(it), next(it), next(it)
        del t[3], t[4], t[2]
        ok(outcome2(next, it) == ('RuntimeError', SIZE_CHANGED))
        ok(lv[0]._p_state == 1 and 2 not in states(), states())
        ok(b'leaf0' in jar.registered)

        # the lazy sequence
        t = fill(T(), fam, range(40))
        lv = leaves(t)
        jar = Jar()
        for n, b in enumerate(lv):
            jar.add(b, b'leaf%d' % n)
        ks = t.keys()
        ok(ks[12] == 12)
        # seq[i] takes len(seq) first, which loads every leaf of the slice
        # but the last one: only the last leaf can fail to load in the seek
        jar.ghostify(lv[6])
        jar.fail = True
        ok(outcome2(ks.__getitem__, 33) == ('Boom', b'leaf6'))
        ok(outcome2(ks.__getitem__, -1) == ('Boom', b'leaf6'))
        ok(ks[13] == 13 and len(ks) == 40 and bool(ks))
        jar.fail = False
        ok(ks[33] == 33 and ks[-1] == 39 and jar.loads == [b'leaf6'])
        ok(2 not in [b._p_state for b in lv])
        # iter(seq) and reversed(seq) call the sq_item slot directly
        ks = t.keys(3, 36)
        fwd = iter(ks)
        ok([next(fwd) for _ in range(5)] == [3, 4, 5, 6, 7])
        jar.ghostify(lv[1])
        jar.ghostify(lv[2])
        jar.fail = True
        ok(outcome2(next, fwd) == ('Boom', b'leaf1'))   # final check
        ok(outcome2(next, fwd) == ('Boom', b'leaf1'))
        jar.fail = False
        ok([next(fwd) for _ in range(2)] == [8, 9])
        jar.fail = True
        ok(outcome2(next, fwd) == ('Boom', b'leaf2'))   # after moving right
        jar.fail = False
        jar.loads = []
        ok(list(fwd) == list(range(10, 37)))
        ok(jar.loads == [b'leaf2'])
        ok(2 not in [b._p_state for b in lv])
        bwd = reversed(ks)
        ok([next(bwd) for _ in range(9)] == list(range(36, 27, -1)))
        jar.ghostify(lv[5])
        jar.fail = True
        ok(outcome2(next, bwd) == ('Boom', b'leaf5'))   # within the leaf
        ok(outcome2(next, bwd) == ('stop',))    # reversed() gives up
        jar.fail = False
        bwd = reversed(ks)
        ok([next(bwd) for _ in range(17)] == list(range(36, 19, -1)))
        jar.ghostify(lv[3])
        jar.fail = True
        # PreviousBucket walks the chain from the first leaf of the slice
        ok(outcome2(next, bwd) == ('Boom', b'leaf3'))
        jar.fail = False
        ok(list(reversed(ks)) == list(range(36, 2, -1)))
        ok(2 not in [b._p_state for b in lv])
        t._check()

        # a bucket on its own
        B = getattr(mod, fam + 'Bucket')
        b = fill(B(), fam, range(10))
        jar = Jar()
        jar.add(b, b'bucket')
        b._p_changed = False
        jar.ghostify(b)
        jar.fail = True
        ok(outcome2(iter, b) == ('Boom', b'bucket'))
        jar.fail = False
        meth = b.iteritems            # (getting the attribute loads b)
        jar.ghostify(b)
        jar.fail = True
        ok(outcome2(meth, 2, 5) == ('Boom', b'bucket'))
        ok(b._p_state == -1)
        jar.fail = False
        it = b.iteritems(2, 5)
        ok(b._p_state == 0)
        ok(next(it) == (2, val(fam, 2)))
        jar.ghostify(b)               # a ghost bucket has length 0
        jar.fail = True
        ok(outcome2(next, it) == ('Boom', b'bucket'))
        jar.fail = False
        ok([k for k, v in it] == [3, 4, 5])
        ok(b._p_state == 0)
        try:
            b.iteritems(1, 2, 3, 4, 5)
        except TypeError:
            pass
        else:
            ok(False)
        ok(b._p_state == 0)           # not left sticky by the failed call


def outcome2(f, *a):
    try:
        return ('ok', f(*a))
    except StopIteration:
        return ('stop',)
    except RuntimeError as e:
        return ('RuntimeError', str(e))
    except IndexError as e:
        return ('IndexError', e.args)
    except Boom as e:
        return ('Boom', e.args[0])


# ---------------------------------------------------------------------------
# E. both implementations agree when nothing is mutated
# ---------------------------------------------------------------------------

def c_vs_py():
    rng = random.Random(15)
    for fam in FAMILIES:
        mod = FAMILIES[fam]
        for kind in ('BTree', 'TreeSet'):
            C = small(getattr(mod, fam + kind))
            P = small(getattr(mod, fam + kind + 'Py'))
            keys = rng.sample(range(200), 90)
            c, p = fill(C(), fam, keys), fill(P(), fam, keys)
            names = ['keys'] if kind == 'TreeSet' else [
                'keys', 'values', 'items']
            for name in names:
                for args in [(), (10, 150), (None, 77), (33, None),
                             (10, 150, True, True), (300, 400), (50, 40)]:
                    cs, ps = getattr(c, name)(*args), getattr(p, name)(*args)
                    ok(len(cs) == len(ps) and bool(cs) == bool(ps))
                    n = len(cs)
                    order = [rng.randrange(-n - 3, n + 3) for _ in range(60)]
                    for i in order:
                        a, b = outcome(cs.__getitem__, i), outcome(
                            ps.__getitem__, i)
                        ok(a[0] == b[0] and (a[0] != 'ok' or a == b), i, a, b)
                    ok(list(cs) == list(ps))
                    ok(list(cs[3:17]) == list(ps[3:17]))
                    ok(list(cs[-5:]) == list(ps[-5:]))
                    if kind == 'TreeSet':
                        ci, pi = iter(c.keys(*args)), iter(p.keys(*args))
                    else:
                        ci = getattr(c, 'iter' + name)(*args)
                        pi = getattr(p, 'iter' + name)(*args)
                    ok(list(ci) == list(pi))
                    ok(outcome(next, ci) == ('stop',) == outcome(next, pi))


# ---------------------------------------------------------------------------
# F. the Python lazy sequence against a reference model: a transcription of
#    its documented behaviour (search finger = a generator over the leaves'
#    own iterators, restarted when indexing moves left; len() cached)
# ---------------------------------------------------------------------------

class RefTreeItems:
    def __init__(self, firstbucket, itertype, iterargs):
        self.firstbucket = firstbucket
        self.itertype = itertype
        self.iterargs = iterargs
        self.index = -1
        self.it = self.gen()
        self.v = None
        self.length = None

    def __getitem__(self, i):
        if isinstance(i, slice):
            len(self)       # list(seq) asks for len(seq) first: cached
            return list(self.gen())[i]
        if i < 0:
            i = len(self) + i
            if i < 0:
                raise IndexError(i)
        if i < self.index:
            self.index = -1
            self.it = self.gen()
        while i > self.index:
            try:
                self.v = next(self.it)
            except StopIteration:
                raise IndexError(i)
            self.index += 1
        return self.v

    def __len__(self):
        if self.length is None:
            n = 0
            for _ in self.gen():
                n += 1
            self.length = n
        return self.length

    def __iter__(self):
        return self.gen()

    def gen(self):
        marker = OO.OOBTreePy.keys.__defaults__[0]
        args = tuple(self.iterargs)
        args = args + (marker, marker, False, False)[len(args):]
        lo, hi, excludemin, excludemax = args
        nomin = lo is marker or lo is None
        nomax = hi is marker or hi is None
        bucket = self.firstbucket
        nth = 0
        while bucket is not None:
            exmin = excludemin and (nth == 0 or not nomin)
            exmax = excludemax and (bucket._next is None or not nomax)
            resumed = 0
            for entry in getattr(bucket, self.itertype)(lo, hi, exmin, exmax):
                yield entry
                resumed += 1
            if nth and not resumed:
                return      # only the first leaf may contribute nothing
            bucket = bucket._next
            nth += 1


def outcome3(f, *a):
    try:
        r = f(*a)
    except StopIteration:
        return ('stop',)
    except Exception as e:
        return (type(e).__name__, e.args)
    if isinstance(r, (list, tuple, int, float)):
        return ('ok', r)
    return ('ok', type(r).__name__)


def py_treeitems_reference(seeds=40, steps=120):
    from BTrees._base import _TreeItems
    for fam in FAMILIES:
        mod = FAMILIES[fam]
        for kind in ('BTree', 'TreeSet'):
            T = small(getattr(mod, fam + kind + 'Py'))
            for seed in range(seeds):
                rng = random.Random(f'F-{fam}-{kind}-{seed}')
                universe = rng.choice((25, 90))
                keys = rng.sample(range(universe), rng.randrange(1, universe))
                t = fill(T(), fam, keys)
                model = {k: (k if kind == 'TreeSet' else val(fam, k))
                         for k in keys}
                pairs = []
                for step in range(steps):
                    r = rng.random()
                    if (r < 0.12 or not pairs) and model:
                        name = 'keys' if kind == 'TreeSet' else rng.choice(
                            ('keys', 'values', 'items'))
                        args = rng.choice([
                            (), (), (rng.randrange(universe),),
                            (None, rng.randrange(universe)),
                            (rng.randrange(universe), None, True, True),
                            (None, None, True, True),
                            (rng.randrange(40), rng.randrange(universe),
                             rng.random() < .5, rng.random() < .5)])
                        live = getattr(t, name)(*args)
                        ok(type(live) is _TreeItems)
                        ref = RefTreeItems(live.firstbucket, live.itertype,
                                           live.iterargs)
                        pairs.append([live, ref, None, None])
                        pairs = pairs[-5:]
                    elif r < 0.75 and pairs:
                        pair = rng.choice(pairs)
                        live, ref = pair[0], pair[1]
                        c = rng.random()
                        if c < 0.55:
                            i = rng.randrange(-universe - 2, universe + 2)
                            a = outcome3(live.__getitem__, i)
                            b = outcome3(ref.__getitem__, i)
                        elif c < 0.65:
                            a, b = outcome3(len, live), outcome3(len, ref)
                        elif c < 0.75:
                            i, j = rng.randrange(-9, 30), rng.randrange(-9, 30)
                            a = outcome3(live.__getitem__, slice(i, j))
                            b = outcome3(ref.__getitem__, slice(i, j))
                        elif c < 0.8 or pair[2] is None:
                            pair[2], pair[3] = iter(live), iter(ref)
                            a = b = None
                        else:
                            a = outcome3(next, pair[2])
                            b = outcome3(next, pair[3])
                        ok(a == b, 'differs from the reference', a, b)
                        ok(live.index == ref.index and live.v == ref.v and
                           live._len == ref.length)
                        stat('F compared')
                        if a is not None and a[0] not in ('ok', 'stop'):
                            ok(a[0] in ('IndexError', 'RuntimeError'), a)
                            stat('F ' + a[0])
                    else:
                        mutate(rng, t, model, fam, universe)
                sound(t, model, fam)
    # an empty tree has no lazy sequence at all
    ok(OO.OOBTreePy().keys() == ())
    # the search finger is restarted, not copied: two uses do not interfere
    t = fill(small(OO.OOBTreePy)(), 'OO', range(30))
    ks = t.keys()
    ok(ks[10] == 10 and ks[4] == 4 and ks[4] == 4 and ks[29] == 29)
    ok(outcome3(ks.__getitem__, 30) == ('IndexError', (30,)))
    ok(outcome3(ks.__getitem__, -31) == ('IndexError', (-1,)))
    ok(ks[-30] == 0 and len(ks) == 30)
    del t[29]
    ok(len(ks) == 30)             # cached
    # the finger runs off the (new) end and stays there until restarted
    ok(outcome3(ks.__getitem__, 29) == ('IndexError', (29,)))
    ok(ks.index == 28 and ks.v == 28)
    ok(outcome3(ks.__getitem__, 28) == ('ok', 28))   # remembered entry
    ok(outcome3(ks.__getitem__, -1) == ('IndexError', (29,)))
    t[29] = 0
    ok(outcome3(ks.__getitem__, 29) == ('IndexError', (29,)))
    ok(ks[0] == 0 and ks[29] == 29)


def main():
    c_iterator_scenarios()
    c_sequence_scenarios()
    refcounts()
    persistence()
    c_vs_py()
    py_treeitems_reference()
    for fam in FAMILIES:
        random_schedules(fam)
    # the random schedules were not vacuous
    for what in ('iter entry', 'iter RuntimeError', 'iter IndexError',
                 'seq entry', 'seq RuntimeError', 'F compared',
                 'F IndexError'):
        ok(STATS.get(what, 0) > 50, what, STATS)
    print('OK: %d checks; %s' % (CHECKS[0], sorted(STATS.items())))


if __name__ == '__main__':
    main()
