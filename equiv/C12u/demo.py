#!/usr/bin/env python
"""Differential demo for refactoring C12/u.

Exercises the C entry points weightedUnion / weightedIntersection
(wunion_m / wintersection_m in SetOpTemplate.c): argument parsing, the None
short-circuits, the weight that is reported, the shape and the reference
counts of the returned pair, and error propagation from set_operation().

Run as:  PYTHONPATH=<tree>/src python demo.py      (exit status 0 == OK)
"""
import gc
import importlib
import pickle
import random
import struct
import sys

SEED = 0xC12
NUMERIC = ['IF', 'II', 'IU', 'LF', 'LL', 'LQ', 'OI', 'OL', 'OQ', 'OU',
           'QF', 'QL', 'QQ', 'UF', 'UI', 'UU']
OBJECTVAL = ['IO', 'LO', 'OO', 'QO', 'UO']
KINDS = ['Bucket', 'BTree', 'Set', 'TreeSet']
SIZES = [0, 1, 2, 3, 7, 25, 70]

checks = 0


def ok(cond, *what):
    global checks
    checks += 1
    if not cond:
        print('FAILED:', *what)
        raise SystemExit(1)


# --------------------------------------------------------------------------
# families


class Family:
    def __init__(self, prefix):
        self.prefix = prefix
        self.kcode, self.vcode = prefix[0], prefix[1]
        self.mod = M = importlib.import_module('BTrees.%sBTree' % prefix)
        self.Bucket = getattr(M, prefix + 'Bucket')
        self.Set = getattr(M, prefix + 'Set')
        ok(self.Bucket is not getattr(M, prefix + 'BucketPy'),
           'C extension not in use for', prefix)
        B = getattr(M, prefix + 'BTree')
        TS = getattr(M, prefix + 'TreeSet')
        # small nodes, so that operands of modest size are multi-level trees
        self.trees = [
            type('Small' + prefix + 'BTree', (B,),
                 dict(max_leaf_size=ls, max_internal_size=is_))
            for ls, is_ in ((2, 2), (3, 2), (4, 3))
        ]
        self.treesets = [
            type('Small' + prefix + 'TreeSet', (TS,),
                 dict(max_leaf_size=ls, max_internal_size=is_))
            for ls, is_ in ((2, 2), (3, 2), (4, 3))
        ]
        self.BTree, self.TreeSet = B, TS

    def make(self, kind, data, rnd):
        if kind == 'Bucket':
            return self.Bucket(data)
        if kind == 'Set':
            return self.Set(data)
        if kind == 'BTree':
            return rnd.choice(self.trees + [self.BTree])(data)
        return rnd.choice(self.treesets + [self.TreeSet])(data)

    # -- random material -------------------------------------------------
    def key(self, rnd):
        c = self.kcode
        if c == 'I':
            return rnd.randint(-40, 40)
        if c == 'L':
            return rnd.choice([rnd.randint(-40, 40),
                               rnd.randint(-40, 40) + (1 << 40),
                               rnd.randint(-40, 40) - (1 << 40)])
        if c == 'U':
            return rnd.randint(0, 80)
        if c == 'Q':
            return rnd.choice([rnd.randint(0, 80),
                               rnd.randint(0, 40) + (1 << 40)])
        return rnd.randint(-40, 40)       # 'O': any ordered objects

    def value(self, rnd):
        c = self.vcode
        if c == 'I':
            return rnd.randint(-20, 20)
        if c == 'L':
            return rnd.choice([rnd.randint(-20, 20),
                               rnd.randint(-20, 20) * (1 << 33)])
        if c == 'U':
            return rnd.randint(0, 20)
        if c == 'Q':
            return rnd.choice([rnd.randint(0, 20),
                               rnd.randint(0, 20) * (1 << 33)])
        if c == 'F':
            return rnd.randint(-64, 64) / 4.0
        return ('v', rnd.randint(0, 5))   # 'O'

    def weight(self, rnd):
        c = self.vcode
        if c in 'IL':
            return rnd.choice([0, 1, 1, -1, rnd.randint(-9, 9)])
        if c in 'UQ':
            return rnd.choice([0, 1, 1, rnd.randint(0, 9)])
        return rnd.choice([0.0, 1.0, 1, -1.0, rnd.randint(-16, 16) / 4.0])

    def valtype(self):
        return float if self.vcode == 'F' else int

    def data(self, kind, n, rnd):
        keys = set()
        while len(keys) < n:
            keys.add(self.key(rnd))
        if kind in ('Bucket', 'BTree'):
            return {k: self.value(rnd) for k in keys}
        return keys


# --------------------------------------------------------------------------
# the model


def ismap(d):
    return isinstance(d, dict)


def val(d, k):
    return d[k] if ismap(d) else 1


def model_wunion(a, b, w1, w2):
    if not ismap(a) and not ismap(b):
        return 1, sorted(set(a) | set(b))
    out = {}
    for k in set(a) | set(b):
        if k in a and k in b:
            out[k] = val(a, k) * w1 + val(b, k) * w2
        elif k in a:
            out[k] = val(a, k) * w1
        else:
            out[k] = val(b, k) * w2
    return 1, sorted(out.items())


def model_wintersection(a, b, w1, w2):
    common = set(a) & set(b)
    if not ismap(a) and not ismap(b):
        return w1 + w2, sorted(common)
    return 1, sorted((k, val(a, k) * w1 + val(b, k) * w2) for k in common)


def check_result(fam, res, expected, is_mapping, what):
    rtype = fam.Bucket if is_mapping else fam.Set
    ok(type(res) is rtype, what, 'result type', type(res), rtype)
    got = list(res.items()) if is_mapping else list(res.keys())
    ok(got == expected, what, 'contents', got, expected)
    ok(len(res) == len(expected), what, 'len')
    if is_mapping and fam.vcode != 'O':
        vt = fam.valtype()
        ok(all(type(v) is vt for _, v in got), what, 'value types', got)
    # same state / same pickle as a container built the ordinary way
    ref = rtype(dict(expected)) if is_mapping else rtype(expected)
    ok(res.__getstate__() == ref.__getstate__(), what, 'state',
       res.__getstate__(), ref.__getstate__())
    ok(pickle.dumps(res, 2) == pickle.dumps(ref, 2), what, 'pickle')
    ok(res._p_changed is False or res._p_changed is None or
       res._p_changed is True, what)
    ok(res._p_jar is None and res._p_oid is None, what, 'persistence')
    # the result is an ordinary, growable container
    if expected:
        k0 = expected[0][0] if is_mapping else expected[0]
        ok(k0 in res, what, 'membership')


# --------------------------------------------------------------------------
# value-type arithmetic of the C implementation


def f32(x):
    return struct.unpack('f', struct.pack('f', x))[0]


def wrap(x, bits, signed):
    x &= (1 << bits) - 1
    if signed and x >> (bits - 1):
        x -= 1 << bits
    return x


VAL_BITS = {'I': (32, True), 'L': (64, True), 'U': (32, False),
            'Q': (64, False)}


def as_value(fam, x):
    """What a parsed weight looks like once it is a VALUE_TYPE."""
    if fam.vcode == 'F':
        return f32(x)
    return wrap(x, *VAL_BITS[fam.vcode])


def add_values(fam, x, y):
    if fam.vcode == 'F':
        return f32(f32(x) + f32(y))
    return wrap(as_value(fam, x) + as_value(fam, y), *VAL_BITS[fam.vcode])


def same(x, y):
    """Equal, of equal type; nan equals nan."""
    if type(x) is not type(y):
        return False
    return x == y or (x != x and y != y)


def raises(exc, msg, f, *args, **kw):
    try:
        f(*args, **kw)
    except exc as e:
        ok(type(e) is exc, 'exception type', repr(e), exc)
        ok(msg is None or str(e) == msg, 'message', repr(str(e)), repr(msg))
    except BaseException as e:
        ok(False, 'wrong exception', repr(e), exc)
    else:
        ok(False, 'no exception', exc, msg, args)


# --------------------------------------------------------------------------
# sections


def interesting_weights(fam):
    c = fam.vcode
    if c == 'F':
        return [0, 1, -1, 0.5, 0.1, 0.2, -3.75, 1e10, 3e38, 1e60, 7,
                float('inf'), -0.0, 16777217]
    ws = [0, 1, 2, 7, 100, True, False]
    bits, signed = VAL_BITS[c]
    if signed:
        ws += [-1, -5, (1 << (bits - 1)) - 1, -(1 << (bits - 1))]
    else:
        # unsigned weights are parsed without a range check
        ws += [-1, -5, (1 << bits) - 1, (1 << bits) + 5, 1 << (bits - 1)]
    return ws


class Jar:
    def __init__(self):
        self.loads = 0

    def setstate(self, obj):
        self.loads += 1
        obj.__setstate__(self.state)

    def register(self, obj):
        raise AssertionError('registered')


def section_none(rnd):
    for prefix in NUMERIC:
        fam = Family(prefix)
        vt = fam.valtype()
        ops = (fam.mod.weightedUnion, fam.mod.weightedIntersection)
        others = [fam.make(k, fam.data(k, n, rnd), rnd)
                  for k in KINDS for n in (0, 5)]
        # with None on the other side the operand isn't even looked at
        others += ['a string', [3, 1, 2], object(), 12345678901, 2.5,
                   Family('OO' if prefix != 'OO' else 'II').Bucket()]
        ws = interesting_weights(fam)
        for op in ops:
            for x in others:
                gc.collect()
                base = sys.getrefcount(x)
                for w1 in ws:
                    w2 = rnd.choice(ws)
                    what = (prefix, op.__name__, type(x).__name__, w1, w2)
                    t = op(None, x, w1, w2)
                    ok(type(t) is tuple and len(t) == 2, what, t)
                    ok(sys.getrefcount(t) == 2, what, 'pair refcount')
                    ok(t[1] is x, what, 'identity')
                    ok(same(t[0], vt(as_value(fam, w2))), what, 'weight', t[0])
                    ok(sys.getrefcount(x) == base + 1, what, 'refcount')
                    del t
                    ok(sys.getrefcount(x) == base, what, 'refcount after')

                    t = op(x, None, w1, w2)
                    ok(type(t) is tuple and len(t) == 2, what, t)
                    ok(t[1] is x, what, 'identity')
                    ok(same(t[0], vt(as_value(fam, w1))), what, 'weight', t[0])
                    ok(sys.getrefcount(x) == base + 1, what, 'refcount')
                    del t
                    ok(sys.getrefcount(x) == base, what, 'refcount after')

                    t = op(None, None, w1, w2)
                    ok(type(t) is tuple and len(t) == 2 and t[1] is None,
                       what, t)
                    ok(same(t[0], vt(0)), what, 'weight of nothing', t[0])

                # defaults
                ok(same(op(None, x)[0], vt(1)) and op(None, x)[1] is x)
                ok(same(op(x, None)[0], vt(1)) and op(x, None)[1] is x)
                t = op(x, None, ws[3])
                ok(same(t[0], vt(as_value(fam, ws[3]))) and t[1] is x)
                t = op(None, x, ws[3])
                ok(same(t[0], vt(1)) and t[1] is x)
                ok(same(op(None, None)[0], vt(0)))
                del t
                ok(sys.getrefcount(x) == base, prefix, 'refcount at end')

        # a ghost operand is handed back without being loaded
        b = fam.make('Bucket', fam.data('Bucket', 4, rnd), rnd)
        jar = Jar()
        jar.state = b.__getstate__()
        b._p_jar = jar
        b._p_oid = b'ghost'
        b._p_deactivate()
        ok(b._p_changed is None)
        for op in ops:
            ok(op(None, b, 2, 3)[1] is b and op(b, None, 2, 3)[1] is b)
            ok(b._p_changed is None and jar.loads == 0, prefix, 'ghost loaded')
        # whereas a real operation loads it
        w, r = ops[0](b, b, 1, 1)
        ok(jar.loads == 1 and b._p_changed is False, prefix, 'ghost')


def section_weights(rnd):
    """The reported weight:  always 1 for a union; for an intersection
    w1+w2 (value-type arithmetic) iff the result is a plain set."""
    for prefix in NUMERIC:
        fam = Family(prefix)
        vt = fam.valtype()
        wu, wi = fam.mod.weightedUnion, fam.mod.weightedIntersection
        operands = [(k, fam.make(k, fam.data(k, n, rnd), rnd))
                    for k in KINDS for n in (0, 1, 6)]
        if fam.kcode != 'O':
            operands.append(('Key', fam.key(rnd)))   # a lone key is a set
        ws = interesting_weights(fam)
        for k1, o1 in operands:
            for k2, o2 in operands:
                both_sets = (k1 in ('Set', 'TreeSet', 'Key') and
                             k2 in ('Set', 'TreeSet', 'Key'))
                for w1 in ws:
                    w2 = rnd.choice(ws)
                    if not both_sets and fam.vcode == 'F' and \
                            (abs(w1) > 1e9 or abs(w2) > 1e9):
                        continue    # keep products finite / exact
                    what = (prefix, k1, k2, w1, w2)
                    t = wu(o1, o2, w1, w2)
                    ok(type(t) is tuple and len(t) == 2, what)
                    ok(sys.getrefcount(t) == 2, what, 'pair refcount')
                    ok(same(t[0], vt(1)), what, 'union weight', t[0])
                    ok(type(t[1]) is (fam.Set if both_sets else fam.Bucket),
                       what, 'union type')
                    w, r = t
                    del t
                    # the pair held the only reference to the result
                    ok(sys.getrefcount(r) == 2, what, 'result refcount')

                    t = wi(o1, o2, w1, w2)
                    ok(type(t) is tuple and len(t) == 2, what)
                    ok(sys.getrefcount(t) == 2, what, 'pair refcount')
                    if both_sets:
                        e = vt(add_values(fam, w2, w1))
                        ok(type(t[1]) is fam.Set, what, 'inter type')
                    else:
                        e = vt(1)
                        ok(type(t[1]) is fam.Bucket, what, 'inter type')
                    ok(same(t[0], e), what, 'intersection weight', t[0], e)
                    w, r = t
                    del t
                    ok(sys.getrefcount(r) == 2, what, 'result refcount')
                    if type(w) is float or abs(w) > 1000:
                        # (small ints are shared, immortal objects)
                        ok(sys.getrefcount(w) == 2, what, 'weight refcount',
                           sys.getrefcount(w))
                # default weights
                ok(same(wi(o1, o2)[0], vt(2 if both_sets else 1)))
                ok(same(wi(o1, o2, 5)[0], vt(6 if both_sets else 1)))
                ok(same(wu(o1, o2)[0], vt(1)) and same(wu(o1, o2, 5)[0], vt(1)))
    # a subclass of the set type as a *result* never happens, but subclass
    # operands still give exact Set / Bucket results
    fam = Family('II')

    class MySet(fam.Set):
        pass

    class MyBucket(fam.Bucket):
        pass
    w, r = fam.mod.weightedIntersection(MySet([1, 2]), MySet([2, 3]), 4, 5)
    ok(w == 9 and type(r) is fam.Set and list(r) == [2])
    w, r = fam.mod.weightedIntersection(MySet([1, 2]), MyBucket({2: 3}), 4, 5)
    ok(w == 1 and type(r) is fam.Bucket and list(r.items()) == [(2, 4 + 15)])
    w, r = fam.mod.weightedUnion(MySet([1, 2]), MyBucket({2: 3}), 4, 5)
    ok(w == 1 and type(r) is fam.Bucket and
       list(r.items()) == [(1, 4), (2, 4 + 15)])


def section_parsing():
    for prefix in NUMERIC:
        fam = Family(prefix)
        rnd = random.Random(7)
        m = fam.make('BTree', fam.data('BTree', 5, rnd), rnd)
        s = fam.make('Set', fam.data('Set', 5, rnd), rnd)
        for op in (fam.mod.weightedUnion, fam.mod.weightedIntersection):
            name = op.__name__
            raises(TypeError, 'function takes at least 2 arguments (0 given)',
                   op)
            raises(TypeError, 'function takes at least 2 arguments (1 given)',
                   op, m)
            raises(TypeError, 'function takes at most 4 arguments (5 given)',
                   op, m, s, 1, 1, 1)
            raises(TypeError, name + '() takes no keyword arguments',
                   op, m, s, w1=1)
            raises(TypeError, name + '() takes no keyword arguments',
                   op, o1=None, o2=None)
            # the weights are parsed before anything else is looked at
            for a, b in ((m, s), (None, s), (m, None), (None, None),
                         ('junk', 'junk')):
                if fam.vcode == 'F':
                    raises(TypeError, 'must be real number, not str',
                           op, a, b, 'x')
                    raises(TypeError, 'must be real number, not NoneType',
                           op, a, b, 1, None)
                    raises(OverflowError, 'int too large to convert to float',
                           op, a, b, 1 << 2000)
                else:
                    # (the wording depends on the format code)
                    exact = fam.vcode == 'I'
                    raises(TypeError,
                           "'str' object cannot be interpreted as an integer"
                           if exact else None, op, a, b, 'x')
                    raises(TypeError,
                           "'float' object cannot be interpreted as an integer"
                           if exact else None, op, a, b, 1, 1.5)
                    raises(TypeError, "'NoneType' object cannot be "
                           "interpreted as an integer" if exact else None,
                           op, a, b, None)
                    bits, signed = VAL_BITS[fam.vcode]
                    if signed:
                        raises(OverflowError, None, op, a, b, 1 << (bits - 1))
                        raises(OverflowError, None, op, a, b, 1,
                               -(1 << (bits - 1)) - 1)

                class W:
                    log = []

                    def __init__(self, n):
                        self.n = n

                    def __index__(self):
                        W.log.append(self.n)
                        if self.n == 13:
                            raise KeyError('unlucky')
                        return self.n

                    def __float__(self):
                        W.log.append(self.n)
                        if self.n == 13:
                            raise KeyError('unlucky')
                        return float(self.n)
                if fam.vcode == 'Q':
                    # "K" wants a real int, no __index__
                    raises(TypeError, None, op, a, b, W(2), W(3))
                    ok(W.log in ([], [2]), prefix, W.log)
                    continue
                if a == 'junk':
                    raises(TypeError, None, op, a, b, W(2), W(3))
                else:
                    op(a, b, W(2), W(3))
                ok(W.log == [2, 3], prefix, 'weight conversion order', W.log)
                del W.log[:]
                raises(KeyError, None, op, a, b, W(13), W(3))
                ok(W.log == [13], prefix, 'weight conversion stops', W.log)
                del W.log[:]
                raises(KeyError, None, op, a, b, W(3), W(13))
                ok(W.log == [3, 13], prefix, W.log)


class K:
    fail = False

    def __init__(self, n):
        self.n = n

    def __lt__(self, other):
        if K.fail:
            raise ValueError('comparison failed')
        return self.n < other.n

    def __eq__(self, other):
        if K.fail:
            raise ValueError('comparison failed')
        return self.n == other.n

    def __hash__(self):
        return hash(self.n)


def section_errors(rnd):
    """set_operation() failing: NULL is passed on, nothing leaks."""
    NOITER = "set operation: invalid argument, cannot iterate"
    for prefix in NUMERIC:
        fam = Family(prefix)
        m = fam.make('BTree', fam.data('BTree', 5, rnd), rnd)
        s = fam.make('TreeSet', fam.data('Set', 5, rnd), rnd)
        junk = [1, 2, 3]
        gc.collect()
        base = [sys.getrefcount(o) for o in (m, s, junk)]
        for op in (fam.mod.weightedUnion, fam.mod.weightedIntersection):
            raises(TypeError, NOITER, op, m, junk, 2, 3)
            raises(TypeError, NOITER, op, junk, s, 2, 3)
            raises(TypeError, NOITER, op, junk, junk)
            raises(TypeError, NOITER, op, m, {1: 2})
            raises(TypeError, NOITER, op, m, 'abc')
        ok([sys.getrefcount(o) for o in (m, s, junk)] == base, 'leak')
    for prefix in ('OI', 'OL', 'OU', 'OQ'):
        fam = Family(prefix)
        keys = [K(i) for i in range(8)]
        for k1 in KINDS:
            for k2 in KINDS:
                o1 = fam.make(k1, {k: 2 for k in keys[:6]}
                              if k1 in ('Bucket', 'BTree') else keys[:6], rnd)
                o2 = fam.make(k2, {k: 3 for k in keys[3:]}
                              if k2 in ('Bucket', 'BTree') else keys[3:], rnd)
                gc.collect()
                base = [sys.getrefcount(o) for o in keys + [o1, o2]]
                for op in (fam.mod.weightedUnion,
                           fam.mod.weightedIntersection):
                    K.fail = True
                    try:
                        raises(ValueError, 'comparison failed', op, o1, o2, 2, 3)
                    finally:
                        K.fail = False
                    ok([sys.getrefcount(o) for o in keys + [o1, o2]] == base,
                       prefix, k1, k2, 'leak after failure')
                    w, r = op(o1, o2, 2, 3)
                    n_in = [int(k in r) for k in keys] + [0, 0]
                    ok([sys.getrefcount(o) for o in keys + [o1, o2]] ==
                       [b + n for b, n in zip(base, n_in)], prefix, k1, k2,
                       'references held by the result')
                    del r
                    ok([sys.getrefcount(o) for o in keys + [o1, o2]] == base,
                       prefix, k1, k2, 'leak after success')


def section_differential(rnd):
    """Randomized comparison against the dict / set model."""
    for prefix in NUMERIC:
        fam = Family(prefix)
        wu = fam.mod.weightedUnion
        wi = fam.mod.weightedIntersection
        vt = fam.valtype()
        for k1 in KINDS:
            for k2 in KINDS:
                for n1 in SIZES:
                    n2 = rnd.choice(SIZES)
                    d1 = fam.data(k1, n1, rnd)
                    d2 = fam.data(k2, n2, rnd)
                    if rnd.random() < 0.5 and d1:
                        for k in rnd.sample(sorted(d1), (len(d1) + 1) // 2):
                            if ismap(d2):
                                d2[k] = fam.value(rnd)
                            else:
                                d2.add(k)
                    o1 = fam.make(k1, d1, rnd)
                    o2 = fam.make(k2, d2, rnd)
                    w1, w2 = fam.weight(rnd), fam.weight(rnd)
                    what = (prefix, k1, n1, k2, len(d2), w1, w2)
                    mapping = ismap(d1) or ismap(d2)
                    for op, model, args in (
                            (wu, model_wunion, (w1, w2)),
                            (wi, model_wintersection, (w1, w2)),
                            (wu, model_wunion, (w1,)),
                            (wi, model_wintersection, (w1,)),
                            (wu, model_wunion, ()),
                            (wi, model_wintersection, ()),
                    ):
                        w, r = op(o1, o2, *args)
                        ew, er = model(d1, d2, *(args + (1, 1))[:2])
                        ok(same(w, vt(ew)), what, op.__name__, 'weight', w, ew)
                        check_result(fam, r, er, mapping,
                                     what + (op.__name__,))


def main():
    rnd = random.Random(SEED)
    section_none(rnd)
    section_weights(rnd)
    section_parsing()
    section_errors(rnd)
    for _ in range(3):
        section_differential(rnd)
    print('OK: %d checks' % checks)
    return 0


if __name__ == '__main__':
    sys.exit(main())
