# Equivalence demonstration for refactoring C05s (property C05: evicting nodes
# from the object cache never changes behaviour).
# Run as:  PYTHONPATH=<worktree>/src /venv/bin/python demo.py
# Exit status 0 = every check passed and the digest of all observations equals
# the one recorded with the unmodified sources.
#
# ---------------------------------------------------------------------------
# Shared harness: a ZODB-free object cache ("jar") for BTrees nodes.
#
# * Jar keeps the committed state of every persistent node (the tuples returned
#   by __getstate__, which reference the child nodes directly), hands out oids,
#   and owns a persistent.PickleCache, so nodes can really be turned into
#   ghosts (_p_deactivate) and are reloaded through Jar.setstate().
# * sweep() plays the role of cache.minimize(): it asks *every* node to become
#   a ghost.  Nodes that are pinned (sticky, _p_state == 2) or modified refuse.
# * K is an object key whose comparisons call a hook, so that a sweep (or an
#   exception) can be placed inside any key comparison of an operation.
# ---------------------------------------------------------------------------
import hashlib
import random
import sys

from persistent import Persistent, PickleCache

GHOST, UPTODATE, CHANGED, STICKY = -1, 0, 1, 2


class LoadFailure(Exception):
    """Raised by Jar.setstate() when a fault is injected."""


class CmpError(Exception):
    """Raised by K comparisons when a fault is injected."""


class Jar(object):

    def __init__(self):
        self.cache = PickleCache(self, 100000)
        self.states = {}
        self.order = []          # nodes, in oid order
        self.loads = 0
        self.fail_at = None      # fail the n-th load from now (1-based)
        self.fail_only = None    # ... counting only nodes accepted by this
        self.log = []            # oids loaded, in order

    # -- data manager protocol used by persistent --------------------------
    def setstate(self, obj):
        self.loads += 1
        if self.fail_at is not None and (
                self.fail_only is None or self.fail_only(obj)):
            self.fail_at -= 1
            if self.fail_at == 0:
                self.fail_at = None
                raise LoadFailure(obj._p_oid)
        self.log.append(obj._p_oid)
        obj.__setstate__(self.states[obj._p_oid])

    def register(self, obj):
        pass

    def readCurrent(self, obj):
        pass

    # -- "transaction" ------------------------------------------------------
    def commit(self, root):
        """Give oids to new nodes reachable from root, save changed states."""
        seen = set()
        todo = [root]
        while todo:
            o = todo.pop()
            if id(o) in seen:
                continue
            seen.add(id(o))
            new = o._p_jar is None
            if new:
                o._p_oid = (len(self.order) + 1).to_bytes(8, 'big')
                o._p_jar = self
                self.cache[o._p_oid] = o
                self.order.append(o)
            if o._p_state == GHOST and not new:
                st = self.states[o._p_oid]      # unchanged, do not load
            else:
                st = o.__getstate__()
                if new or o._p_changed:
                    self.states[o._p_oid] = st
                    o._p_changed = False
            stack = [st]
            while stack:
                s = stack.pop()
                if isinstance(s, tuple):
                    stack.extend(s)
                elif isinstance(s, Persistent):
                    todo.append(s)

    # -- cache control / observation ---------------------------------------
    def sweep(self):
        for o in self.order:
            o._p_deactivate()

    def states_vector(self):
        return tuple(o._p_state for o in self.order)

    def sticky(self):
        return [o._p_oid for o in self.order if o._p_state == STICKY]

    def lru(self):
        return tuple(oid for oid, _ in self.cache.lru_items())


class K(object):
    """Totally ordered object key; every comparison calls K.hook()."""
    __slots__ = ('v',)
    hook = None

    def __init__(self, v):
        self.v = v

    def _c(self, other):
        h = K.hook
        if h is not None:
            h()
        return other.v

    def __lt__(self, other):
        return self.v < self._c(other)

    def __le__(self, other):
        return self.v <= self._c(other)

    def __gt__(self, other):
        return self.v > self._c(other)

    def __ge__(self, other):
        return self.v >= self._c(other)

    def __eq__(self, other):
        if not isinstance(other, K):
            return NotImplemented
        return self.v == self._c(other)

    def __ne__(self, other):
        if not isinstance(other, K):
            return NotImplemented
        return self.v != self._c(other)

    def __hash__(self):
        return hash(self.v)

    def __repr__(self):
        return 'K(%r)' % (self.v,)


def plain(x):
    """Normalise a result so that it can be compared / hashed."""
    if isinstance(x, K):
        return ('K', x.v)
    if isinstance(x, (tuple, list)):
        return tuple(plain(y) for y in x)
    return x


def outcome(fn, *args):
    """('ok', result) or ('err', exception class name)."""
    try:
        return ('ok', plain(fn(*args)))
    except Exception as e:      # noqa
        return ('err', type(e).__name__)


class Trace(object):
    """Everything observed, folded into one digest."""

    def __init__(self):
        self.h = hashlib.sha256()
        self.n = 0

    def add(self, *things):
        self.n += 1
        self.h.update(repr(things).encode('ascii', 'backslashreplace'))
        self.h.update(b'\n')

    def digest(self):
        return self.h.hexdigest()[:24]


failures = []


def check(cond, *msg):
    if not cond:
        failures.append(msg)
        if len(failures) <= 20:
            print('FAIL:', *msg)


def small(cls, leaf=4, internal=4):
    """Subclass of a tree class with tiny nodes (=> deep trees)."""
    return type(cls)('Small' + cls.__name__, (cls,),
                     {'max_leaf_size': leaf, 'max_internal_size': internal})


def finish(trace, expected):
    d = trace.digest()
    print('observations: %d   digest: %s' % (trace.n, d))
    if expected is None:
        print('(no recorded digest)')
    else:
        check(d == expected, 'digest differs from the recorded one', expected)
    if failures:
        print('%d check(s) FAILED' % len(failures))
        sys.exit(1)
    print('OK')
    sys.exit(0)
# ---------------------------------------------------------------------------
# C05s: Bucket_maxminKey -- minKey()/maxKey() of buckets and sets (and the
# popitem()/pop() built on minKey()), with the bucket evicted before the call
# and the cache swept inside the key comparisons of the bound search.
# ---------------------------------------------------------------------------
from BTrees.OOBTree import OOBucket, OOSet, OOBTree, OOBucketPy, OOSetPy
from BTrees.IOBTree import IOBucket, IOSet, IOBucketPy, IOSetPy
from BTrees.LFBTree import LFBucket, LFBucketPy
from BTrees.IIBTree import IISet, IISetPy

EXPECTED_DIGEST = "76a8c0fddf8991c5fe182b59"   # recorded with the unmodified sources

trace = Trace()
NOKEY = 'no key satisfies the conditions'
stats = {'failed loads inside the call': 0, 'loads inside the call': 0}


def outcome(fn, *args):
    """Like the harness' outcome(), but keeps the message of ValueErrors:
    'empty bucket' and 'no key satisfies the conditions' are distinct results."""
    try:
        return ('ok', plain(fn(*args)))
    except ValueError as e:
        return ('err', 'ValueError', str(e))
    except Exception as e:      # noqa
        return ('err', type(e).__name__)


def fill(b, keys, mk):
    if hasattr(b, 'add'):
        for k in keys:
            b.add(mk(k))
    else:
        for k in keys:
            b[mk(k)] = k * 10
    return b


def model_minmax(keys, which, bound):
    """Independent reference for minKey/maxKey over a sorted list of ints."""
    if not keys:
        return ('err', 'ValueError', 'empty bucket')
    if bound is None:
        return ('ok', keys[0] if which == 'minKey' else keys[-1])
    if which == 'minKey':
        c = [k for k in keys if k >= bound]
        return ('ok', c[0]) if c else ('err', 'ValueError', NOKEY)
    c = [k for k in keys if k <= bound]
    return ('ok', c[-1]) if c else ('err', 'ValueError', NOKEY)


def unK(o):
    if o[0] == 'ok' and isinstance(o[1], tuple) and o[1][:1] == ('K',):
        return ('ok', o[1][1])
    return o


class Call(object):
    """b.<which>(*args), with the bound method looked up ahead of time:
    fetching an attribute of a ghost loads it, and the point is to have the
    C function itself meet the ghost."""

    def __init__(self, which, *args):
        self.which = which
        self.args = args
        self.bound = {}

    def prepare(self, b):
        self.bound[id(b)] = getattr(b, self.which)

    def forget(self):
        self.bound.clear()

    def __call__(self, b):
        m = self.bound.get(id(b))
        if m is None:
            m = getattr(b, self.which)
        return m(*self.args)


def calls(mk, bound):
    if bound == 'noarg':
        args = ()
    elif bound is None:
        args = (None,)
    elif isinstance(bound, int) and abs(bound) < 2 ** 31:
        args = (mk(bound),)
    else:
        args = (bound,)         # unusable bound, passed as is
    return [('minKey', Call('minKey', *args)), ('maxKey', Call('maxKey', *args))]


def exercise(cls, pycls, keys, bounds, mk, label, chain=None):
    if chain is None:
        b = fill(cls(), keys, mk)
        jar = Jar()
        jar.commit(b)
    else:
        b, jar = chain           # a bucket in the middle of a tree's chain
    twin = fill(cls(), keys, mk)
    pytwin = fill(pycls(), keys, mk)
    me = jar.order.index(b)
    jar.sweep()
    check(b._p_state == GHOST, label, 'bucket is not a ghost')
    refs0 = sys.getrefcount(b)

    for bound in bounds:
        for which, op in calls(mk, bound):
            op.prepare(b)
            # evicted before the call
            jar.sweep()
            loads = jar.loads
            got = outcome(op, b)
            stats['loads inside the call'] += jar.loads - loads
            want = outcome(op, twin)
            check(got == want, label, which, bound, got, want)
            if keys:    # (C and Python disagree about empty buckets)
                check(got == outcome(op, pytwin), label, 'py', which, bound, got)
            if bound in ('noarg', None) or (isinstance(bound, int) and
                                            abs(bound) < 2 ** 31):
                exp = model_minmax(keys, which,
                                   None if bound == 'noarg' else bound)
                check(unK(got) == exp, label, 'model', which, bound, got, exp)
            check(not jar.sticky(), label, which, bound, 'pinned', jar.sticky())
            check(b._p_state == (UPTODATE if got[1] != 'LoadFailure' else GHOST),
                  label, which, bound, 'state', b._p_state)
            trace.add(label, which, plain(bound), got, jar.states_vector(),
                      jar.lru())
            # already loaded
            got2 = outcome(op, b)
            check(got2 == got, label, which, bound, 'second call', got2)
            check(not jar.sticky(), label, which, bound, 'pinned (2)')

            if mk is K and isinstance(bound, int):
                # swept inside every comparison
                seen = []

                def hook():
                    jar.sweep()
                    seen.append(jar.order[me]._p_state)
                jar.sweep()
                K.hook = hook
                try:
                    got3 = outcome(op, b)
                finally:
                    K.hook = None
                check(got3 == got, label, which, bound, 'inside', got3)
                check(all(s == STICKY for s in seen), label, which, bound,
                      'bucket not protected during a comparison', seen)
                check(bool(seen) == bool(keys), label, 'comparisons?', seen)
                check(not jar.sticky(), label, which, bound, 'pinned (3)')
                trace.add(label, which, bound, 'inside', got3, tuple(seen),
                          jar.states_vector(), jar.lru())
                # the n-th comparison raises
                n = 0
                while True:
                    n += 1
                    count = [0]

                    def hook():
                        count[0] += 1
                        jar.sweep()
                        if count[0] == n:
                            raise CmpError()
                    jar.sweep()
                    K.hook = hook
                    try:
                        got4 = outcome(op, b)
                    finally:
                        K.hook = None
                    check(not jar.sticky(), label, which, bound, n, 'pinned (4)')
                    trace.add(label, which, bound, 'cmp', n, got4,
                              jar.states_vector(), jar.lru())
                    if count[0] < n:
                        check(got4 == got, label, which, bound, 'cmp', got4)
                        break
                    check(got4 == ('err', 'CmpError'), label, which, bound, n,
                          got4)

            # the reload fails
            jar.sweep()
            jar.fail_at = 1
            got5 = outcome(op, b)
            fired = jar.fail_at is None
            jar.fail_at = None
            check(not jar.sticky(), label, which, bound, 'pinned (5)')
            if fired:
                stats['failed loads inside the call'] += 1
                check(got5 == ('err', 'LoadFailure'), label, which, bound, got5)
                check(b._p_state == GHOST, label, 'state after failed load')
            else:
                # argument rejected before the bucket is looked at
                check(got5 == got, label, which, bound, 'no load', got5)
            trace.add(label, which, plain(bound), 'load', got5, fired,
                      jar.states_vector(), jar.lru())
            op.forget()

    jar.sweep()
    check(b._p_state == GHOST, label, 'not evictable at the end')
    check(sys.getrefcount(b) == refs0, label, 'bucket reference count changed')


def pop_smallest(cls, keys, mk, label):
    """popitem() / pop() take the smallest key through minKey()."""
    is_set = hasattr(cls(), 'add')
    b = fill(cls(), keys, mk)
    jar = Jar()
    jar.commit(b)
    name = 'pop' if is_set else 'popitem'
    left = list(keys)
    for how in ['ghost', 'failing', 'loaded'] * len(keys) + ['ghost', 'failing']:
        jar.commit(b)
        meth = getattr(b, name)     # (see Call)
        if how != 'loaded':
            jar.sweep()
        if how == 'failing':
            jar.fail_at = 1
        got = outcome(meth)
        del meth
        failed = how == 'failing'
        jar.fail_at = None
        if failed:
            # the unmodified code reports *any* failure of minKey() as
            # KeyError (empty bucket); nothing is removed
            exp = ('err', 'KeyError')
        elif not left:
            exp = ('err', 'KeyError')
        else:
            k = left.pop(0)
            exp = ('ok', plain(mk(k)) if is_set else (plain(mk(k)), k * 10))
        check(got == exp, label, how, got, exp)
        check(not jar.sticky(), label, how, 'pinned', jar.sticky())
        trace.add(label, how, got, jar.states_vector(), jar.lru())
        check(len(b) == len(left), label, 'len', len(b), len(left))


ident = lambda k: k     # noqa
keys = [3, 6, 9, 12, 15, 18, 21]
int_bounds = ['noarg', None, 2, 3, 4, 12, 13, 21, 22, -5]
bad = ['x', 1.5, (), 2 ** 40, -2 ** 70]
exercise(OOBucket, OOBucketPy, keys, int_bounds, K, 'OOBucket')
exercise(OOSet, OOSetPy, keys, int_bounds, K, 'OOSet')
exercise(OOBucket, OOBucketPy, [], ['noarg', None, 3], K, 'OOBucket-empty')
exercise(OOSet, OOSetPy, [], ['noarg', None, 3], K, 'OOSet-empty')
exercise(OOBucket, OOBucketPy, [7], ['noarg', 6, 7, 8], K, 'OOBucket-one')
exercise(IOBucket, IOBucketPy, keys, int_bounds + bad, ident, 'IOBucket')
exercise(IOSet, IOSetPy, keys, int_bounds + bad, ident, 'IOSet')
exercise(IISet, IISetPy, [], ['noarg', None, 3, 'x'], ident, 'IISet-empty')
exercise(LFBucket, LFBucketPy, keys, int_bounds + bad, ident, 'LFBucket')

# a bucket that is part of a tree (it has a successor and an oid of its own)
class SmallOO(OOBTree):
    max_leaf_size = 6
    max_internal_size = 4


tree = SmallOO()
for k in range(0, 90, 3):
    tree[K(k)] = k * 10
tjar = Jar()
tjar.commit(tree)
mid = tree._firstbucket._next._next
mid_keys = [k.v for k in mid.keys()]
check(len(mid_keys) >= 3, 'tree bucket too small')
exercise(OOBucket, OOBucketPy, mid_keys,
         ['noarg', None, mid_keys[0] - 1, mid_keys[1], mid_keys[1] + 1,
          mid_keys[-1] + 1], K, 'OOBucket-in-tree', chain=(mid, tjar))
tree._check()

pop_smallest(OOBucket, keys, K, 'OOBucket.popitem')
pop_smallest(OOSet, keys, K, 'OOSet.pop')
pop_smallest(IOBucket, keys, ident, 'IOBucket.popitem')
pop_smallest(IISet, keys, ident, 'IISet.pop')

print(stats)
check(all(stats.values()), 'the C function never met a ghost', stats)
finish(trace, EXPECTED_DIGEST)
