"""Demo for refactoring C08/u: three-way merge of leaf states
(bucket_merge in MergeTemplate.c, reached through _p_resolveConflict of
buckets, sets, and one-leaf trees; the pure-Python implementation is held to
the same specification).

Run as:  PYTHONPATH=<tree>/src /venv/bin/python demo.py

Checked (exit 0 iff all hold):

 1. exhaustive: every triple (old, committed, new) of small mappings / sets
    is merged exactly as an independent model of the merge rules says: same
    merged state or same refusal (positions and reason code), for buckets,
    sets and one-leaf trees of several families, C and Python;
 2. semantic: whenever a merge is accepted, the result is the old contents
    with both sides' key-level changes applied, those changes touch disjoint
    keys (or agree), no side is empty, and no side raised the minimum of the
    leaf (deleting the first item - which rewrites the separator in the
    parent node - is refused);
 3. randomized: larger leaves (growth of the result bucket), random edits;
 4. successor pointers: a changed successor is refused (0), an unchanged
    one is carried over; multi-leaf tree states are refused (11); malformed
    states raise TypeError;
 5. error paths: failing key comparisons at every comparison site, failing
    value comparisons; reference counts of keys and values are balanced on
    success and on every refusal/error;
 6. a digest over all results equals the one recorded on the unmodified
    tree.
"""
import gc
import hashlib
import os
import importlib
import itertools
import random
import sys
import time

from BTrees.Interfaces import BTreesConflictError

T0 = time.time()
SEED = 80809

_digest = hashlib.sha256()
_count = [0]


def note(*things):
    _digest.update(repr(things).encode('utf-8', 'backslashreplace'))
    _digest.update(b'\n')
    _count[0] += 1


class Failure(Exception):
    pass


def ensure(cond, *msg):
    if not cond:
        raise Failure(' '.join(str(m) for m in msg))


# --------------------------------------------------------------------------
# the model: merge rules written down independently of both implementations
# --------------------------------------------------------------------------

class Cursor:
    def __init__(self, items):
        self.items = items
        self.index = -1
        self.position = 0
        self.advance()

    def advance(self):
        self.index += 1
        if self.index < len(self.items):
            self.key, self.value = self.items[self.index]
            self.position = self.index + 1
        else:
            self.key = self.value = None
            self.position = -1

    @property
    def active(self):
        return self.position >= 0


def cmp(a, b):
    return (a > b) - (a < b)


class Refused(Exception):
    pass


def model_merge(old, com, new):
    """old/com/new: sorted lists of (key, value); sets use value None.

    Return ('ok', merged list) or ('conflict', (p1, p2, p3, reason)).
    """
    if not com or not new:
        return ('conflict', (-1, -1, -1, 12))
    i1, i2, i3 = Cursor(old), Cursor(com), Cursor(new)
    out = []

    def refuse(reason):
        raise Refused((i1.position, i2.position, i3.position, reason))

    def take(i):
        out.append((i.key, i.value))
        i.advance()

    try:
        while i1.active and i2.active and i3.active:
            c12 = cmp(i1.key, i2.key)
            c13 = cmp(i1.key, i3.key)
            if c12 == 0 and c13 == 0:
                if i1.value == i2.value:
                    out.append((i3.key, i3.value))
                elif i1.value == i3.value:
                    out.append((i2.key, i2.value))
                else:
                    refuse(1)
                i1.advance()
                i2.advance()
                i3.advance()
            elif c12 == 0:
                if c13 > 0:
                    take(i3)            # new inserted a smaller key
                elif i1.value != i2.value:
                    refuse(2)           # new deleted, committed changed
                elif i3.position == 1:
                    refuse(13)          # new deleted the first item
                else:
                    i1.advance()
                    i2.advance()
            elif c13 == 0:
                if c12 > 0:
                    take(i2)
                elif i1.value != i3.value:
                    refuse(3)
                elif i2.position == 1:
                    refuse(13)
                else:
                    i1.advance()
                    i3.advance()
            else:
                c23 = cmp(i2.key, i3.key)
                if c23 == 0:
                    refuse(4)
                if c12 > 0:
                    take(i3 if c23 > 0 else i2)
                elif c13 > 0:
                    take(i3)
                else:
                    refuse(5)
        while i2.active and i3.active:
            c23 = cmp(i2.key, i3.key)
            if c23 == 0:
                refuse(6)
            take(i3 if c23 > 0 else i2)
        while i1.active and i2.active:
            c12 = cmp(i1.key, i2.key)
            if c12 > 0:
                take(i2)
            elif c12 == 0 and i1.value == i2.value:
                i1.advance()
                i2.advance()
            else:
                refuse(7)
        while i1.active and i3.active:
            c13 = cmp(i1.key, i3.key)
            if c13 > 0:
                take(i3)
            elif c13 == 0 and i1.value == i3.value:
                i1.advance()
                i3.advance()
            else:
                refuse(8)
        if i1.active:
            refuse(9)
        while i2.active:
            take(i2)
        while i3.active:
            take(i3)
        if not out:
            return ('conflict', (-1, -1, -1, 10))
    except Refused as e:
        return ('conflict', e.args[0])
    return ('ok', out)


_gone = object()


def delta(base, after):
    base, after = dict(base), dict(after)
    d = {}
    for k in set(base) | set(after):
        a, b = base.get(k, _gone), after.get(k, _gone)
        if (a is _gone) != (b is _gone) or a != b:
            d[k] = b
    return d


def semantic_check(old, com, new, verdict):
    """What an accepted merge must look like, whatever the algorithm."""
    if verdict[0] != 'ok':
        return
    d2, d3 = delta(old, com), delta(old, new)
    for k in set(d2) & set(d3):
        ensure(d2[k] is not _gone and d2[k] == d3[k] and k in dict(old),
               'accepted overlapping changes', old, com, new)
    merged = dict(old)
    for d in (d2, d3):
        for k, v in d.items():
            if v is _gone:
                merged.pop(k, None)
            else:
                merged[k] = v
    ensure(sorted(merged.items()) == verdict[1], 'merge result is not old + '
           'both deltas', old, com, new, verdict)
    ensure(com and new and verdict[1], 'accepted an empty side/result')
    if old:
        # Deleting the smallest key of a leaf rewrites the separator in the
        # parent - unless the leaf has no separator or a smaller one, which
        # is certain only if the same side also put a smaller key into the
        # leaf.  So the minimum of a leaf never goes up in an accepted merge.
        first = old[0][0]
        ensure(com[0][0] <= first and new[0][0] <= first,
               'accepted a merge that raises the minimum', old, com, new)


# --------------------------------------------------------------------------
# the implementations
# --------------------------------------------------------------------------

def fs_key(i):
    return bytes((0x30 + i // 256, i % 256))


def fs_val(i):
    return b'%06d' % i


class Kind:
    """One leaf class (or one-leaf tree class) of one family."""

    def __init__(self, prefix, is_set, impl, tree):
        mod = importlib.import_module('BTrees.%sBTree' % prefix)
        suffix = 'Py' if impl == 'py' else ''
        if is_set:
            name = 'TreeSet' if tree else 'Set'
        else:
            name = 'BTree' if tree else 'Bucket'
        self.cls = getattr(mod, prefix + name + suffix)
        self.prefix, self.is_set, self.impl, self.tree = (
            prefix, is_set, impl, tree)
        if prefix == 'fs':
            self.key, self.val = fs_key, fs_val
        else:
            self.key = lambda i: i
            self.val = ((lambda i: i / 2.0) if prefix[1] == 'F'
                        else (lambda i: i))
        self.name = '%s%s%s' % (prefix, name, suffix)

    def state(self, items, nxt=None):
        """Pickle state for a leaf holding items (model form)."""
        if items is None:
            return None
        if self.is_set:
            flat = tuple(self.key(k) for k, _ in items)
        else:
            flat = []
            for k, v in items:
                flat.append(self.key(k))
                flat.append(self.val(v))
            flat = tuple(flat)
        st = (flat,) if nxt is None else (flat, nxt)
        if self.tree:
            ensure(nxt is None, 'no successor inside a tree state')
            return None if not items else ((st,),)
        return st

    def expected(self, verdict, nxt=None):
        if verdict[0] == 'ok':
            st = self.state(verdict[1], nxt)
            return ('ok', st)
        return verdict

    def resolve(self, s1, s2, s3):
        inst = self.cls()
        try:
            return ('ok', inst._p_resolveConflict(s1, s2, s3))
        except BTreesConflictError as e:
            return ('conflict', tuple(e.args))
        except Exception as e:
            return ('exc', type(e).__name__)

    def __repr__(self):
        return self.name


def kinds():
    out = []
    for impl in ('c', 'py'):
        for prefix in ('OO', 'II', 'IO', 'OI', 'LL', 'LF', 'QQ', 'UO', 'fs'):
            for tree in (False, True):
                out.append(Kind(prefix, False, impl, tree))
        for prefix in ('OO', 'II', 'LL', 'IU', 'fs'):
            for tree in (False, True):
                out.append(Kind(prefix, True, impl, tree))
    return out


def check_triple(kind, old, com, new, verdict=None):
    if verdict is None:
        verdict = model_merge(old, com, new)
    if kind.tree and (not com or not new):
        # a tree without keys has the state None: nothing to merge into
        want = ('conflict', (-1, -1, -1, 12))
    else:
        want = kind.expected(verdict)
    got = kind.resolve(kind.state(old), kind.state(com), kind.state(new))
    ensure(got == want, kind, old, com, new, 'got', got, 'want', want)
    return verdict


# --------------------------------------------------------------------------
# 1 + 2. exhaustive small triples
# --------------------------------------------------------------------------

def all_maps(keys, values):
    out = []
    for choice in itertools.product((None,) + tuple(values),
                                    repeat=len(keys)):
        out.append([(k, v) for k, v in zip(keys, choice) if v is not None])
    return out


def section_exhaustive(ks):
    maps = all_maps((1, 2, 3), (5, 6))
    sets = [[(k, None) for k, v in m]
            for m in all_maps((1, 2, 3, 4), (0,))]
    tally = {}
    for universe, is_set in ((maps, False), (sets, True)):
        mine = [k for k in ks if k.is_set == is_set
                and k.prefix in ('OO', 'IO', 'LF', 'LL', 'fs')]
        for old in universe:
            for com in universe:
                for new in universe:
                    verdict = model_merge(old, com, new)
                    semantic_check(old, com, new, verdict)
                    key = verdict[0] if verdict[0] == 'ok' \
                        else verdict[1][3]
                    tally[key] = tally.get(key, 0) + 1
                    note('ex', is_set, old, com, new, verdict)
                    for kind in mine:
                        check_triple(kind, old, com, new, verdict)
    return tally


# --------------------------------------------------------------------------
# 3. randomized, larger leaves
# --------------------------------------------------------------------------

def random_leaf(rng, is_set, n, span):
    keys = sorted(rng.sample(range(span), n))
    return [(k, None if is_set else rng.randrange(4)) for k in keys]


def edit(rng, leaf, is_set, span, nedits):
    d = dict(leaf)
    for _ in range(nedits):
        r = rng.random()
        if r < 0.4 and d:
            del d[rng.choice(sorted(d))]
        elif r < 0.6 and d and not is_set:
            d[rng.choice(sorted(d))] = rng.randrange(4)
        else:
            d[rng.randrange(span)] = None if is_set else rng.randrange(4)
    return sorted(d.items())


def section_random(ks, rounds):
    rng = random.Random(SEED + 3)
    tally = {}
    for is_set in (False, True):
        mine = [k for k in ks if k.is_set == is_set]
        for r in range(rounds):
            n = rng.choice((0, 1, 2, 5, 15, 16, 17, 33, 70))
            span = max(4, n * rng.choice((2, 3)))
            old = random_leaf(rng, is_set, n, span)
            com = edit(rng, old, is_set, span, rng.choice((0, 1, 1, 2, 5)))
            new = edit(rng, old, is_set, span, rng.choice((0, 1, 1, 2, 5)))
            if r % 11 == 0:
                new = random_leaf(rng, is_set, rng.randrange(1, 6), span)
            verdict = model_merge(old, com, new)
            semantic_check(old, com, new, verdict)
            key = verdict[0] if verdict[0] == 'ok' else verdict[1][3]
            tally[key] = tally.get(key, 0) + 1
            note('rnd', is_set, old, com, new, verdict)
            for kind in mine:
                if kind.prefix == 'fs' and span > 250:
                    continue
                check_triple(kind, old, com, new, verdict)
    return tally


# --------------------------------------------------------------------------
# 4. successors, multi-leaf trees, malformed states
# --------------------------------------------------------------------------

class Successor:
    """Stands for the persistent reference to the next leaf."""

    def __init__(self, name):
        self.name = name

    def __eq__(self, other):
        return self is other

    def __ne__(self, other):
        return self is not other

    __hash__ = None


def section_successors(ks):
    a, b = Successor('a'), Successor('b')
    old = [(1, 1), (3, 3), (5, 5)]
    com = [(1, 1), (3, 3), (4, 4), (5, 5)]
    new = [(1, 1), (3, 3), (5, 5), (9, 9)]
    merged = [(1, 1), (3, 3), (4, 4), (5, 5), (9, 9)]
    for kind in ks:
        if kind.tree:
            continue
        strip = (lambda l: [(k, None) for k, _ in l]) if kind.is_set \
            else (lambda l: l)
        o, c, n, m = strip(old), strip(com), strip(new), strip(merged)
        for nxts in itertools.product((None, a, b), repeat=3):
            got = kind.resolve(kind.state(o, nxts[0]), kind.state(c, nxts[1]),
                               kind.state(n, nxts[2]))
            if nxts[0] is nxts[1] is nxts[2]:
                want = ('ok', kind.state(m, nxts[0]))
                ensure(got[0] == 'ok' and got[1] == want[1], kind, nxts, got)
                if nxts[0] is not None:
                    ensure(got[1][1] is nxts[0], 'successor not carried over')
            else:
                ensure(got == ('conflict', (-1, -1, -1, 0)), kind, nxts, got)
            note('succ', kind.name, [x and x.name for x in nxts], got[0],
                 got[1] if got[0] != 'ok' else len(got[1]))
        # an empty side is reported before a changed successor?  Record.
        got = kind.resolve(kind.state(o, a), kind.state([], b),
                           kind.state(n, a))
        note('succ-empty', kind.name, got)
        ensure(got[0] == 'conflict' and got[1][3] in (0, 12), kind, got)

    for kind in ks:
        if not kind.tree:
            continue
        leaf = Kind(kind.prefix, kind.is_set, kind.impl, False)
        one = kind.state([(1, 1), (2, 2)] if not kind.is_set
                         else [(1, None), (2, None)])
        two = kind.state([(1, 1), (2, 2), (3, 3)] if not kind.is_set
                         else [(1, None), (2, None), (3, None)])
        multi = ((leaf.cls(), kind.key(5), leaf.cls()), leaf.cls())
        bad = [5, 'x', (), (1, 2, 3), ((1, 2),), (((1,), 2),), ((5,),),
               [((), )], ((None,),)]
        for where in range(3):
            states = [one, two, one]
            states[where] = multi
            got = kind.resolve(*states)
            ensure(got == ('conflict', (-1, -1, -1, 11)), kind, where, got)
            for b in bad:
                states = [one, two, one]
                states[where] = b
                got = kind.resolve(*states)
                ensure(got == ('exc', 'TypeError'), kind, where, b, got)
            # the first unusable state decides
            states = [multi, multi, multi]
            states[where] = 5
            got = kind.resolve(*states)
            ensure(got == (('exc', 'TypeError') if where == 0
                           else ('conflict', (-1, -1, -1, 11))), kind, got)
        note('tree-bad', kind.name)
        # wrong arity
        for args in ((), (one,), (one, two), (one, two, one, one)):
            inst = kind.cls()
            try:
                inst._p_resolveConflict(*args)
            except TypeError:
                pass
            else:
                raise Failure('arity not checked')

    for kind in ks:
        if kind.tree:
            continue
        good = kind.state([(1, 1)] if not kind.is_set else [(1, None)])
        for b in ((5, 6), 'xy', (5,), ((1, 2), 3, 4), ([1, 2],)):
            for where in range(3):
                states = [good, good, good]
                states[where] = b
                got = kind.resolve(*states)
                ensure(got[0] == 'exc' or len(b) == 3, kind, b, got)
                note('leaf-bad', kind.name, where, repr(b), got)
        if not kind.is_set:
            # odd item count: the trailing key is dropped (C) or refused (Py)
            got = kind.resolve(good, ((kind.key(1),),), good)
            ensure(got[0] in ('exc', 'conflict'), kind, got)
            note('leaf-odd', kind.name, got)


# --------------------------------------------------------------------------
# 5. comparisons that fail, reference counts
# --------------------------------------------------------------------------

class K:
    """Key or value object; comparisons can be made to fail."""
    boom = None
    calls = None
    alive = 0

    def __init__(self, v):
        self.v = v
        K.alive += 1

    def __del__(self):
        K.alive -= 1

    def _c(self, other, what):
        if K.calls is not None:
            K.calls.append((what, self.v, getattr(other, 'v', None)))
        if K.boom is not None and K.boom == len(K.calls):
            raise RuntimeError('boom')

    def __lt__(self, other):
        self._c(other, 'lt')
        return self.v < other.v

    def __eq__(self, other):
        self._c(other, 'eq')
        return isinstance(other, K) and self.v == other.v

    def __ne__(self, other):
        return not self.__eq__(other)

    def __gt__(self, other):
        self._c(other, 'gt')
        return self.v > other.v

    def __le__(self, other):
        self._c(other, 'le')
        return self.v <= other.v

    def __ge__(self, other):
        self._c(other, 'ge')
        return self.v >= other.v

    def __hash__(self):
        return hash(self.v)

    def __repr__(self):
        return 'K(%r)' % (self.v,)


def obj_state(items, kobjs, vobjs, is_set, tree):
    if is_set:
        flat = tuple(kobjs[k] for k, _ in items)
    else:
        flat = []
        for k, v in items:
            flat.append(kobjs[k])
            flat.append(vobjs[v])
        flat = tuple(flat)
    st = (flat,)
    return ((st,),) if tree else st


def unwrap(state, is_set, tree):
    if tree:
        state = state[0][0]
    flat = state[0]
    if is_set:
        return [(k.v, None) for k in flat]
    return [(flat[i].v, flat[i + 1].v - 100) for i in range(0, len(flat), 2)]


def section_objects(rounds):
    rng = random.Random(SEED + 5)
    import BTrees.OOBTree as oo
    targets = []
    for impl in ('c', 'py'):
        sfx = 'Py' if impl == 'py' else ''
        targets += [
            (impl, False, False, getattr(oo, 'OOBucket' + sfx)),
            (impl, True, False, getattr(oo, 'OOSet' + sfx)),
            (impl, False, True, getattr(oo, 'OOBTree' + sfx)),
            (impl, True, True, getattr(oo, 'OOTreeSet' + sfx)),
        ]
    kobjs = [K(i) for i in range(40)]
    vobjs = [K(100 + i) for i in range(4)]

    def refs():
        return ([sys.getrefcount(kobjs[i]) for i in range(len(kobjs))],
                [sys.getrefcount(vobjs[i]) for i in range(len(vobjs))])

    gc.collect()
    base = refs()
    base_alive = K.alive
    for r in range(rounds):
        is_set_items = None
        n = rng.choice((1, 2, 3, 6, 17))
        span = min(40, max(4, 2 * n))
        for impl, is_set, tree, cls in targets:
            old = random_leaf(rng, is_set, n, span)
            com = edit(rng, old, is_set, span, rng.choice((0, 1, 2)))
            new = edit(rng, old, is_set, span, rng.choice((0, 1, 2)))
            if not old or not com or not new:
                continue
            verdict = model_merge(old, com, new)
            semantic_check(old, com, new, verdict)
            # how many comparisons does an undisturbed run make?
            K.calls, K.boom = [], None
            states = [obj_state(x, kobjs, vobjs, is_set, tree)
                      for x in (old, com, new)]
            inst = cls()
            try:
                res = ('ok', unwrap(inst._p_resolveConflict(*states),
                                    is_set, tree))
            except BTreesConflictError as e:
                res = ('conflict', tuple(e.args))
            calls = K.calls
            K.calls = None
            ensure(res == verdict, impl, is_set, tree, old, com, new, res,
                   verdict)
            note('obj', impl, is_set, tree, old, com, new, res, calls)
            del res, inst, states
            ensure(refs() == base, 'reference counts differ after merge',
                   impl, is_set, tree, old, com, new)
            # ... and now let each of them fail in turn
            booms = list(range(1, len(calls) + 1))
            if len(booms) > 30:
                booms = booms[:10] + sorted(rng.sample(booms[10:-5], 10)) \
                    + booms[-5:]
            for boom in booms:
                K.calls, K.boom = [], boom
                states = [obj_state(x, kobjs, vobjs, is_set, tree)
                          for x in (old, com, new)]
                inst = cls()
                try:
                    got = ('ok', inst._p_resolveConflict(*states))
                except BTreesConflictError as e:
                    got = ('conflict', tuple(e.args))
                except RuntimeError as e:
                    got = ('exc', 'RuntimeError')
                except SystemError as e:
                    got = ('exc', 'SystemError')
                seen = K.calls
                K.calls, K.boom = None, None
                if got[0] == 'ok':
                    got = ('ok', unwrap(got[1], is_set, tree))
                what = calls[boom - 1]
                is_key_cmp = (what[1] < 100)
                if is_key_cmp or impl == 'py':
                    # a failing key comparison (and in Python any failing
                    # comparison) aborts the merge with that error
                    ensure(got == ('exc', 'RuntimeError'), impl, is_set,
                           tree, old, com, new, boom, what, got)
                else:
                    # The C merge does not pass on errors of value
                    # comparisons (a TODO in the source): the values count
                    # as different, which mostly ends in a refusal.  If the
                    # merge still goes through, the error stays pending and
                    # surfaces later or not at all; don't pin that down.
                    # (It even depends on when the garbage collector runs
                    # and reports the pending error as unraisable.)
                    ensure(got[0] in ('conflict', 'ok', 'exc'), got)
                    got = seen = None
                note('objfail', impl, is_set, tree, old, com, new, boom,
                     what, got, seen)
                del got, inst, states
                ensure(refs() == base, 'reference counts differ after a '
                       'failed merge', impl, is_set, tree, old, com, new,
                       boom)
    del kobjs, vobjs
    gc.collect()
    ensure(K.alive == base_alive - 44, 'objects leaked', K.alive)


# --------------------------------------------------------------------------

# Recorded on the unmodified tree (worktree HEAD) with /venv/bin/python.
# Set DEMO_NO_DIGEST=1 to skip the comparison (all other checks stay on).
EXPECTED_DIGEST = (
    'a5b59643cf293f339b3a3d261a23ea3258e874bebbb62af616e03df9d17e2404')


def main():
    ks = kinds()
    tally = section_exhaustive(ks)
    print('1-2 exhaustive   ok %5.1fs  %r' % (time.time() - T0,
                                              sorted(tally.items(),
                                                     key=str)))
    for reason in (1, 2, 3, 4, 5, 6, 7, 8, 9, 12, 13, 'ok'):
        ensure(tally.get(reason), 'outcome never seen', reason)
    tally = section_random(ks, 400)
    print('3   randomized   ok %5.1fs  %r' % (time.time() - T0,
                                              sorted(tally.items(),
                                                     key=str)))
    section_successors(ks)
    print('4   successors   ok %5.1fs' % (time.time() - T0))
    section_objects(60)
    print('5   objects      ok %5.1fs' % (time.time() - T0))
    digest = _digest.hexdigest()
    print('digest', digest, 'over', _count[0], 'observations')
    if (EXPECTED_DIGEST is not None and digest != EXPECTED_DIGEST
            and not os.environ.get('DEMO_NO_DIGEST')):
        raise Failure('behaviour digest differs from the recorded one')
    print('OK')


if __name__ == '__main__':
    try:
        main()
    except Failure as e:
        print('FAILED:', e)
        sys.exit(1)
