"""Differential demo for refactoring t (C: _BTree_set / BTree_child_index).

Run as:  PYTHONPATH=<tree>/src /venv/bin/python demo.py

Exercises the C implementation of insertion, replacement and deletion in
BTree / TreeSet (the function _BTree_set of BTreeTemplate.c and everything it
hands work to) with tiny node sizes, several key/value families, a random
differential run against a plain dict / set model, fault injection into the
n-th key comparison of every kind of mutating operation, the non-comparison
error exits of _BTree_set (bad value, bad node sizes, delete from an empty
tree, failing node constructor while splitting) and reference-count and
persistence (stand-in jar) bookkeeping.

Exit status 0: everything behaved as specified.  A fingerprint of all
observations is printed so that two source trees can be compared by hand.

KNOWN, PRE-EXISTING behaviour that is tolerated (and counted): when the
comparison that fails is the one _BTree_set performs *after* the child has
already removed the key (separator fix-up on the way back up), the key is
gone but the bucket chain may not have been repaired, so _check() can fail.
That is a defect of the unmodified code and is not touched by the refactoring.
"""
import gc
import hashlib
import os
import random
import sys

from BTrees.IFBTree import IFBTree
from BTrees.IIBTree import IIBTree
from BTrees.IIBTree import IITreeSet
from BTrees.LOBTree import LOBTree
from BTrees.OIBTree import OIBTree
from BTrees.OLBTree import OLBTree
from BTrees.OOBTree import OOBTree
from BTrees.OOBTree import OOBTreePy
from BTrees.OOBTree import OOTreeSet


assert OOBTree is not OOBTreePy, "the C extensions are required for this demo"

FINGERPRINT = hashlib.sha256()
# Recorded on the unmodified tree (and reproduced on the refactored one).  Set
# the environment variable C14_DEMO_SKIP_FINGERPRINT=1 to only run the
# model-based checks.
EXPECTED_FINGERPRINT = (
    '6976979803215941f7505bde1a2e95ac9804edf7cab8a3ff5c10aaeb0603cff3')
COUNTS = {}


def note(*parts):
    FINGERPRINT.update((' '.join(str(p) for p in parts) + '\n').encode())


def bump(name, by=1):
    COUNTS[name] = COUNTS.get(name, 0) + by


def check(cond, *msg):
    if not cond:
        print('FAILED:', *msg)
        sys.exit(1)


# ---------------------------------------------------------------------------
# fault injection


class Boom(Exception):
    pass


class Ctl:
    count = 0          # comparisons seen since reset
    fail_at = None     # raise on this comparison
    inits = 0          # node constructor calls seen since reset
    fail_init = None   # raise in this constructor call


def arm(n=None, init=None):
    Ctl.count = 0
    Ctl.fail_at = n
    Ctl.inits = 0
    Ctl.fail_init = init


def tick():
    Ctl.count += 1
    if Ctl.count == Ctl.fail_at:
        raise Boom('comparison %d' % Ctl.count)


class K:
    """An object key whose every rich comparison is counted."""
    __slots__ = ('v',)

    def __init__(self, v):
        self.v = v

    def __lt__(self, other):
        tick()
        return self.v < other.v

    def __le__(self, other):
        tick()
        return self.v <= other.v

    def __gt__(self, other):
        tick()
        return self.v > other.v

    def __ge__(self, other):
        tick()
        return self.v >= other.v

    def __eq__(self, other):
        tick()
        return self.v == other.v

    def __ne__(self, other):
        tick()
        return self.v != other.v

    def __hash__(self):
        return hash(self.v)

    def __repr__(self):
        return 'K(%r)' % (self.v,)


class V:
    """A value object (no comparisons of its own are needed)."""
    __slots__ = ('v',)

    def __init__(self, v):
        self.v = v

    def __repr__(self):
        return 'V(%r)' % (self.v,)


def small(base, leaf, internal, name=None):
    def __init__(self, *args):
        Ctl.inits += 1
        if Ctl.inits == Ctl.fail_init:
            raise Boom('constructor %d' % Ctl.inits)
        base.__init__(self, *args)
    return type(name or ('Small' + base.__name__), (base,), {
        'max_leaf_size': leaf,
        'max_internal_size': internal,
        '__init__': __init__,
    })


class Jar:
    """A tiny stand-in for a ZODB connection."""

    def __init__(self):
        self.registered = []
        self.current = []

    def register(self, obj):
        self.registered.append(obj)

    def readCurrent(self, obj):
        self.current.append(obj)

    def setstate(self, obj):
        raise AssertionError('nothing is ever a ghost in this demo')


# ---------------------------------------------------------------------------
# helpers


def is_set(t):
    return not hasattr(t, 'items')


def unkey(k):
    if isinstance(k, K):
        return k.v
    if isinstance(k, tuple):
        return k[0]
    return k


def tuple_key(i):
    return (i,)


def contents(t):
    """Contents by value (no key comparisons are made)."""
    if is_set(t):
        return [unkey(k) for k in t.keys()]
    return [(unkey(k), v) for k, v in t.items()]


def walk(node):
    """Contents by value, found by descending through the children (not by
    following the chain of leaves the way keys()/items() do)."""
    state = node.__getstate__()
    if state is None:
        return []
    if 'Tree' in type(node).__name__:
        data = state[0]
        if len(data) == 1 and isinstance(data[0], tuple):
            flat = data[0][0]
        else:
            out = []
            for child in data[::2]:
                out.extend(walk(child))
            return out
    else:
        flat = state[0]
    if 'Set' in type(node).__name__:
        return [unkey(k) for k in flat]
    return [(unkey(k), v) for k, v in zip(flat[::2], flat[1::2])]


def dump(node):
    """The shape of a tree, via the pickle state, without addresses."""
    state = node.__getstate__()
    if state is None:
        return (type(node).__name__, None)
    if hasattr(node, '_firstbucket') or 'Tree' in type(node).__name__:
        data = state[0]
        if len(data) == 1 and isinstance(data[0], tuple):
            return (type(node).__name__, 'inline', repr(data[0]))
        out = []
        for i, x in enumerate(data):
            if i % 2:
                out.append(repr(x))
            else:
                out.append(dump(x))
        return (type(node).__name__, tuple(out))
    return (type(node).__name__, repr(state[0]))


def sound(t, label):
    try:
        t._check()
    except Exception as e:   # noqa
        return '%s: _check failed: %s %s' % (label, type(e).__name__, e)
    return None


# ---------------------------------------------------------------------------
# 1. random differential run against a dict / set model


def differential(base, leaf, internal, seed, mkkey, mkval, steps=1500,
                 span=60):
    rnd = random.Random(seed)
    T = small(base, leaf, internal)
    t = T()
    arm()
    setlike = is_set(t)
    model = {}
    keyobjs = {}

    def key(i):
        # the same object for the same logical key (as a real program would
        # not do, but it makes identity shortcuts and fresh keys both occur)
        if rnd.random() < 0.5:
            return mkkey(i)
        return keyobjs.setdefault(i, mkkey(i))

    for step in range(steps):
        i = rnd.randrange(span)
        op = rnd.random()
        if setlike:
            if op < 0.5:
                r = t.add(key(i))
                check(r == (0 if i in model else 1), 'add result', base, i)
                model[i] = None
            elif op < 0.8:
                try:
                    t.remove(key(i))
                    check(i in model, 'remove of a missing key succeeded')
                    del model[i]
                except KeyError:
                    check(i not in model, 'remove of a present key failed')
            else:
                t.update([key(j) for j in range(i, i + 4)])
                for j in range(i, i + 4):
                    model[j] = None
        else:
            v = mkval(rnd.randrange(1000))
            if op < 0.35:
                t[key(i)] = v
                model[i] = v
            elif op < 0.6:
                try:
                    del t[key(i)]
                    check(i in model, 'del of a missing key succeeded')
                    del model[i]
                except KeyError:
                    check(i not in model, 'del of a present key failed')
            elif op < 0.7:
                r = t.insert(key(i), v)
                check(r == (0 if i in model else 1), 'insert result')
                model.setdefault(i, v)
            elif op < 0.8:
                r = t.setdefault(key(i), v)
                check(r is model.setdefault(i, v) or r == model[i],
                      'setdefault result')
            elif op < 0.9:
                marker = object()
                r = t.pop(key(i), marker)
                m = model.pop(i, marker)
                check(r is m or r == m, 'pop result')
            else:
                check((key(i) in t) == (i in model), 'membership')
                got = t.get(key(i), None)
                want = model.get(i, None)
                check(got is want or got == want, 'get result')
        if step % 25 == 0 or step == steps - 1:
            problem = sound(t, 'differential')
            check(problem is None, problem)
            check(len(t) == len(model), 'len', len(t), len(model))
            if setlike:
                check(contents(t) == sorted(model), 'set contents')
            else:
                got = t.items()
                check([unkey(k) for k, _ in got] == sorted(model), 'keys')
                for k, v in got:
                    kv = unkey(k)
                    check(v is model[kv] or v == model[kv], 'value')
                check(bool(t) == bool(model), 'truth value')
    note('differential', base.__name__, leaf, internal, seed, dump(t))
    # drain it completely: every delete path down to the empty tree
    order = sorted(model)
    rnd.shuffle(order)
    for i in order:
        if setlike:
            t.remove(key(i))
        else:
            del t[key(i)]
        problem = sound(t, 'drain')
        check(problem is None, problem)
    check(len(t) == 0 and not t and t.__getstate__() is None, 'not drained')
    bump('differential steps', steps)


# ---------------------------------------------------------------------------
# 2. failing the n-th comparison of a mutating operation


def build(T, keys, vals, order, with_jar):
    arm()
    t = T()
    for i in order:
        if vals is None:
            t.add(keys[i])
        else:
            t[keys[i]] = vals[i]
    jar = None
    if with_jar:
        jar = Jar()
        t._p_jar = jar
        t._p_oid = b'root'
        check(not t._p_changed, 'fresh jar: changed?')
    return t, jar


OPS_MAP = ('set', 'insert', 'setdefault', 'del', 'pop')
OPS_SET = ('add', 'remove')


def perform(t, op, k, v):
    if op == 'set':
        t[k] = v
    elif op == 'insert':
        t.insert(k, v)
    elif op == 'setdefault':
        t.setdefault(k, v)
    elif op == 'del':
        del t[k]
    elif op == 'pop':
        t.pop(k, None)
    elif op == 'add':
        t.add(k)
    elif op == 'remove':
        t.remove(k)
    else:
        raise AssertionError(op)


def expected_after(before, op, i, v, setlike):
    d = dict.fromkeys(before) if setlike else dict(before)
    if op in ('set',):
        d[i] = v
    elif op in ('insert', 'setdefault'):
        d.setdefault(i, v)
    elif op == 'add':
        d[i] = None
    elif op in ('del', 'remove'):
        if i not in d:
            return None     # KeyError expected
        del d[i]
    elif op == 'pop':
        d.pop(i, None)
    if setlike:
        return sorted(d)
    return sorted(d.items())


def fault_matrix(base, leaf, internal, n, seed, int_values=False):
    rnd = random.Random(seed)
    T = small(base, leaf, internal)
    setlike = is_set(T())
    # even logical keys are stored, odd ones are the absent probes
    stored = list(range(0, 2 * n, 2))
    order = stored[:]
    if seed:
        rnd.shuffle(order)
    universe = list(range(-1, 2 * n + 1))
    keys = dict((i, K(i)) for i in universe)
    probes = dict((i, K(i)) for i in universe)     # equal but not identical
    if setlike:
        vals = None
    elif int_values:
        vals = dict((i, i * 10) for i in universe)
    else:
        vals = dict((i, V(i)) for i in universe)
    newv = 424242 if int_values else V('new')
    gc.collect()
    tracked = list(keys.values()) + list(probes.values())
    if vals is not None and not int_values:
        tracked += list(vals.values()) + [newv]
    baseline = [sys.getrefcount(o) for o in tracked]

    ops = OPS_SET if setlike else OPS_MAP
    for op in ops:
        for i in universe:
            for same_object in (False, True):
                k = (keys if same_object else probes)[i]
                # dry run: how many comparisons does it take?
                t, jar = build(T, keys, vals, order, False)
                before = contents(t)
                want = expected_after(before, op, i, newv, setlike)
                arm()
                try:
                    perform(t, op, k, newv)
                    check(want is not None, 'KeyError expected', op, i)
                except KeyError:
                    check(want is None, 'unexpected KeyError', op, i)
                    want = before
                total = Ctl.count
                arm()
                check(contents(t) == want, 'wrong result of', op, i,
                      contents(t), want)
                problem = sound(t, 'fault-free %s %s' % (op, i))
                check(problem is None, problem)
                note('dry', base.__name__, leaf, internal, n, seed, op, i,
                     same_object, total, dump(t))
                del t
                for nth in range(1, total + 1):
                    t, jar = build(T, keys, vals, order, nth % 2 == 1)
                    state0 = t.__getstate__()
                    rc_key = sys.getrefcount(k)
                    arm(nth)
                    try:
                        perform(t, op, k, newv)
                    except Boom:
                        raised = True
                    else:
                        raised = False
                    seen = Ctl.count
                    arm()
                    check(raised, 'comparison error swallowed', op, i, nth)
                    check(seen == nth, 'work continued after the failure',
                          op, i, nth, seen)
                    now = walk(t)
                    check(now == before or now == want,
                          'partial change', op, i, nth, now)
                    problem = sound(t, 'after failed %s %s #%d'
                                    % (op, i, nth))
                    if problem is None:
                        check(contents(t) == now, 'leaf chain and tree differ')
                    if now == before:
                        # nothing may have happened at all
                        check(problem is None, problem)
                        check(sys.getrefcount(k) == rc_key,
                              'reference to the argument key kept/lost',
                              op, i, nth)
                        if jar is not None:
                            check(not t._p_changed and not jar.registered,
                                  'failed no-op marked the tree changed')
                            check(len(jar.current) <= 1, 'readCurrent')
                        bump('faults with no effect')
                    else:
                        # the comparison failed in the separator fix-up after
                        # the key was removed: only deletions do that.
                        check(op in ('del', 'pop', 'remove'),
                              'change completed despite the error', op)
                        if problem is not None:
                            bump('KNOWN DEFECT: unsound tree after failed '
                                 'separator fix-up')
                        else:
                            bump('faults after the completed change')
                    note('fault', op, i, same_object, nth,
                         now == before, problem is None,
                         None if jar is None else
                         (bool(t._p_changed), len(jar.registered),
                          len(jar.current)),
                         dump(t))
                    if problem is None:
                        # later operations behave normally
                        t2 = now[:]
                        probe = K(2 * n + 5)
                        if setlike:
                            t.add(probe)
                            check(contents(t) == t2 + [probe.v], 'later add')
                            t.remove(probe)
                        else:
                            t[probe] = newv
                            check(contents(t) == t2 + [(probe.v, newv)],
                                  'later store')
                            del t[probe]
                        check(contents(t) == t2, 'later delete')
                        problem = sound(t, 'later')
                        check(problem is None, problem)
                        del probe
                    if jar is not None:
                        # break the jar <-> tree cycle right away, so that
                        # reference counts can be compared without the
                        # cyclic collector
                        del jar.registered[:]
                        del jar.current[:]
                    del t, jar, state0
    del k
    before = want = now = t2 = None
    gc.collect()
    after = [sys.getrefcount(o) for o in tracked]
    check(after == baseline, 'reference counts drifted',
          [(o, a, b) for o, a, b in zip(tracked, baseline, after) if a != b])
    bump('fault matrices')


# ---------------------------------------------------------------------------
# 3. the error exits of _BTree_set that are not comparisons


def other_error_exits():
    # (a) delete from an empty tree: KeyError, tree still a legitimate empty
    for base in (OOBTree, OOTreeSet, IIBTree, IITreeSet, LOBTree):
        T = small(base, 2, 2)
        t = T()
        arm()
        k = K(1) if base in (OOBTree, OOTreeSet) else 1
        try:
            if is_set(t):
                t.remove(k)
            else:
                del t[k]
            check(False, 'delete from empty did not raise')
        except KeyError as e:
            check(e.args[0] is k or e.args[0] == k, 'KeyError argument')
        check(not t and len(t) == 0 and t.__getstate__() is None, 'empty')
        check(sound(t, 'empty') is None, 'empty unsound')
        check(Ctl.count == 0, 'comparisons on an empty tree')

    # (b) a value that cannot be converted, on the empty tree (the first
    #     leaf has been added by then and must be taken out again) and on a
    #     populated one
    for base, badval in ((OIBTree, 'x'), (OLBTree, 2 ** 70), (IIBTree, 'x'),
                         (IFBTree, 'x')):
        objkeys = base in (OIBTree, OLBTree)
        T = small(base, 2, 2)
        t = T()
        jar = Jar()
        t._p_jar = jar
        t._p_oid = b'root'
        k = K(5) if objkeys else 5
        rc = sys.getrefcount(k)
        for method in ('set', 'insert', 'setdefault'):
            arm()
            try:
                perform(t, method, k, badval)
                check(False, 'bad value accepted')
            except (TypeError, OverflowError, ValueError) as e:
                note('badval-empty', base.__name__, method,
                     type(e).__name__, str(e))
            check(not t and len(t) == 0 and t.__getstate__() is None,
                  'first leaf left behind')
            check(sound(t, 'rollback') is None, 'unsound after rollback')
            check(list(t.keys()) == [] and t.minKey.__self__ is t, 'keys')
            try:
                t.minKey()
                check(False, 'minKey of empty tree')
            except ValueError:
                pass
            check(sys.getrefcount(k) == rc, 'key reference leaked')
            note('badval-empty-jar', bool(t._p_changed), len(jar.registered),
                 len(jar.current))
        # the tree is still usable and grows normally
        for i in range(9):
            t[K(i) if objkeys else i] = i
        check(contents(t) == [(i, i) for i in range(9)], 'growth')
        snapshot = dump(t)
        for i in (-1, 0, 4, 8, 9):
            kk = K(i) if objkeys else i
            try:
                t[kk] = badval
                check(False, 'bad value accepted')
            except (TypeError, OverflowError, ValueError):
                pass
            check(dump(t) == snapshot, 'bad value changed the tree')
        check(sound(t, 'badval') is None, 'unsound')
        note('badval', base.__name__, snapshot)

    # (c) bad node sizes on the class: reported before anything is changed
    for base in (OOBTree, OOTreeSet, IIBTree):
        for attr, bad, exc in (('max_leaf_size', -1, ValueError),
                               ('max_internal_size', 0, ValueError),
                               ('max_leaf_size', 'x', TypeError),
                               ('max_internal_size', 'x', TypeError)):
            objkeys = base is not IIBTree
            T = small(base, 3, 3)
            setattr(T, attr, bad)
            t = T()
            k = K(1) if objkeys else 1
            arm()
            try:
                perform(t, 'add' if is_set(t) else 'set', k, 1)
                check(False, 'bad node size accepted')
            except exc as e:
                note('badsize-empty', base.__name__, attr, str(e))
            check(not t and t.__getstate__() is None, 'not empty')
            check(sound(t, 'badsize') is None, 'unsound')
            # deleting does not look at the sizes
            try:
                perform(t, 'remove' if is_set(t) else 'del', k, None)
                check(False, 'delete from empty')
            except KeyError:
                pass
            # populated tree: sizes are cached per node, _p_deactivate()
            # (a no-op otherwise without a jar) drops the cache
            setattr(T, attr, 3)
            for i in range(20):
                perform(t, 'add' if is_set(t) else 'set',
                        K(i) if objkeys else i, i)
            snapshot = dump(t)
            setattr(T, attr, bad)
            t._p_deactivate()
            arm()
            try:
                perform(t, 'add' if is_set(t) else 'set',
                        K(100) if objkeys else 100, 1)
                check(False, 'bad node size accepted (populated)')
            except exc:
                pass
            check(Ctl.count == 0, 'searched before checking sizes')
            check(dump(t) == snapshot, 'bad node size changed the tree')
            perform(t, 'remove' if is_set(t) else 'del',
                    K(7) if objkeys else 7, None)
            check(len(t) == 19, 'delete with bad sizes')
            setattr(T, attr, 3)
            t._p_deactivate()
            perform(t, 'add' if is_set(t) else 'set',
                    K(7) if objkeys else 7, 7)
            check(len(t) == 20 and sound(t, 'x') is None, 'recovery')

    # (d) keys without a usable comparison / of the wrong type: refused
    #     before the tree is touched
    t = small(OOBTree, 2, 2)()
    for bad in (object(),):
        try:
            t[bad] = 1
            check(False, 'default comparison accepted')
        except TypeError:
            pass
        check(not t and t.__getstate__() is None, 'touched')
    t = small(IIBTree, 2, 2)()
    for bad in ('a', 2 ** 40, None):
        try:
            t[bad] = 1
            check(False, 'bad int key accepted')
        except (TypeError, OverflowError):
            pass
        check(not t and t.__getstate__() is None, 'touched')

    # (e) the constructor of an interior node fails while a grown child is
    #     split (BTree_grow / BTree_split_root fail after the insertion)
    for base in (OOBTree, OOTreeSet):
        T = small(base, 2, 2)
        for n in (3, 5, 9, 14, 20, 33):
            for init in (1, 2, 3):
                arm()
                t = T()
                ks = [K(i) for i in range(n + 1)]
                for k in ks[:n]:
                    perform(t, 'add' if is_set(t) else 'set', k, k.v)
                before = contents(t)
                arm(init=init)
                try:
                    perform(t, 'add' if is_set(t) else 'set', ks[n], n)
                    raised = False
                except Boom:
                    raised = True
                made = Ctl.inits
                arm()
                now = contents(t)
                if is_set(t):
                    after = before + [n]
                else:
                    after = before + [(n, n)]
                check(now == after or (raised and now == before),
                      'partial change', now)
                check(raised == (made >= init), 'constructor failure lost')
                problem = sound(t, 'split failure')
                check(problem is None, problem)
                check(walk(t) == now, 'leaf chain and tree differ')
                note('ctor', base.__name__, n, init, raised, now == after,
                     problem, dump(t))
                del t
    bump('other error exits')


# ---------------------------------------------------------------------------
# 4. persistence bookkeeping of successful calls (stand-in jar)


def same_record(a, b):
    """Are two pickle states of one node the same record?  Children and
    object keys / values are compared by identity."""
    if isinstance(a, tuple) and isinstance(b, tuple):
        return len(a) == len(b) and all(
            same_record(x, y) for x, y in zip(a, b))
    if type(a) in (int, float) and type(b) is type(a):
        return a == b
    return a is b


def persistence_effects():
    for base in (OOBTree, OOTreeSet, IIBTree):
        objkeys = base is not IIBTree
        T = small(base, 3, 2)
        rnd = random.Random(99)
        arm()
        t = T()
        jar = Jar()
        t._p_jar = jar
        t._p_oid = b'root'
        live = set()
        for step in range(400):
            i = rnd.randrange(40)
            k = K(i) if objkeys else i
            t._p_changed = False     # "commit"
            del jar.registered[:]
            del jar.current[:]
            state0 = t.__getstate__()
            if i in live and rnd.random() < 0.6:
                perform(t, 'remove' if is_set(t) else 'del', k, None)
                live.discard(i)
            else:
                perform(t, 'add' if is_set(t) else 'set', k, step)
                live.add(i)
            state1 = t.__getstate__()
            # any difference in the root's own record (which includes the
            # contents of the only leaf while there is just one) must have
            # been announced to the jar
            if not same_record(state0, state1):
                check(t._p_changed and jar.registered == [t],
                      'change of the root record not registered', step)
            check(jar.current == [t], 'readCurrent calls', jar.current)
            note('pers', base.__name__, step, bool(t._p_changed),
                 len(jar.registered))
            check(sorted(live) == [x.v if objkeys else x for x in t.keys()],
                  'contents')
        check(sound(t, 'pers') is None, 'unsound')
    bump('persistence runs')


def main():
    mk = {
        'K': K,
        'int': int,
        'V': V,
    }
    runs = (
        (OOBTree, 2, 2, 1, mk['K'], mk['V']),
        (OOBTree, 3, 4, 2, mk['K'], mk['V']),
        (OOBTree, 4, 2, 3, tuple_key, mk['V']),
        (OOTreeSet, 2, 2, 4, mk['K'], None),
        (OOTreeSet, 3, 2, 5, mk['K'], None),
        (OIBTree, 2, 3, 6, mk['K'], int),
        (OLBTree, 3, 2, 7, mk['K'], int),
        (IIBTree, 2, 2, 8, int, int),
        (IITreeSet, 2, 2, 9, int, None),
        (LOBTree, 3, 3, 10, int, mk['V']),
        (IFBTree, 2, 2, 11, int, float),
    )
    for base, leaf, internal, seed, mkkey, mkval in runs:
        differential(base, leaf, internal, seed, mkkey, mkval)

    for base, leaf, internal, n, seed, intv in (
            (OOBTree, 2, 2, 0, 0, False),
            (OOBTree, 2, 2, 1, 0, False),
            (OOBTree, 2, 2, 2, 0, False),
            (OOBTree, 2, 2, 3, 0, False),
            (OOBTree, 2, 2, 7, 0, False),
            (OOBTree, 2, 2, 12, 0, False),
            (OOBTree, 2, 2, 12, 5, False),
            (OOBTree, 3, 2, 11, 6, False),
            (OOBTree, 2, 3, 13, 7, False),
            (OOTreeSet, 2, 2, 9, 0, False),
            (OOTreeSet, 2, 2, 10, 8, False),
            (OIBTree, 2, 2, 9, 0, True),
            (OLBTree, 3, 3, 10, 9, True),
    ):
        fault_matrix(base, leaf, internal, n, seed, intv)

    other_error_exits()
    persistence_effects()

    for name in sorted(COUNTS):
        print('%-60s %d' % (name, COUNTS[name]))
    digest = FINGERPRINT.hexdigest()
    print('fingerprint', digest)
    if digest != EXPECTED_FINGERPRINT and not os.environ.get(
            'C14_DEMO_SKIP_FINGERPRINT'):
        # Every assertion above held, but some observation (a tree shape, a
        # comparison count, an error message, a persistence flag ...) is not
        # what the unmodified code produces.
        print('FAILED: fingerprint differs from the recorded one',
              EXPECTED_FINGERPRINT)
        sys.exit(1)
    print('OK')


if __name__ == '__main__':
    main()
