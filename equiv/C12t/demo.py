#!/usr/bin/env python
"""Differential demo for refactoring C12/t.

Exercises set_operation() / copyRemaining() of SetOpTemplate.c (the C
implementation) through every exported entry point that reaches them:
weightedUnion, weightedIntersection, union, intersection, difference.

Run as:  PYTHONPATH=<tree>/src python demo.py      (exit status 0 == OK)
"""
import gc
import importlib
import pickle
import random
import sys

SEED = 0xC12
NUMERIC = ['IF', 'II', 'IU', 'LF', 'LL', 'LQ', 'OI', 'OL', 'OQ', 'OU',
           'QF', 'QL', 'QQ', 'UF', 'UI', 'UU']
OBJECTVAL = ['IO', 'LO', 'OO', 'QO', 'UO']
KINDS = ['Bucket', 'BTree', 'Set', 'TreeSet']
SIZES = [0, 1, 2, 3, 7, 25, 70]

checks = 0


def ok(cond, *what):
    global checks
    checks += 1
    if not cond:
        print('FAILED:', *what)
        raise SystemExit(1)


# --------------------------------------------------------------------------
# families


class Family:
    def __init__(self, prefix):
        self.prefix = prefix
        self.kcode, self.vcode = prefix[0], prefix[1]
        self.mod = M = importlib.import_module('BTrees.%sBTree' % prefix)
        self.Bucket = getattr(M, prefix + 'Bucket')
        self.Set = getattr(M, prefix + 'Set')
        ok(self.Bucket is not getattr(M, prefix + 'BucketPy'),
           'C extension not in use for', prefix)
        B = getattr(M, prefix + 'BTree')
        TS = getattr(M, prefix + 'TreeSet')
        # small nodes, so that operands of modest size are multi-level trees
        self.trees = [
            type('Small' + prefix + 'BTree', (B,),
                 dict(max_leaf_size=ls, max_internal_size=is_))
            for ls, is_ in ((2, 2), (3, 2), (4, 3))
        ]
        self.treesets = [
            type('Small' + prefix + 'TreeSet', (TS,),
                 dict(max_leaf_size=ls, max_internal_size=is_))
            for ls, is_ in ((2, 2), (3, 2), (4, 3))
        ]
        self.BTree, self.TreeSet = B, TS

    def make(self, kind, data, rnd):
        if kind == 'Bucket':
            return self.Bucket(data)
        if kind == 'Set':
            return self.Set(data)
        if kind == 'BTree':
            return rnd.choice(self.trees + [self.BTree])(data)
        return rnd.choice(self.treesets + [self.TreeSet])(data)

    # -- random material -------------------------------------------------
    def key(self, rnd):
        c = self.kcode
        if c == 'I':
            return rnd.randint(-40, 40)
        if c == 'L':
            return rnd.choice([rnd.randint(-40, 40),
                               rnd.randint(-40, 40) + (1 << 40),
                               rnd.randint(-40, 40) - (1 << 40)])
        if c == 'U':
            return rnd.randint(0, 80)
        if c == 'Q':
            return rnd.choice([rnd.randint(0, 80),
                               rnd.randint(0, 40) + (1 << 40)])
        return rnd.randint(-40, 40)       # 'O': any ordered objects

    def value(self, rnd):
        c = self.vcode
        if c == 'I':
            return rnd.randint(-20, 20)
        if c == 'L':
            return rnd.choice([rnd.randint(-20, 20),
                               rnd.randint(-20, 20) * (1 << 33)])
        if c == 'U':
            return rnd.randint(0, 20)
        if c == 'Q':
            return rnd.choice([rnd.randint(0, 20),
                               rnd.randint(0, 20) * (1 << 33)])
        if c == 'F':
            return rnd.randint(-64, 64) / 4.0
        return ('v', rnd.randint(0, 5))   # 'O'

    def weight(self, rnd):
        c = self.vcode
        if c in 'IL':
            return rnd.choice([0, 1, 1, -1, rnd.randint(-9, 9)])
        if c in 'UQ':
            return rnd.choice([0, 1, 1, rnd.randint(0, 9)])
        return rnd.choice([0.0, 1.0, 1, -1.0, rnd.randint(-16, 16) / 4.0])

    def valtype(self):
        return float if self.vcode == 'F' else int

    def data(self, kind, n, rnd):
        keys = set()
        while len(keys) < n:
            keys.add(self.key(rnd))
        if kind in ('Bucket', 'BTree'):
            return {k: self.value(rnd) for k in keys}
        return keys


# --------------------------------------------------------------------------
# the model


def ismap(d):
    return isinstance(d, dict)


def val(d, k):
    return d[k] if ismap(d) else 1


def model_wunion(a, b, w1, w2):
    if not ismap(a) and not ismap(b):
        return 1, sorted(set(a) | set(b))
    out = {}
    for k in set(a) | set(b):
        if k in a and k in b:
            out[k] = val(a, k) * w1 + val(b, k) * w2
        elif k in a:
            out[k] = val(a, k) * w1
        else:
            out[k] = val(b, k) * w2
    return 1, sorted(out.items())


def model_wintersection(a, b, w1, w2):
    common = set(a) & set(b)
    if not ismap(a) and not ismap(b):
        return w1 + w2, sorted(common)
    return 1, sorted((k, val(a, k) * w1 + val(b, k) * w2) for k in common)


def check_result(fam, res, expected, is_mapping, what):
    rtype = fam.Bucket if is_mapping else fam.Set
    ok(type(res) is rtype, what, 'result type', type(res), rtype)
    got = list(res.items()) if is_mapping else list(res.keys())
    ok(got == expected, what, 'contents', got, expected)
    ok(len(res) == len(expected), what, 'len')
    if is_mapping and fam.vcode != 'O':
        vt = fam.valtype()
        ok(all(type(v) is vt for _, v in got), what, 'value types', got)
    # same state / same pickle as a container built the ordinary way
    ref = rtype(dict(expected)) if is_mapping else rtype(expected)
    ok(res.__getstate__() == ref.__getstate__(), what, 'state',
       res.__getstate__(), ref.__getstate__())
    ok(pickle.dumps(res, 2) == pickle.dumps(ref, 2), what, 'pickle')
    ok(res._p_changed is False or res._p_changed is None or
       res._p_changed is True, what)
    ok(res._p_jar is None and res._p_oid is None, what, 'persistence')
    # the result is an ordinary, growable container
    if expected:
        k0 = expected[0][0] if is_mapping else expected[0]
        ok(k0 in res, what, 'membership')


# --------------------------------------------------------------------------
# sections


def section_weighted(rnd):
    """All operand kind pairs x sizes x weights for all numeric families."""
    for prefix in NUMERIC:
        fam = Family(prefix)
        wu = fam.mod.weightedUnion
        wi = fam.mod.weightedIntersection
        vt = fam.valtype()
        for k1 in KINDS:
            for k2 in KINDS:
                for n1 in SIZES:
                    n2 = rnd.choice(SIZES)
                    d1 = fam.data(k1, n1, rnd)
                    d2 = fam.data(k2, n2, rnd)
                    if rnd.random() < 0.3 and d1:
                        # force a good overlap
                        for k in rnd.sample(sorted(d1), (len(d1) + 1) // 2):
                            if ismap(d2):
                                d2[k] = fam.value(rnd)
                            else:
                                d2.add(k)
                    o1 = fam.make(k1, d1, rnd)
                    o2 = fam.make(k2, d2, rnd)
                    s1 = o1.__getstate__()
                    s2 = o2.__getstate__()
                    w1, w2 = fam.weight(rnd), fam.weight(rnd)
                    what = (prefix, k1, n1, k2, len(d2), w1, w2)
                    mapping = ismap(d1) or ismap(d2)

                    w, r = wu(o1, o2, w1, w2)
                    ew, er = model_wunion(d1, d2, w1, w2)
                    ok(w == ew and type(w) is vt, what, 'wunion weight', w)
                    check_result(fam, r, er, mapping, what + ('wunion',))

                    w, r = wi(o1, o2, w1, w2)
                    ew, er = model_wintersection(d1, d2, w1, w2)
                    ok(w == ew and type(w) is vt, what, 'winter weight', w, ew)
                    check_result(fam, r, er, mapping, what + ('winter',))

                    # default weights
                    w, r = wu(o1, o2)
                    ew, er = model_wunion(d1, d2, 1, 1)
                    ok(w == ew, what)
                    check_result(fam, r, er, mapping, what + ('wunion11',))
                    w, r = wi(o1, o2, w1)
                    ew, er = model_wintersection(d1, d2, w1, 1)
                    ok(w == ew, what)
                    check_result(fam, r, er, mapping, what + ('winter_w1',))

                    # operands untouched
                    ok(o1.__getstate__() == s1 and o2.__getstate__() == s2,
                       what, 'operand modified')
                    ok(not o1._p_changed and not o2._p_changed, what)


def section_unweighted(rnd):
    """union / intersection / difference share set_operation()."""
    for prefix in NUMERIC + OBJECTVAL:
        fam = Family(prefix)
        M = fam.mod
        for k1 in KINDS:
            for k2 in KINDS + ['list', 'key']:
                if k2 == 'key' and fam.kcode == 'O':
                    continue
                for n1 in SIZES:
                    n2 = rnd.choice(SIZES)
                    d1 = fam.data(k1, n1, rnd)
                    o1 = fam.make(k1, d1, rnd)
                    if k2 == 'list':
                        d2 = fam.data('Set', n2, rnd)
                        if d1:
                            d2 |= set(rnd.sample(sorted(d1), len(d1) // 2))
                        o2 = list(d2) * 2
                        rnd.shuffle(o2)        # unsorted, with duplicates
                    elif k2 == 'key':
                        o2 = rnd.choice(sorted(d1)) if d1 and n2 % 2 \
                            else fam.key(rnd)
                        d2 = {o2}
                    else:
                        d2 = fam.data(k2, n2, rnd)
                        if d1:
                            for k in rnd.sample(sorted(d1), len(d1) // 2):
                                if ismap(d2):
                                    d2[k] = fam.value(rnd)
                                else:
                                    d2.add(k)
                        o2 = fam.make(k2, d2, rnd)
                    what = (prefix, k1, n1, k2, len(d2))
                    r = M.union(o1, o2)
                    check_result(fam, r, sorted(set(d1) | set(d2)), False,
                                 what + ('union',))
                    r = M.intersection(o1, o2)
                    check_result(fam, r, sorted(set(d1) & set(d2)), False,
                                 what + ('intersection',))
                    r = M.difference(o1, o2)
                    if ismap(d1):
                        e = sorted((k, v) for k, v in d1.items()
                                   if k not in d2)
                    else:
                        e = sorted(set(d1) - set(d2))
                    check_result(fam, r, e, ismap(d1), what + ('difference',))
                    if k2 not in ('list', 'key'):
                        r = M.difference(o2, o1)
                        if ismap(d2):
                            e = sorted((k, v) for k, v in d2.items()
                                       if k not in d1)
                        else:
                            e = sorted(set(d2) - set(d1))
                        check_result(fam, r, e, ismap(d2),
                                     what + ('rdifference',))
                    elif k2 == 'key':
                        # a lone key on the left
                        r = M.union(o2, o1)
                        check_result(fam, r, sorted(set(d1) | d2), False,
                                     what + ('runion',))
                        r = M.difference(o2, o1)
                        check_result(fam, r, sorted(d2 - set(d1)), False,
                                     what + ('rdifference',))
                        if fam.vcode != 'O':
                            w, r = M.weightedUnion(o1, o2, 2, 3)
                            ew, er = model_wunion(d1, d2, 2, 3)
                            ok(w == ew, what)
                            check_result(fam, r, er, ismap(d1),
                                         what + ('wunion key',))
                            w, r = M.weightedIntersection(o2, o1, 2, 3)
                            ew, er = model_wintersection(d2, d1, 2, 3)
                            ok(w == ew, what)
                            check_result(fam, r, er, ismap(d1),
                                         what + ('winter key',))


def section_fs():
    from BTrees import fsBTree as F
    keys = [bytes([65 + i, 66 + j]) for i in range(6) for j in range(6)]
    d1 = {k: (k * 3) for k in keys[::2]}
    d2 = {k: (k * 3)[::-1] for k in keys[::3]}
    for c1 in (F.fsBucket, F.fsBTree):
        for c2 in (F.fsBucket, F.fsBTree, F.fsSet, F.fsTreeSet):
            o1 = c1(d1)
            o2 = c2(d2) if c2 in (F.fsBucket, F.fsBTree) else c2(list(d2))
            ok(list(F.union(o1, o2)) == sorted(set(d1) | set(d2)), 'fs union')
            ok(list(F.intersection(o1, o2)) == sorted(set(d1) & set(d2)),
               'fs intersection')
            r = F.difference(o1, o2)
            ok(type(r) is F.fsBucket, 'fs difference type')
            ok(list(r.items()) == sorted((k, v) for k, v in d1.items()
                                         if k not in d2), 'fs difference')
            r = F.difference(o2, o1)
            ok(list(r.keys()) == sorted(set(d2) - set(d1)), 'fs rdifference')


def section_wraparound():
    """The extensions are built with -fno-strict-overflow: products and sums
    wrap.  (Unsigned arithmetic wraps by definition.)"""
    def wrap(x, bits, signed):
        x &= (1 << bits) - 1
        if signed and x >> (bits - 1):
            x -= 1 << bits
        return x
    for prefix, bits, signed in (('II', 32, True), ('LL', 64, True),
                                 ('UU', 32, False), ('QQ', 64, False),
                                 ('OI', 32, True), ('IU', 32, False)):
        fam = Family(prefix)
        big = (1 << (bits - 1)) - 1 if signed else (1 << bits) - 1
        a = fam.Bucket({1: big, 2: big - 5, 3: 7})
        b = fam.make('BTree', {2: big, 3: big, 4: big}, random.Random(1))
        for w1, w2 in ((2, 3), (1, 1), (big, big), (3, 0)):
            w, r = fam.mod.weightedUnion(a, b, w1, w2)
            e = [(1, wrap(big * w1, bits, signed)),
                 (2, wrap((big - 5) * w1 + big * w2, bits, signed)),
                 (3, wrap(7 * w1 + big * w2, bits, signed)),
                 (4, wrap(big * w2, bits, signed))]
            ok(w == 1 and list(r.items()) == e, prefix, 'wrap union', w1, w2,
               list(r.items()), e)
            w, r = fam.mod.weightedIntersection(b, a, w2, w1)
            ok(w == 1 and list(r.items()) == e[1:3], prefix, 'wrap inter')


# -- error paths ----------------------------------------------------------


class K:
    """Object key with controllable comparison failures."""
    countdown = None

    def __init__(self, n):
        self.n = n

    def _tick(self):
        if K.countdown is not None:
            K.countdown -= 1
            if K.countdown < 0:
                raise ValueError('comparison failed')

    def __lt__(self, other):
        self._tick()
        return self.n < other.n

    def __eq__(self, other):
        self._tick()
        return self.n == other.n

    def __hash__(self):
        return hash(self.n)

    def __repr__(self):
        return 'K(%d)' % self.n


def refcounts(objs, expected=None):
    got = [sys.getrefcount(o) for o in objs]
    if expected is not None and got != expected:
        gc.collect()          # give cyclic garbage a chance, then recount
        got = [sys.getrefcount(o) for o in objs]
    return got


def section_compare_errors(rnd):
    """A key comparison that fails at every possible step of the merge loop
    (object keys): the exception propagates and no reference is leaked."""
    for prefix in ('OI', 'OL', 'OU', 'OQ', 'OO'):
        fam = Family(prefix)
        M = fam.mod
        keys = [K(i) for i in range(14)]
        vals = [object() for i in range(14)]

        def v(i):
            return vals[i] if fam.vcode == 'O' else i + 1
        d1 = {keys[i]: v(i) for i in (0, 1, 3, 4, 6, 8, 9, 12)}
        d2 = {keys[i]: v(i) for i in (1, 2, 4, 5, 6, 7, 10, 11, 13)}
        for k1 in KINDS:
            for k2 in KINDS:
                o1 = fam.make(k1, d1 if k1 in ('Bucket', 'BTree') else set(d1),
                              rnd)
                o2 = fam.make(k2, d2 if k2 in ('Bucket', 'BTree') else set(d2),
                              rnd)
                gc.collect()
                base = refcounts(keys + vals + [o1, o2])
                ops = [('union', M.union, ()),
                       ('intersection', M.intersection, ()),
                       ('difference', M.difference, ())]
                if fam.vcode != 'O':
                    ops += [('wunion', M.weightedUnion, (2, 3)),
                            ('winter', M.weightedIntersection, (2, 3))]
                for name, op, extra in ops:
                    # how many comparisons does a clean run need?
                    K.countdown = 10 ** 6
                    good = op(o1, o2, *extra)
                    total = 10 ** 6 - K.countdown
                    K.countdown = None
                    good = good[1] if extra else good
                    # while the result is alive it owns one reference to
                    # each of its keys (and object values)
                    during = refcounts(keys + vals + [o1, o2])
                    held = [int(k in good) for k in keys]
                    ok(during[:14] == [b + h for b, h in zip(base, held)],
                       prefix, k1, k2, name, 'key refcounts')
                    if fam.vcode == 'O' and name == 'difference' and \
                            k1 in ('Bucket', 'BTree'):
                        ok(during[14:28] ==
                           [b + h for b, h in zip(base[14:], held)],
                           prefix, k1, k2, name, 'value refcounts')
                        ok(during[28:] == base[28:], 'operand refcounts')
                    else:
                        ok(during[14:] == base[14:], prefix, k1, k2, name,
                           'value/operand refcount')
                    del good
                    ok(refcounts(keys + vals + [o1, o2], base) == base,
                       prefix, k1, k2, name, 'refcount after success')
                    ok(total > 0, name, 'no comparisons?')
                    for n in range(total):
                        K.countdown = n
                        try:
                            op(o1, o2, *extra)
                        except ValueError as e:
                            ok(str(e) == 'comparison failed', 'message')
                        else:
                            ok(False, prefix, k1, k2, name, n, 'no exception')
                        finally:
                            K.countdown = None
                        ok(refcounts(keys + vals + [o1, o2], base) == base,
                           prefix, k1, k2, name, n, 'refcount after failure')


class Jar:
    """Tiny stand-in for a ZODB connection."""

    def __init__(self):
        self.states = {}
        self.fail_after = None
        self.loads = 0
        self.registered = []

    def setstate(self, obj):
        self.loads += 1
        if self.fail_after is not None:
            self.fail_after -= 1
            if self.fail_after < 0:
                raise RuntimeError('load failed')
        obj.__setstate__(self.states[obj._p_oid])

    def register(self, obj):
        self.registered.append(obj)

    def adopt(self, obj):
        obj._p_jar = self
        obj._p_oid = ('%08d' % len(self.states)).encode()
        self.states[obj._p_oid] = obj.__getstate__()


def buckets_of(tree):
    res = []
    b = tree._firstbucket
    while b is not None:
        res.append(b)
        b = b._next
    return res


def section_ghosts(rnd):
    """Ghost operands are activated through the jar, never registered as
    changed; a failing load at any point propagates cleanly."""
    for prefix in ('II', 'LF', 'OI', 'UQ' if False else 'QQ', 'IO'):
        fam = Family(prefix)
        M = fam.mod
        weighted = fam.vcode != 'O'
        for k1 in KINDS:
            for k2 in KINDS:
                d1 = fam.data(k1, 9, rnd)
                d2 = fam.data(k2, 7, rnd)
                for k in sorted(d1)[::2]:
                    if ismap(d2):
                        d2[k] = fam.value(rnd)
                    else:
                        d2.add(k)
                jar = Jar()
                o1 = fam.make(k1, d1, rnd)
                o2 = fam.make(k2, d2, rnd)
                persistent = []
                for o in (o1, o2):
                    if hasattr(o, '_firstbucket'):
                        bs = buckets_of(o)
                        if len(bs) > 1:
                            persistent.extend(bs)
                    persistent.append(o)
                for p in persistent:
                    jar.adopt(p)

                def ghostify():
                    for p in persistent:
                        p._p_deactivate()
                        ok(p._p_changed is None, 'not a ghost')
                if weighted:
                    ops = [(M.weightedUnion, (2, 3), model_wunion),
                           (M.weightedIntersection, (3, 2),
                            model_wintersection)]
                else:
                    ops = []
                for op, ws, model in ops:
                    ghostify()
                    jar.loads = 0
                    w, r = op(o1, o2, *ws)
                    ew, er = model(d1, d2, *ws)
                    ok(w == ew, prefix, k1, k2, 'ghost weight')
                    check_result(fam, r, er, ismap(d1) or ismap(d2),
                                 (prefix, k1, k2, 'ghost'))
                    total = jar.loads
                    ok(total >= 2, 'loads', total)
                    ok(jar.registered == [], 'registered')
                    ok(all(p._p_changed is False for p in persistent
                           if p._p_changed is not None), 'changed')
                    for n in range(total):
                        ghostify()
                        jar.fail_after = n
                        try:
                            op(o1, o2, *ws)
                        except RuntimeError as e:
                            ok(str(e) == 'load failed', 'message')
                        else:
                            ok(False, prefix, k1, k2, n, 'no exception')
                        finally:
                            jar.fail_after = None
                        ok(jar.registered == [], 'registered')
                # unweighted flavours
                for op, model in (
                        (M.union, lambda a, b: sorted(set(a) | set(b))),
                        (M.intersection, lambda a, b: sorted(set(a) & set(b))),
                ):
                    ghostify()
                    jar.loads = 0
                    r = op(o1, o2)
                    check_result(fam, r, model(d1, d2), False,
                                 (prefix, k1, k2, 'ghost', op.__name__))
                    total = jar.loads
                    for n in range(total):
                        ghostify()
                        jar.fail_after = n
                        try:
                            op(o1, o2)
                        except RuntimeError:
                            pass
                        else:
                            ok(False, prefix, k1, k2, n, 'no exception')
                        finally:
                            jar.fail_after = None
                ghostify()
                jar.loads = 0
                r = M.difference(o1, o2)
                if ismap(d1):
                    e = sorted((k, v) for k, v in d1.items() if k not in d2)
                else:
                    e = sorted(set(d1) - set(d2))
                check_result(fam, r, e, ismap(d1), (prefix, k1, k2, 'ghostdiff'))
                for n in range(jar.loads):
                    ghostify()
                    jar.fail_after = n
                    try:
                        M.difference(o1, o2)
                    except RuntimeError:
                        pass
                    else:
                        ok(False, prefix, k1, k2, n, 'no exception')
                    finally:
                        jar.fail_after = None
                ok(jar.registered == [], 'registered')


def raises(exc, msg, f, *args):
    try:
        f(*args)
    except exc as e:
        ok(msg is None or str(e) == msg, 'message', repr(str(e)), repr(msg))
    except BaseException as e:
        ok(False, 'wrong exception', repr(e), exc)
    else:
        ok(False, 'no exception', exc, msg, args)


def section_type_errors():
    NOITER = "set operation: invalid argument, cannot iterate"
    for prefix in NUMERIC:
        fam = Family(prefix)
        M = fam.mod
        rnd = random.Random(5)
        m = fam.make('BTree', fam.data('BTree', 8, rnd), rnd)
        s = fam.make('TreeSet', fam.data('Set', 8, rnd), rnd)
        for op in (M.weightedUnion, M.weightedIntersection):
            # values are wanted from both sides:  arbitrary iterables
            # can't supply them
            raises(TypeError, NOITER, op, m, [1, 2])
            raises(TypeError, NOITER, op, [1, 2], m)
            raises(TypeError, NOITER, op, s, (1, 2))
            raises(TypeError, NOITER, op, {1: 2}, s)
            raises(TypeError, NOITER, op, m, object())
            if fam.kcode == 'O':
                raises(TypeError, NOITER, op, m, 1)
            # a foreign family is not a "Bucket" etc. of this family
            other = importlib.import_module(
                'BTrees.%sBTree' % ('LL' if prefix != 'LL' else 'II'))
            raises(TypeError, None, op, m, getattr(other, other.__name__[7:9]
                                                   + 'BTree')({1: 1}))
        raises(TypeError, NOITER, M.difference, [1], s)
        raises(TypeError, NOITER, M.difference, [1], m)
    # elements that can't be converted to keys: the error shows up in next()
    from BTrees import IIBTree as I
    big = [1, 2, 1 << 40]
    s = I.IISet([0, 1, 5])
    for op in (I.union, I.intersection):
        raises(TypeError, None, op, s, big)
        raises(TypeError, None, op, big, s)
        raises(TypeError, None, op, s, ['a', 'b'])
        raises(TypeError, None, op, [1, 'a'], s)    # sort fails
        raises(TypeError, None, op, s, 3.5)
    raises(TypeError, None, I.difference, s, big)
    raises(TypeError, None, I.difference, I.IIBucket({1: 1, 9: 9}), [1 << 40])
    # ... also after some items have been copied already
    raises(TypeError, None, I.union, I.IISet(range(100)), [50, 1 << 40])
    raises(TypeError, None, I.difference, I.IIBucket({i: i for i in range(100)}),
           [50, 1 << 40])

    # iterator failing midway
    class Boom(Exception):
        pass

    def gen():
        yield 1
        yield 2
        raise Boom()
    raises(Boom, None, I.union, s, gen())


def main():
    rnd = random.Random(SEED)
    for _ in range(4):
        section_weighted(rnd)
    for _ in range(2):
        section_unweighted(rnd)
    section_fs()
    section_wraparound()
    section_compare_errors(rnd)
    section_ghosts(rnd)
    section_type_errors()
    print('OK: %d checks' % checks)
    return 0


if __name__ == '__main__':
    sys.exit(main())
