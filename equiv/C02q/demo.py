"""Equivalence demonstration for refactoring C02q (property C02: range
searches and lazy key/value/item sequences are exact).

Touched: BTreeItemsTemplate.c BTreeItems_slice (early return for the empty
slice, dead re-test of `length` removed) and BTreeItems_length_or_nonzero
(`while ((next = b->next))` loop turned into a `for` loop).  The demo
concentrates on len(), bool(), indexing and slicing of the C lazy
sequences: every index, extreme and nested slices, sequences spanning one
/ two / many leaves, ghost leaves, leaves that fail to load during len()
and bool(), and a sequence whose last leaf was unlinked after the fact.

Run as:  PYTHONPATH=<worktree>/src /venv/bin/python demo.py
Exits 0 when every check passes (with and without the refactoring).

Expectations are computed independently of the code under test:
* a reference model (a sorted Python list + bisect) for every range search,
  minKey/maxKey and for len / indexing / slicing of the lazy sequences;
* recorded constants (RECORDED below, taken at the unmodified HEAD ff4f7c2)
  for the exact sequence of load notifications, node states and outcomes
  of a fixed battery of operations run on fully ghosted trees, including
  runs in which one node fails to load.
"""
import bisect
import gc
import hashlib
import random
import sys

from BTrees import IIBTree
from BTrees import LFBTree
from BTrees import OOBTree

FAILS = []


def check(cond, *msg):
    if not cond:
        FAILS.append(msg)
        if len(FAILS) <= 25:
            print("FAIL:", *msg)


# ---------------------------------------------------------------------------
# Reference model: a sorted list of keys; None is an unbounded end.
# ---------------------------------------------------------------------------

def model_range(skeys, mn, mx, exmin, exmax):
    if mn is None:
        lo = 1 if exmin else 0
    else:
        lo = (bisect.bisect_right if exmin else bisect.bisect_left)(skeys, mn)
    if mx is None:
        hi = len(skeys) - (1 if exmax else 0)
    else:
        hi = (bisect.bisect_left if exmax else bisect.bisect_right)(skeys, mx)
    return skeys[lo:hi] if lo < hi else []


def model_minkey(skeys, b):
    if b is None:
        return skeys[0] if skeys else ValueError
    i = bisect.bisect_left(skeys, b)
    return skeys[i] if i < len(skeys) else ValueError


def model_maxkey(skeys, b):
    if b is None:
        return skeys[-1] if skeys else ValueError
    i = bisect.bisect_right(skeys, b)
    return skeys[i - 1] if i else ValueError


def outcome(f, *a, **k):
    try:
        return f(*a, **k)
    except Exception as e:  # noqa
        return type(e)


# ---------------------------------------------------------------------------
# Tree construction and introspection
# ---------------------------------------------------------------------------

def small(cls, leaf=3, internal=3):
    """Subclass with tiny nodes, so that deep trees are cheap."""
    return type(cls.__name__, (cls,),
                {'max_leaf_size': leaf, 'max_internal_size': internal})


def is_tree(node):
    return hasattr(node, '_firstbucket')


def is_mapping(node):
    return hasattr(node, 'values')


def children_and_separators(tree):
    state = tree.__getstate__()
    if state is None:
        return [], []
    data = state[0]
    return list(data[::2]), list(data[1::2])


def all_nodes(tree):
    """Root first, then every interior node and every leaf, depth first."""
    out = [tree]
    for child in children_and_separators(tree)[0]:
        if is_tree(child):
            out.extend(all_nodes(child))
        else:
            out.append(child)
    return out


def all_separators(tree):
    children, seps = children_and_separators(tree)
    for child in children:
        if is_tree(child):
            seps = seps + all_separators(child)
    return seps


def leaves(tree):
    out = []
    b = tree._firstbucket
    while b is not None:
        out.append(b)
        b = b._next
    return out


def put(t, k, v):
    if is_mapping(t):
        t[k] = v
    else:
        t.add(k)


def build(cls, ins, dels, conv=lambda k: k, seed=7):
    t = cls()
    order = list(ins)
    random.Random(seed).shuffle(order)
    for k in order:
        put(t, conv(k), k * 3)
    for k in dels:
        if is_mapping(t):
            del t[conv(k)]
        else:
            t.remove(conv(k))
    live = sorted(set(ins) - set(dels))
    return t, live


def histories():
    rng = random.Random(4242)
    ks = list(range(0, 120, 2))
    shuffled = ks[:]
    rng.shuffle(shuffled)
    return [
        ('empty', [], []),
        ('one', [10], []),
        ('two', [10, 20], []),
        ('dense', list(range(0, 80, 2)), []),
        ('thin-front', ks, [k for k in ks if k % 12 in (0, 2)]),
        ('thin-back', ks, [k for k in ks if k % 12 in (8, 10)]),
        ('thin-random', ks, shuffled[:45]),
        ('almost-empty', ks, shuffled[:58]),
        ('single-child-root', ks, [k for k in ks if k < 100]),
        ('emptied', ks, ks),
    ]


def bounds_for(live, dels):
    raw = [None, -5, 131]
    mid = len(live) // 2
    for k in live[:2] + live[-2:] + live[mid:mid + 2]:
        raw += [k - 1, k, k + 1]
    raw += list(dels[:3])
    seen = set()
    out = []
    for b in raw:
        if b not in seen:
            seen.add(b)
            out.append(b)
    return out


# ---------------------------------------------------------------------------
# Model checks
# ---------------------------------------------------------------------------

def check_minmax(t, skeys, bounds, where, py_tree_minkey_gaps=True):
    for kb in bounds:
        for name, model in (('minKey', model_minkey), ('maxKey', model_maxkey)):
            exp = model(skeys, kb)
            if (name == 'minKey' and not py_tree_minkey_gaps
                    and kb is not None and kb not in skeys):
                # The pure-Python tree minKey(b) is only checked for bounds
                # that are present keys (see notes.md).
                continue
            meth = getattr(t, name)
            got = outcome(meth, kb)
            check(got == exp, where, name, kb, got, exp)
            if kb is None:
                got = outcome(meth)
                check(got == exp, where, name + '()', got, exp)


def check_sequence(seq, want, where, every_index=True):
    """A lazy sequence agrees with the list `want`."""
    n = len(want)
    check(len(seq) == n, where, 'len', len(seq), n)
    check(bool(seq) == bool(want), where, 'bool')
    idx = range(-n - 2, n + 2) if every_index else (
        0, n - 1, n, -1, -n, -n - 1, n // 2)
    for i in idx:
        exp = outcome(want.__getitem__, i)
        got = outcome(seq.__getitem__, i)
        check(got == exp, where, 'index', i, got, exp)
    ends = (None, 0, 1, n // 2, n - 1, n, n + 3, -1, -2, -n, -n - 2)
    for i in ends:
        for j in ends:
            got = seq[i:j]
            check(list(got) == want[i:j], where, 'slice', i, j)
            check(len(got) == len(want[i:j]), where, 'slice-len', i, j)
    # backward, then forward again (the search finger moves both ways)
    for i in list(range(n - 1, -1, -1)) + list(range(n)):
        check(seq[i] == want[i], where, 'walk', i)
    # a slice of a slice
    if n > 3:
        sub = seq[1:n - 1]
        check(list(sub[1:-1]) == want[2:n - 2], where, 'slice-of-slice')
        check(sub[-1] == want[n - 2], where, 'slice-neg-index')
        check(outcome(sub.__getitem__, n - 2) is IndexError, where,
              'slice-oob')


# How many of the ranges get the full lazy-sequence treatment.
STRIDE = {'all': 1, 'third': 3, 'some': 7}


def check_ranges(t, skeys, vals, bounds, where, sequences='some'):
    mapping = is_mapping(t)
    tree = is_tree(t)
    count = 0
    for mn in bounds:
        for mx in bounds:
            for exmin in (0, 1):
                for exmax in (0, 1):
                    count += 1
                    args = (mn, mx, exmin, exmax)
                    w = where + (args,)
                    want = model_range(skeys, mn, mx, exmin, exmax)
                    got = t.keys(*args)
                    check(list(got) == want, w, 'keys', list(got), want)
                    kw = {}
                    if mn is not None:
                        kw['min'] = mn
                    if mx is not None:
                        kw['max'] = mx
                    if exmin:
                        kw['excludemin'] = True
                    if exmax:
                        kw['excludemax'] = True
                    check(list(t.keys(**kw)) == want, w, 'keys-kw')
                    if hasattr(t, 'iterkeys'):
                        check(list(t.iterkeys(*args)) == want, w, 'iterkeys')
                        check(list(t.iterkeys(**kw)) == want, w, 'iterkeys-kw')
                    wi = None
                    if mapping:
                        wv = [vals[k] for k in want]
                        wi = list(zip(want, wv))
                        check(list(t.values(*args)) == wv, w, 'values')
                        check(list(t.itervalues(*args)) == wv, w,
                              'itervalues')
                        check(list(t.items(*args)) == wi, w, 'items')
                        check(list(t.iteritems(*args)) == wi, w, 'iteritems')
                    if tree and (sequences == 'all' or
                                 count % STRIDE[sequences] == 0
                                 or (mn is None and mx is None)):
                        check_sequence(got, want, w + ('keys-seq',),
                                       every_index=(sequences != 'some'))
                        if mapping:
                            check_sequence(t.items(*args), wi,
                                           w + ('items-seq',),
                                           every_index=False)
                            check_sequence(t.values(**kw), wv,
                                           w + ('values-seq',),
                                           every_index=False)


def model_battery(classes, conv=lambda k: k, sequences='some',
                  small_only=False):
    for cls in classes:
        py = cls.__name__.endswith('Py')
        variants = [small(cls)] if is_tree(cls()) else [cls]
        if is_tree(cls()) and not small_only:
            variants.append(cls)
        for variant in variants:
            for hname, ins, dels in histories():
                t, live = build(variant, ins, dels, conv)
                skeys = [conv(k) for k in live]
                vals = {conv(k): k * 3 for k in live}
                bounds = [None if b is None else conv(b)
                          for b in bounds_for(live, dels)]
                where = (cls.__name__,
                         'small' if variant is not cls else 'default', hname)
                check_ranges(t, skeys, vals, bounds, where, sequences)
                if py and not is_tree(t) and not skeys:
                    # minKey()/maxKey() of an empty pure-Python bucket is not
                    # part of what is checked here (see notes.md)
                    bounds = [b for b in bounds if b is not None]
                check_minmax(t, skeys, bounds, where,
                             py_tree_minkey_gaps=not (py and is_tree(t)))
                if hasattr(t, '_check'):
                    t._check()


# ---------------------------------------------------------------------------
# Persistence: ghosts, load notifications, load failures, reference counts
# ---------------------------------------------------------------------------

class LoadFailed(Exception):
    pass


class Jar:
    """Just enough of a ZODB connection to ghostify and reload nodes."""

    def __init__(self):
        self.states = {}
        self.fail = set()
        self.loads = []

    def register(self, obj):
        self.loads.append(('changed', obj._p_oid))

    def readCurrent(self, obj):
        pass

    def setstate(self, obj):
        self.loads.append(obj._p_oid)
        if obj._p_oid in self.fail:
            raise LoadFailed(obj._p_oid)
        obj.__setstate__(self.states[obj._p_oid])


def adopt(tree):
    """Give every node but the root an oid and a jar; return (jar, nodes)."""
    jar = Jar()
    nodes = all_nodes(tree)
    for n, node in enumerate(nodes):
        if n == 0:
            continue
        jar.states[n] = node.__getstate__()
        node._p_jar = jar
        node._p_oid = n
    return jar, nodes


def ghostify(nodes):
    for node in nodes[1:]:
        node._p_deactivate()
        assert node._p_state == -1, node._p_state


def stale_tree(cls, conv=lambda k: k):
    """A deep tree whose every separator key has been deleted."""
    t, live = build(small(cls), range(0, 160, 2), [], conv)
    seps = sorted(all_separators(t))
    for k in seps:
        if is_mapping(t):
            del t[k]
        else:
            t.remove(k)
    skeys = [conv(k) for k in live if conv(k) not in set(seps)]
    return t, skeys, seps


def operations(t, skeys, seps):
    """(label, callable, expected) triples probing every kind of bound."""
    ops = []
    mapping = is_mapping(t)
    probes = list(seps[::3]) + [skeys[0], skeys[-1], skeys[len(skeys) // 2]]
    lo, hi = skeys[0], skeys[-1]
    below = lo - 1 if isinstance(lo, int) else None
    above = hi + 1 if isinstance(hi, int) else None
    if below is not None:
        probes += [below, above]
    for b in probes:
        ops.append((('minKey', b), lambda b=b: t.minKey(b),
                    model_minkey(skeys, b)))
        ops.append((('maxKey', b), lambda b=b: t.maxKey(b),
                    model_maxkey(skeys, b)))
        for exmin, exmax in ((0, 0), (1, 1)):
            ops.append((('keys-from', b, exmin),
                        lambda b=b, e=exmin: list(t.keys(b, None, e)),
                        model_range(skeys, b, None, exmin, 0)))
            ops.append((('keys-upto', b, exmax),
                        lambda b=b, e=exmax: list(t.keys(None, b, 0, e)),
                        model_range(skeys, None, b, 0, exmax)))
    for a, b in zip(probes, probes[2:]):
        for exmin, exmax in ((0, 0), (1, 0), (0, 1), (1, 1)):
            want = model_range(skeys, a, b, exmin, exmax)
            ops.append((('keys', a, b, exmin, exmax),
                        lambda a=a, b=b, x=exmin, y=exmax:
                        list(t.keys(a, b, x, y)), want))
            if mapping:
                ops.append((('items', a, b, exmin, exmax),
                            lambda a=a, b=b, x=exmin, y=exmax:
                            [k for k, _ in t.items(a, b, x, y)], want))
    n = len(skeys)
    ops.append((('minKey',), lambda: t.minKey(), skeys[0]))
    ops.append((('maxKey',), lambda: t.maxKey(), skeys[-1]))
    ops.append((('len-keys',), lambda: len(t.keys()), n))
    ops.append((('bool-keys',), lambda: bool(t.keys(skeys[-1], None, True)),
                False))
    ops.append((('bool-keys', 2), lambda: bool(t.keys(skeys[4])), True))
    ops.append((('len-keys', 2), lambda: len(t.keys(skeys[4], skeys[-4])),
                n - 7))
    ops.append((('keys[-1]',), lambda: t.keys()[-1], skeys[-1]))
    ops.append((('keys[n//2]',), lambda: t.keys()[n // 2], skeys[n // 2]))
    ops.append((('keys[3:-3]',), lambda: list(t.keys()[3:-3]), skeys[3:-3]))
    ops.append((('keys(x,x)[1:-1]',),
                lambda: list(t.keys(None, None, 1, 1)[1:-1]), skeys[2:-2]))
    ops.append((('keys[n]',), lambda: t.keys()[n], IndexError))
    ops.append((('backwards',),
                lambda: [t.keys()[i] for i in range(-1, -n - 1, -1)],
                skeys[::-1]))

    def finger():
        seq = t.keys(skeys[2], skeys[-3])
        return [seq[i] for i in (0, 5, 2, -1, 1, len(seq) - 2, 0)]
    sub = skeys[2:-2]
    ops.append((('finger',), finger,
                [sub[i] for i in (0, 5, 2, -1, 1, len(sub) - 2, 0)]))
    if mapping:
        ops.append((('values[-2]',), lambda: t.values()[-2], None))
        ops.append((('items[1:3]',), lambda: [k for k, _ in t.items()[1:3]],
                    skeys[1:3]))
    return ops


# Operations that are also run with a node that fails to load.  Indexing and
# slicing a lazy sequence are not among them (see notes.md).
FAILSAFE_OPS = ('minKey', 'maxKey', 'keys-from', 'keys-upto', 'keys', 'items',
                'len-keys', 'bool-keys')


def persistence_trace(cls, skip=()):
    """Run every operation on a fully ghosted tree; then again with each node
    in turn failing to load.  Returns the trace of (operation, outcome, load
    notifications, node states afterwards) and checks outcomes against the
    model, that nothing is left sticky and that no reference is leaked."""
    t, skeys, seps = stale_tree(cls)
    jar, nodes = adopt(t)
    trace = []
    ops = [op for op in operations(t, skeys, seps) if op[0][0] not in skip]
    name = cls.__name__
    py = name.endswith('Py')

    def run(label, fn, want, failing):
        ghostify(nodes)
        del jar.loads[:]
        jar.fail = set(failing)
        before = [sys.getrefcount(node) for node in nodes]
        got = outcome(fn)
        states = [node._p_state for node in nodes]
        loads = list(jar.loads)
        if py:
            gc.collect()    # _TreeItems objects are reference cycles
        ghostify(nodes)     # reference counts are compared ghost to ghost
        after = [sys.getrefcount(node) for node in nodes]
        check(before == after, name, label, failing, 'refcounts changed',
              [(i, b, a) for i, (b, a) in enumerate(zip(before, after))
               if a != b])
        check(set(states) <= {-1, 0}, name, label, failing,
              'node left sticky or changed', states)
        check(all(states[n] == -1 for n in failing), name, label, failing,
              'failed node not a ghost')
        if got is LoadFailed:
            check(failing and loads and loads[-1] in failing, name, label,
                  failing, 'LoadFailed out of the blue', loads)
        else:
            check(not (set(loads) & set(failing)), name, label, failing,
                  'load failure swallowed', loads, got)
            if py and label[0] == 'minKey' and label[1:] and \
                    label[1] not in skeys:
                # pure-Python tree minKey(b) is only checked against the
                # model for bounds that are present keys (see notes.md)
                want = None
            if want is not None:
                check(got == want, name, label, failing, got, want)
        trace.append((label,
                      got.__name__ if isinstance(got, type) else repr(got),
                      loads, states))

    gc.collect()
    gc.freeze()     # keeps the gc.collect() calls in run() cheap
    for label, fn, want in ops:
        run(label, fn, want, ())
    # Each node in turn fails to load (a subset of the operations).  Interior
    # nodes on the rightmost spine are left alone:  BTree_lastBucket() failing
    # is outside what these demos can observe safely (see notes.md).
    spine = set()
    node = t
    while is_tree(node):
        spine.add(id(node))
        node = children_and_separators(node)[0][-1]
    for n in range(1, len(nodes)):
        if id(nodes[n]) in spine:
            continue
        safe = [op for op in ops if op[0][0] in FAILSAFE_OPS]
        for label, fn, want in safe[n % 3::3]:
            run(label, fn, want, (n,))
    jar.fail = set()
    gc.unfreeze()
    return trace


def digest(trace):
    return hashlib.sha256(repr(trace).encode('ascii')).hexdigest()[:16]


# ---------------------------------------------------------------------------
# Error paths that do not need persistence
# ---------------------------------------------------------------------------

class Grumpy:
    """A key that refuses to be compared with anything but itself."""

    def __init__(self, v):
        self.v = v

    def _v(self, other):
        if not isinstance(other, Grumpy):
            raise ArithmeticError('no')
        return other.v

    def __lt__(self, other):
        return self.v < self._v(other)

    def __le__(self, other):
        return self.v <= self._v(other)

    def __gt__(self, other):
        return self.v > self._v(other)

    def __ge__(self, other):
        return self.v >= self._v(other)

    def __eq__(self, other):
        return self.v == self._v(other)

    def __hash__(self):
        return hash(self.v)


def error_paths(implementations=('', 'Py')):
    for suffix in implementations:
        for kind in ('BTree', 'TreeSet', 'Bucket', 'Set'):
            cls = getattr(IIBTree, 'II' + kind + suffix)
            cls = small(cls) if is_tree(cls()) else cls
            t, live = build(cls, range(0, 40, 2), [4, 6])
            where = (cls.__name__, suffix, 'errors')
            for bad in ('x', 2.5, 2 ** 40, ()):
                exp = TypeError
                for label, fn in (
                        ('minKey', lambda: t.minKey(bad)),
                        ('maxKey', lambda: t.maxKey(bad)),
                        ('keys-min', lambda: list(t.keys(bad))),
                        ('keys-max', lambda: list(t.keys(None, bad))),
                        ('keys-max2', lambda: list(t.keys(3, bad))),
                        ('keys-kw', lambda: list(t.keys(max=bad, min=1)))):
                    got = outcome(fn)
                    check(got is exp, where, label, bad, got, exp)
            check(outcome(lambda: t.keys(1, 2, 3, 4, 5, 6)) is TypeError, where,
                  'too many arguments')
            check(outcome(lambda: t.keys(bogus=1)) is TypeError, where,
                  'bogus keyword')
            check(outcome(lambda: t.minKey(1, 2)) is TypeError, where,
                  'minKey arity')
            if is_tree(t):
                seq = t.keys(3, 30)
                got = outcome(lambda: seq[::2])
                check(got == list(seq)[::2] if suffix else
                      got is RuntimeError, where, 'step slice', got)
                check(outcome(lambda: seq['a']) is
                      (TypeError if suffix else RuntimeError), where,
                      'str index')
            # Comparison errors raised by the keys themselves propagate.
            ocls = getattr(OOBTree, 'OO' + kind + suffix)
            ocls = small(ocls) if is_tree(ocls()) else ocls
            ot = ocls()
            for v in range(12):
                put(ot, Grumpy(v), v)
            where = (ocls.__name__, suffix, 'grumpy')
            for label, fn in (
                    ('minKey', lambda: ot.minKey(5)),
                    ('maxKey', lambda: ot.maxKey(5)),
                    ('keys-min', lambda: list(ot.keys(5))),
                    ('keys-max', lambda: list(ot.keys(None, 5))),
                    ('keys-both', lambda: list(ot.keys(Grumpy(2), 5)))):
                check(outcome(fn) is ArithmeticError, where, label,
                      outcome(fn))
            got = [k.v for k in ot.keys(Grumpy(3), Grumpy(7), True)]
            check(got == [4, 5, 6, 7], where, 'grumpy range', got)
            check(ot.minKey(Grumpy(-1)).v == 0, where, 'grumpy minKey')
            check(ot.maxKey(Grumpy(99)).v == 11, where, 'grumpy maxKey')


def mutation_while_iterating():
    """The C lazy sequence notices a leaf that shrank under it."""
    cls = small(OOBTree.OOBTree)
    t, live = build(cls, range(0, 40, 2), [])
    seq = t.keys()
    check(seq[len(live) - 1] == live[-1], 'mutation', 'last')
    last = leaves(t)[-1]
    n_last = len(last)
    for k in list(last.keys())[1:]:
        del t[k]
    if n_last > 1:
        check(outcome(lambda: seq[len(live) - 1]) is RuntimeError,
              'mutation', 'shrunk leaf', outcome(lambda: seq[len(live) - 1]))

# ---------------------------------------------------------------------------
# Targeted scenarios
# ---------------------------------------------------------------------------

def exhaustive_stale(cls):
    """Every integer bound on a deep tree all of whose separators are stale:
    low searches that run off the right end of a leaf, high searches that
    land in a leaf holding nothing small enough (left neighbour reached
    through a bucket or through a whole subtree)."""
    t, skeys, seps = stale_tree(cls)
    name = cls.__name__
    py = name.endswith('Py')
    root_children, root_seps = children_and_separators(t)
    check(is_tree(root_children[0]) and
          is_tree(children_and_separators(root_children[0])[0][0]),
          name, 'stale tree is not deep enough')
    check(all(k not in skeys for k in seps) and root_seps, name, 'not stale')
    jar, nodes = adopt(t)
    for b in range(-2, 163):
        if b % 5 == 0:
            ghostify(nodes)
        where = (name, 'stale', b)
        if not py or b in skeys:
            check(outcome(t.minKey, b) == model_minkey(skeys, b), where,
                  'minKey', outcome(t.minKey, b), model_minkey(skeys, b))
        check(outcome(t.maxKey, b) == model_maxkey(skeys, b), where, 'maxKey',
              outcome(t.maxKey, b), model_maxkey(skeys, b))
        for other in (None, b, b + 1, b + 2, b + 9, b - 1, -7, 500):
            for exmin in (0, 1):
                for exmax in (0, 1):
                    want = model_range(skeys, b, other, exmin, exmax)
                    got = t.keys(b, other, exmin, exmax)
                    check(list(got) == want, where, 'keys', other, exmin,
                          exmax, list(got), want)
                    check(len(got) == len(want), where, 'len', other)
                    if want:
                        check(got[0] == want[0] and got[-1] == want[-1],
                              where, 'ends', other)
                    want = model_range(skeys, other, b, exmin, exmax)
                    got = list(t.keys(other, b, exmin, exmax))
                    check(got == want, where, 'keys-rev', other, exmin,
                          exmax, got, want)
    # only the left neighbours of the landing leaf were ever needed
    check(set(n._p_state for n in nodes) <= {-1, 0}, name, 'stale states')


def sequence_edge_cases(cls):
    """len / index / slice corner cases of the lazy sequences."""
    big = sys.maxsize
    name = cls.__name__
    py = name.endswith('Py')
    for hname, ins, dels in histories():
        t, live = build(small(cls), ins, dels)
        n = len(live)
        where = (name, 'edges', hname)
        seq = t.keys()
        for i, j in ((-big, big), (-big - 1, big), (0, big), (big, big),
                     (-big, -big), (big, -big), (n, n), (n, 0), (1, 1),
                     (n - 1, n), (-1, None), (None, -n), (None, None)):
            sub = seq[i:j]
            check(list(sub) == live[i:j], where, 'slice', i, j)
            check(len(sub) == len(live[i:j]), where, 'slice-len', i, j)
            check(bool(sub) == bool(live[i:j]), where, 'slice-bool', i, j)
            check(outcome(lambda: sub[0]) ==
                  outcome(lambda: live[i:j][0]), where, 'slice[0]', i, j)
            check(outcome(lambda: sub[-1]) ==
                  outcome(lambda: live[i:j][-1]), where, 'slice[-1]', i, j)
            check(list(sub[0:0]) == [] and len(sub[5:2]) == 0, where,
                  'empty-of-slice', i, j)
        for i in (big, -big, -big - 1, n, -n - 1):
            check(outcome(lambda: seq[i]) is IndexError, where, 'oob', i,
                  outcome(lambda: seq[i]))
        if not py:
            check(outcome(lambda: seq[big + 1]) is IndexError, where,
                  'overflowing index', outcome(lambda: seq[big + 1]))
        # slices nest; each level is inclusive-exclusive like a list
        sub, want = seq, live
        while len(want) > 2:
            sub, want = sub[1:-1], want[1:-1]
            check(list(sub) == want and len(sub) == len(want), where,
                  'nested', len(want))
            check(sub[0] == want[0] and sub[-1] == want[-1], where,
                  'nested-ends', len(want))
        if is_mapping(t):
            items = t.items()
            vals = t.values()
            check(list(items[1:-1]) == [(k, k * 3) for k in live[1:-1]],
                  where, 'items-slice')
            check(list(vals[2:]) == [k * 3 for k in live[2:]], where,
                  'values-slice')
            check(type(items[0:0]) is type(items) or py, where, 'slice type')


def length_after_unlinking():
    """len() of a C lazy sequence whose last leaf was since unlinked from the
    chain:  the count runs to the end of the chain (recorded behaviour)."""
    t, live = build(small(OOBTree.OOBTree), range(0, 60, 2), [])
    chain = leaves(t)
    sizes = [len(b) for b in chain]
    first, last = chain[1], chain[4]
    lo, hi = first.minKey(), last.maxKey()
    seq = t.keys(lo, hi)
    want = sum(sizes[1:5])
    check(len(seq) == want == len(list(seq)), 'unlink', 'before', len(seq))
    for k in list(last.keys()):
        del t[k]
    after = leaves(t)
    check(last not in after and len(after) == len(chain) - 1, 'unlink',
          'leaf still linked')
    # r = last + 1 - first, plus every leaf from the first one on that has a
    # successor (the unlinked last leaf is never met, and the final leaf of
    # the chain ends the loop before it is counted)
    expect = (sizes[4] - 1) + 1 - 0 + sum(len(b) for b in after[1:-1])
    check(len(seq) == expect, 'unlink', 'after', len(seq), expect)
    check(bool(seq) is True, 'unlink', 'bool')

def bucket_persistence(cls):
    """Range searches on a stand-alone ghost bucket / set:  loaded exactly
    once per call, never left sticky, load failures propagate."""
    name = cls.__name__
    b = cls()
    keys = list(range(0, 40, 4))
    for k in keys:
        put(b, k, k * 3)
    jar = Jar()
    jar.states[1] = b.__getstate__()
    b._p_jar = jar
    b._p_oid = 1
    calls = []
    for mn in (None, -1, 0, 5, 8, 36, 37):
        calls.append((('minKey', mn), lambda mn=mn: b.minKey(mn),
                      model_minkey(keys, mn)))
        calls.append((('maxKey', mn), lambda mn=mn: b.maxKey(mn),
                      model_maxkey(keys, mn)))
        for mx in (None, -1, 0, 6, 8, 36, 99):
            for exmin in (0, 1):
                for exmax in (0, 1):
                    want = model_range(keys, mn, mx, exmin, exmax)
                    args = (mn, mx, exmin, exmax)
                    calls.append((('keys',) + args,
                                  lambda a=args: list(b.keys(*a)), want))
                    if is_mapping(b):
                        calls.append((('values',) + args,
                                      lambda a=args: list(b.values(*a)),
                                      [k * 3 for k in want]))
                        calls.append((('items',) + args,
                                      lambda a=args: list(b.items(*a)),
                                      [(k, k * 3) for k in want]))
    for failing in (False, True):
        jar.fail = {1} if failing else set()
        for label, fn, want in calls:
            b._p_deactivate()
            check(b._p_state == -1, name, label, 'not a ghost')
            del jar.loads[:]
            before = sys.getrefcount(b)
            got = outcome(fn)
            check(jar.loads == [1], name, label, 'loads', jar.loads)
            check(sys.getrefcount(b) == before, name, label, 'refcount')
            if failing:
                check(got is LoadFailed, name, label, 'failing', got)
                check(b._p_state == -1, name, label, 'state after failure')
            else:
                check(got == want, name, label, got, want)
                check(b._p_state == 0, name, label, 'state', b._p_state)
    jar.fail = set()
    # wrong key type / bad arguments leave the bucket unstuck too
    bad = [lambda: b.minKey(Grumpy(1)), lambda: b.keys(1, 2, 3, 4, 5, 6),
           lambda: b.keys(max=Grumpy(2))]
    if not name.endswith('Py'):
        # the C implementation wants integer flags
        bad.append(lambda: b.keys(excludemin='x'))
    for fn in bad:
        b._p_deactivate()
        got = outcome(fn)
        check(isinstance(got, type) and issubclass(got, Exception), name,
              'bad call', got)
        check(b._p_state in (-1, 0), name, 'bad call state', b._p_state)


def finish(name):
    print('%s: %d check failures' % (name, len(FAILS)))
    sys.exit(1 if FAILS else 0)


# Digests of persistence_trace() recorded at the unmodified HEAD.
RECORDED = {
    "IIBTree": "90724bed63d86dfd",
    "IITreeSet": "b415fbee7296d8a5",
    "IITreeSetPy": "b03d351bcede713e",
    "LFBTree": "3e20f40686eb2024",
    "OOBTree": "90724bed63d86dfd",
    "OOBTreePy": "6cd5c976b920fe01",
    "OOTreeSet": "b415fbee7296d8a5"
}

if __name__ == '__main__':
    C_TREES = [OOBTree.OOBTree, OOBTree.OOTreeSet, IIBTree.IIBTree,
               IIBTree.IITreeSet, LFBTree.LFBTree]
    for cls in C_TREES + [OOBTree.OOBTreePy]:
        sequence_edge_cases(cls)
    length_after_unlinking()
    mutation_while_iterating()
    error_paths(('',))
    for cls in C_TREES:
        got = digest(persistence_trace(cls))
        check(got == RECORDED[cls.__name__], 'trace digest', cls.__name__, got)
    model_battery([OOBTree.OOBTree, IIBTree.IITreeSet], sequences='all',
                  small_only=True)
    model_battery([OOBTree.OOTreeSet, IIBTree.IIBTree, LFBTree.LFBTree])
    finish('C02q')
