"""Differential demo for refactoring u (C BTreeItems_length_or_nonzero,
BTreeIter_next, PreviousBucket).

Run as:  PYTHONPATH=<tree>/src /venv/bin/python demo.py

Next to every real iterator (iter(tree), tree.iterkeys/itervalues/iteritems
with all range arguments, the same for single leaves) and every real lazy
sequence (keys()/values()/items() and slices of them) this program keeps a
plain-Python model that works on the very same leaf objects (reached through
tree._firstbucket / bucket._next) and predicts the exact outcome of each
next(it), len(seq), bool(seq), seq[i] and seq[i:j]:  the entry, the end of
the iteration, IndexError(i), RuntimeError("the bucket being iterated
changed size") or the exception of the storage stand-in when a ghost leaf
cannot be loaded - and also which ghost leaves get loaded, in which order.
Steps are interleaved with inserts, deletes, pops, emptying of the leaf a
cursor is parked on, clear(), and with turning leaves into ghosts.  Trees are
checked with _check() and compared with a dict all along.

Exits 0 when every outcome was as predicted.
"""
import random
import sys

import BTrees
from BTrees import OOBTree as OO_, IOBTree as IO_, IIBTree as II_
from BTrees import LFBTree as LF_, OLBTree as OL_, UUBTree as UU_
from BTrees import QOBTree as QO_, LLBTree as LL_

CHANGED_SIZE = "the bucket being iterated changed size"


class Boom(Exception):
    pass


class Jar:
    """Tiny stand-in for a ZODB connection: keeps states in a dict."""

    def __init__(self):
        self.states = {}
        self.fail = set()
        self.trace = []         # oids setstate() was called for, in order
        self.next_oid = 0

    def new_oid(self):
        self.next_oid += 1
        return b'%08d' % self.next_oid

    def setstate(self, obj):
        self.trace.append(obj._p_oid)
        if obj._p_oid in self.fail:
            raise Boom(obj._p_oid)
        obj.__setstate__(self.states[obj._p_oid])

    def register(self, obj):
        pass

    def readCurrent(self, obj):
        pass


def small(cls):
    return type(cls.__name__ + 'Small', (cls,),
                {'max_leaf_size': 4, 'max_internal_size': 3})


class Family:
    def __init__(self, mod, prefix, valkind, unsigned=False):
        self.mod = mod
        self.prefix = prefix
        self.BTree = small(getattr(mod, prefix + 'BTree'))
        self.TreeSet = small(getattr(mod, prefix + 'TreeSet'))
        self.valkind = valkind
        self.unsigned = unsigned

    def key(self, rnd):
        if self.unsigned:
            return rnd.randrange(0, 90)
        return rnd.randrange(-45, 45)

    def value(self, rnd, key):
        salt = rnd.randrange(5)
        if self.valkind == 'f':
            return float(key) * 2 + salt + 0.5
        if self.valkind == 'u':
            return abs(key) * 3 + salt
        if self.valkind == 'o':
            return ('v', key, salt)
        return key * 3 - salt


FAMILIES = [
    Family(OO_, 'OO', 'o'),
    Family(IO_, 'IO', 'o'),
    Family(II_, 'II', 'i'),
    Family(LF_, 'LF', 'f'),
    Family(OL_, 'OL', 'i'),
    Family(UU_, 'UU', 'u', unsigned=True),
    Family(QO_, 'QO', 'o', unsigned=True),
    Family(LL_, 'LL', 'i'),
]


# --------------------------------------------------------------------------
# Access to leaves that does not disturb them (a ghost stays a ghost).

class Leaves:
    def __init__(self, jar, is_set):
        self.jar = jar
        self.is_set = is_set
        self.begin()

    def begin(self):
        """Start predicting one operation."""
        self.trace = []         # the loads it is going to request, in order
        self.loaded = set()

    def ghost(self, b):
        return b._p_jar is not None and b._p_changed is None

    def use(self, b):
        """What PER_USE does, as far as the model cares."""
        if self.ghost(b) and id(b) not in self.loaded:
            self.trace.append(b._p_oid)
            if b._p_oid in self.jar.fail:
                COVER['ghost-fail'] += 1
                raise Boom(b._p_oid)
            COVER['ghost-load'] += 1
            self.loaded.add(id(b))

    def _saved(self, b):
        state = self.jar.states[b._p_oid]
        nxt = state[1] if len(state) > 1 else None
        return state[0], nxt

    def length(self, b):
        if self.ghost(b):
            data = self._saved(b)[0]
            return len(data) if self.is_set else len(data) // 2
        return len(b)

    def next(self, b):
        if self.ghost(b):
            return self._saved(b)[1]
        return b._next

    def entry(self, b, offset, kind):
        if self.ghost(b):
            data = self._saved(b)[0]
            if self.is_set:
                keys, values = list(data), None
            else:
                keys, values = list(data[0::2]), list(data[1::2])
        else:
            keys = list(b.keys())
            values = None if self.is_set else list(b.values())
        if kind == 'k':
            return keys[offset]
        if kind == 'v':
            return values[offset]
        return (keys[offset], values[offset])


# --------------------------------------------------------------------------
# The model: the BTreeItems struct and the specified behaviour of
# BTreeItems_seek / BTreeItems_length / subscript / slice.

COVER = {'iter-done': 0, 'iter-changed-size': 0, 'iter-last-entry': 0,
         'iter-same-leaf': 0, 'iter-next-leaf': 0, 'iter-chain-end': 0,
         'len-empty': 0, 'len-one-leaf': 0, 'len-to-last-leaf': 0,
         'len-chain-end': 0, 'len-negative': 0, 'bool-offsets': 0,
         'bool-first-leaf': 0, 'bool-later-leaf': 0, 'bool-false': 0,
         'range-previous-leaf': 0, 'no-finger': 0, 'right-in-leaf': 0, 'right-next-leaf': 0, 'right-off-end': 0,
         'left-in-leaf': 0, 'left-prev-leaf': 0, 'left-off-end': 0,
         'left-stranded': 0, 'stale-offset': 0, 'ghost-load': 0,
         'ghost-fail': 0, 'zero-delta': 0}


def c_int(i):
    i &= 0xffffffff
    return i - (1 << 32) if i >= (1 << 31) else i


class ModelItems:
    def __init__(self, leaves, kind, low, lowoff, high, highoff):
        self.leaves = leaves
        self.kind = kind
        self.first = lowoff
        self.last = highoff
        if low is None or high is None or (low is high and lowoff > highoff):
            self.firstbucket = self.lastbucket = self.currentbucket = None
        else:
            self.firstbucket = low
            self.lastbucket = high
            self.currentbucket = low
        self.currentoffset = lowoff
        self.pseudoindex = 0

    # BTreeItems_length_or_nonzero(self, 0)
    def length(self):
        L = self.leaves
        b = self.firstbucket
        if b is None:
            COVER['len-empty'] += 1
            return 0
        r = self.last + 1 - self.first
        if b is self.lastbucket:
            COVER['len-one-leaf'] += 1
            return r
        L.use(b)
        while True:
            nxt = L.next(b)
            if nxt is None:
                COVER['len-chain-end'] += 1
                break
            r += L.length(b)
            if nxt is self.lastbucket:
                COVER['len-to-last-leaf'] += 1
                break
            b = nxt
            L.use(b)
        if r < 0:
            COVER['len-negative'] += 1
        return r if r >= 0 else 0

    # BTreeItems_length_or_nonzero(self, 1), as a truth value
    def nonzero(self):
        L = self.leaves
        b = self.firstbucket
        if b is None:
            COVER['bool-false'] += 1
            return False
        r = self.last + 1 - self.first
        if r > 0:
            COVER['bool-offsets'] += 1
            return True
        assert b is not self.lastbucket
        L.use(b)
        walked = 0
        while True:
            nxt = L.next(b)
            if nxt is None:
                break
            r += L.length(b)
            if r > 0:
                COVER['bool-later-leaf' if walked else 'bool-first-leaf'] += 1
                break
            if nxt is self.lastbucket:
                break
            b = nxt
            walked += 1
            L.use(b)
        if r <= 0:
            COVER['bool-false'] += 1
        return r > 0

    def previous(self, current):
        L = self.leaves
        first = self.firstbucket
        if first is current:
            return None
        while True:
            trailing = first
            L.use(first)
            first = L.next(first)
            if first is current:
                return trailing
            if first is None:
                return None

    def seek(self, i):
        L = self.leaves
        pseudoindex = self.pseudoindex
        offset = self.currentoffset
        bucket = self.currentbucket
        if bucket is None:
            COVER['no-finger'] += 1
            raise IndexError(c_int(i))
        delta = c_int(i - pseudoindex)
        if delta == 0:
            COVER['zero-delta'] += 1
        while delta > 0:
            L.use(bucket)
            room = L.length(bucket) - offset - 1
            nxt = L.next(bucket)
            if delta <= room:
                offset += delta
                pseudoindex += delta
                if bucket is self.lastbucket and offset > self.last:
                    COVER['right-off-end'] += 1
                    raise IndexError(c_int(i))
                COVER['right-in-leaf'] += 1
                break
            if bucket is self.lastbucket or nxt is None:
                COVER['right-off-end'] += 1
                raise IndexError(c_int(i))
            COVER['right-next-leaf'] += 1
            bucket = nxt
            pseudoindex += room + 1
            delta -= room + 1
            offset = 0
        while delta < 0:
            if -delta <= offset:
                offset += delta
                pseudoindex += delta
                if bucket is self.firstbucket and offset < self.first:
                    COVER['left-off-end'] += 1
                    raise IndexError(c_int(i))
                COVER['left-in-leaf'] += 1
                break
            if bucket is self.firstbucket:
                COVER['left-off-end'] += 1
                raise IndexError(c_int(i))
            prev = self.previous(bucket)
            if prev is None:
                COVER['left-stranded'] += 1
                raise IndexError(c_int(i))
            COVER['left-prev-leaf'] += 1
            bucket = prev
            pseudoindex -= offset + 1
            delta += offset + 1
            L.use(bucket)
            offset = L.length(bucket) - 1
        L.use(bucket)
        if offset < 0 or offset >= L.length(bucket):
            COVER['stale-offset'] += 1
            raise RuntimeError(CHANGED_SIZE)
        self.currentbucket = bucket
        self.currentoffset = offset
        self.pseudoindex = pseudoindex

    def item(self, i):
        self.seek(i)
        self.leaves.use(self.currentbucket)
        return self.leaves.entry(self.currentbucket, self.currentoffset,
                                 self.kind)

    def subscript(self, i):
        n = self.length()
        if i < 0:
            i += n
        return self.item(i)

    def slice(self, lo, hi):
        n = self.length()
        ilow, ihigh, _ = slice(lo, hi).indices(n)
        if ihigh < ilow:
            ihigh = ilow
        if ilow == ihigh:
            return ModelItems(self.leaves, self.kind, None, 1, None, 0)
        ihigh -= 1
        self.seek(ilow)
        lowbucket, lowoffset = self.currentbucket, self.currentoffset
        self.seek(ihigh)
        return ModelItems(self.leaves, self.kind, lowbucket, lowoffset,
                          self.currentbucket, self.currentoffset)


INT_MAX = 2 ** 31 - 1


class ModelIter:
    """The specified behaviour of BTreeIter_next."""

    def __init__(self, items):
        self.leaves = items.leaves
        self.kind = items.kind
        self.bucket = items.currentbucket
        self.offset = items.currentoffset
        self.lastbucket = items.lastbucket
        self.last = items.last

    def next(self):
        L = self.leaves
        b = self.bucket
        if b is None:
            COVER['iter-done'] += 1
            raise StopIteration
        L.use(b)
        i = self.offset
        if i >= L.length(b):
            COVER['iter-changed-size'] += 1
            self.offset = INT_MAX
            raise RuntimeError(CHANGED_SIZE)
        result = L.entry(b, i, self.kind)
        if b is self.lastbucket and i >= self.last:
            COVER['iter-last-entry'] += 1
            self.bucket = None
        else:
            i += 1
            if i >= L.length(b):
                self.bucket = L.next(b)
                COVER['iter-chain-end' if self.bucket is None
                      else 'iter-next-leaf'] += 1
                i = 0
            else:
                COVER['iter-same-leaf'] += 1
            self.offset = i
        return result


def chain(tree):
    out = []
    b = tree._firstbucket
    while b is not None:
        out.append(b)
        b = b._next
    return out


def model_for_range(leaves, buckets, kind, lo=None, hi=None,
                    exlo=False, exhi=False):
    """Model of container.keys(lo, hi, exlo, exhi) & co.; the container is
    a tree (buckets: all of its leaves) or a single leaf, without ghosts."""
    positions = []
    for b in buckets:
        for off, k in enumerate(b.keys()):
            positions.append((k, b, off))
    if (hi is None and exhi and len(buckets) > 1
            and len(buckets[-1].keys()) == 1):
        # the C code has to look for the last but one leaf
        COVER['range-previous-leaf'] += 1
    if lo is not None:
        positions = [p for p in positions
                     if (p[0] > lo if exlo else p[0] >= lo)]
    elif exlo:
        positions = positions[1:]
    if hi is not None:
        positions = [p for p in positions
                     if (p[0] < hi if exhi else p[0] <= hi)]
    elif exhi:
        positions = positions[:-1]
    if not positions:
        return ModelItems(leaves, kind, None, 0, None, 0)
    _, low, lowoff = positions[0]
    _, high, highoff = positions[-1]
    return ModelItems(leaves, kind, low, lowoff, high, highoff)


# --------------------------------------------------------------------------

class Failure(Exception):
    pass


def outcome(fn):
    try:
        return ('ok', fn())
    except IndexError as e:
        return ('IndexError', e.args)
    except RuntimeError as e:
        return ('RuntimeError', e.args)
    except Boom as e:
        return ('Boom', e.args)
    except StopIteration:
        return ('StopIteration', ())


class Pair:
    """A real lazy sequence plus its model."""

    def __init__(self, real, model):
        self.real = real
        self.model = model
        self.real_iter = None
        self.iter_pos = None


class Cursor:
    """A real iterator plus its model."""

    def __init__(self, real, model):
        self.real = real
        self.model = model


class Round:
    def __init__(self, fam, is_set, seed):
        self.rnd = random.Random(seed)
        self.fam = fam
        self.is_set = is_set
        self.jar = Jar()
        self.leaves = Leaves(self.jar, is_set)
        self.tree = (fam.TreeSet if is_set else fam.BTree)()
        self.truth = {}
        self.pairs = []
        self.cursors = []
        self.steps = 0
        self.seen = {'ok': 0, 'IndexError': 0, 'RuntimeError': 0, 'Boom': 0,
                     'StopIteration': 0}
        self.where = '%s %s seed=%r' % (fam.prefix,
                                        'TreeSet' if is_set else 'BTree',
                                        seed)

    # -- mutations ---------------------------------------------------------
    def insert(self, key=None):
        k = self.fam.key(self.rnd) if key is None else key
        if self.is_set:
            self.tree.add(k)
            self.truth[k] = None
        else:
            v = self.fam.value(self.rnd, k)
            self.tree[k] = v
            self.truth[k] = v

    def delete(self, k):
        if self.is_set:
            self.tree.remove(k)
        else:
            del self.tree[k]
        del self.truth[k]

    def delete_random(self):
        if self.truth:
            self.delete(self.rnd.choice(sorted(self.truth)))

    def pop_random(self):
        if not self.truth:
            return
        if self.is_set:
            k = self.tree.pop()
            if k != min(self.truth):
                raise Failure('%s: pop() gave %r' % (self.where, k))
            del self.truth[k]
        else:
            k = self.rnd.choice(sorted(self.truth))
            v = self.tree.pop(k)
            if v != self.truth[k]:
                raise Failure('%s: pop(%r) gave %r' % (self.where, k, v))
            del self.truth[k]

    def empty_parked_leaf(self):
        """Delete every key of the leaf some finger is parked on."""
        cands = [p.model.currentbucket for p in self.pairs
                 if p.model.currentbucket is not None]
        cands += [c.model.bucket for c in self.cursors
                  if c.model.bucket is not None]
        if not cands:
            return
        b = self.rnd.choice(cands)
        if self.leaves.ghost(b):
            return
        for k in list(b.keys()):
            if k in self.truth:
                self.delete(k)

    def clear(self):
        self.tree.clear()
        self.truth.clear()

    def shrink_last_leaf(self):
        """Leave a single key in the last leaf, then look at the tree
        through ranges that exclude that key."""
        leaves = chain(self.tree)
        if len(leaves) < 2:
            return
        for k in list(leaves[-1].keys())[:-1]:
            self.delete(k)
        saved = self.range_args
        lo = self.rnd.choice([None, None, self.fam.key(self.rnd)])
        self.range_args = lambda: (lo, None, self.rnd.random() < 0.3, True)
        try:
            self.new_pair()
            self.new_cursor()
        finally:
            self.range_args = saved

    # -- persistence -------------------------------------------------------
    def commit_and_ghostify(self):
        jar = self.jar
        live = []       # a list: the order must not depend on addresses
        todo = list(chain(self.tree))
        for p in self.pairs:
            for b in (p.model.firstbucket, p.model.currentbucket,
                      p.model.lastbucket):
                if b is not None:
                    todo.append(b)
        for c in self.cursors:
            for b in (c.model.bucket, c.model.lastbucket):
                if b is not None:
                    todo.append(b)
        # follow the chains hanging off leaves that left the tree, too
        seen = set()
        while todo:
            b = todo.pop()
            if id(b) in seen:
                continue
            seen.add(id(b))
            live.append(b)
            if not self.leaves.ghost(b) and b._next is not None:
                todo.append(b._next)
        for b in live:
            if self.leaves.ghost(b):
                continue
            if b._p_jar is None:
                b._p_jar = jar
                b._p_oid = jar.new_oid()
            jar.states[b._p_oid] = b.__getstate__()
            b._p_changed = False
        for b in live:
            if not self.leaves.ghost(b) and self.rnd.random() < 0.6:
                b._p_deactivate()
                if not self.leaves.ghost(b):
                    raise Failure('%s: could not ghostify' % self.where)

    def pick_failures(self):
        ghosts = set()
        for p in self.pairs:
            b = p.model.firstbucket
            n = 0
            while b is not None and n < 1000:
                if self.leaves.ghost(b):
                    ghosts.add(b._p_oid)
                if b is p.model.lastbucket:
                    break
                b = self.leaves.next(b)
                n += 1
        for c in self.cursors:
            b = c.model.bucket
            if b is not None and self.leaves.ghost(b):
                ghosts.add(b._p_oid)
        ghosts = sorted(ghosts)
        self.rnd.shuffle(ghosts)
        self.jar.fail = set(ghosts[:self.rnd.randrange(1, 3)])

    # -- sequence objects --------------------------------------------------
    def new_pair(self):
        kinds = ['k'] if self.is_set else ['k', 'v', 'i']
        kind = self.rnd.choice(kinds)
        meth = {'k': 'keys', 'v': 'values', 'i': 'items'}[kind]
        args = self.range_args()
        # ranges are computed on a tree without ghost leaves, so that
        # creating the sequence cannot fail half way
        leaves = chain(self.tree)
        for b in leaves:
            len(b)
        real = getattr(self.tree, meth)(*args)
        if isinstance(real, tuple):      # not the case for the C trees
            raise Failure('%s: %s() returned a tuple' % (self.where, meth))
        model = model_for_range(self.leaves, leaves, kind, *args)
        self.pairs.append(Pair(real, model))
        if len(self.pairs) > 5:
            del self.pairs[self.rnd.randrange(len(self.pairs))]

    def range_args(self):
        rnd = self.rnd
        lo = hi = None
        if rnd.random() < 0.35:
            lo = self.fam.key(rnd)
        if rnd.random() < 0.35:
            hi = self.fam.key(rnd)
        if lo is not None and hi is not None and lo > hi \
                and rnd.random() < 0.8:
            lo, hi = hi, lo
        exlo = rnd.random() < 0.3
        exhi = rnd.random() < 0.4
        return lo, hi, exlo, exhi

    def new_cursor(self):
        """A new iterator over the tree or over one of its leaves."""
        rnd = self.rnd
        kinds = ['k'] if self.is_set else ['k', 'v', 'i']
        kind = rnd.choice(kinds)
        meth = {'k': 'iterkeys', 'v': 'itervalues', 'i': 'iteritems'}[kind]
        leaves = chain(self.tree)
        for b in leaves:
            len(b)
        container = self.tree
        if leaves and rnd.random() < 0.25:
            container = rnd.choice(leaves)
            leaves = [container]
        if not hasattr(container, meth) or (
                kind == 'k' and rnd.random() < 0.3):
            # (the C sets have __iter__ only)
            args = (None, None, False, False)
            real = iter(container)
        else:
            args = self.range_args()
            real = getattr(container, meth)(*args)
        model = ModelIter(model_for_range(self.leaves, leaves, kind, *args))
        self.cursors.append(Cursor(real, model))
        if len(self.cursors) > 5:
            del self.cursors[rnd.randrange(len(self.cursors))]

    def next_step(self, c):
        self.step('next(it)', c.model.next, lambda: next(c.real))

    def len_step(self, p):
        self.step('len(seq)', p.model.length, lambda: len(p.real))

    def bool_step(self, p):
        self.step('bool(seq)', p.model.nonzero, lambda: bool(p.real))

    def some_index(self, p):
        """An index that is mostly, but not always, inside the sequence."""
        saved = self.jar.fail
        self.jar.fail = set()
        try:
            n = p.model.length()
        finally:
            self.jar.fail = saved
        x = self.rnd.random()
        if x < 0.08:
            return self.rnd.choice([n, n + 1, -n - 1, -n - 2, n + 7])
        if x < 0.16:
            # stay close to the finger
            return p.model.pseudoindex + self.rnd.randrange(-3, 4)
        if n == 0:
            return self.rnd.randrange(-2, 2)
        return self.rnd.randrange(-n, n)

    def step(self, what, model_fn, real_fn):
        """Predict one operation, perform it, compare outcome and loads."""
        self.leaves.begin()
        expected = outcome(model_fn)
        self.jar.trace = []
        got = outcome(real_fn)
        self.steps += 1
        self.seen[got[0]] += 1
        if expected != got:
            raise Failure('%s step %d: %s: expected %r, got %r'
                          % (self.where, self.steps, what, expected, got))
        if self.leaves.trace != self.jar.trace:
            raise Failure('%s step %d: %s: expected the leaves %r to be '
                          'loaded, but it was %r'
                          % (self.where, self.steps, what,
                             self.leaves.trace, self.jar.trace))
        return got

    def index_step(self, p, i):
        self.step('seq[%d]' % i,
                  lambda: p.model.subscript(i), lambda: p.real[i])

    def slice_step(self, p, lo, hi):
        holder = {}

        def model_slice():
            holder['m'] = p.model.slice(lo, hi)
            return None

        def real_slice():
            holder['r'] = p.real[lo:hi]
            return None

        got = self.step('seq[%r:%r]' % (lo, hi), model_slice, real_slice)
        if got[0] == 'ok':
            q = Pair(holder['r'], holder['m'])
            self.pairs.append(q)
            # a fresh slice must agree with its model right away
            self.step('len(slice)', q.model.length, lambda: len(q.real))

    def iter_step(self, p):
        """One step of the old-style (sq_item based) iteration."""
        if p.real_iter is None:
            p.real_iter = iter(p.real)
            p.iter_pos = 0
        if p.iter_pos is None:
            # finished: a sequence iterator stays exhausted
            def stop():
                raise StopIteration
            self.step('next(done)', stop, lambda: next(p.real_iter))
            return
        pos = p.iter_pos

        def model_next():
            try:
                v = p.model.item(pos)
            except IndexError:
                p.iter_pos = None
                raise StopIteration
            # (the sequence iterator does not advance on another error)
            p.iter_pos = pos + 1
            return v

        self.step('next(iter(seq)) at %d' % pos, model_next,
                  lambda: next(p.real_iter))

    # -- main loop ---------------------------------------------------------
    def run(self, nsteps):
        rnd = self.rnd
        for _ in range(rnd.randrange(0, 40)):
            self.insert()
        self.new_pair()
        self.new_cursor()
        for _ in range(nsteps):
            x = rnd.random()
            if not self.pairs:
                self.new_pair()
            if not self.cursors:
                self.new_cursor()
            c = rnd.choice(self.cursors)
            if (c.model.bucket is None or c.model.offset == INT_MAX) \
                    and rnd.random() < 0.7:
                # a finished or broken iterator is dull: mostly replace it
                self.cursors.remove(c)
                if len(self.truth) < 8:
                    for _ in range(12):
                        self.insert()
                self.new_cursor()
                c = self.cursors[-1]
            p = rnd.choice(self.pairs)
            if p.model.currentbucket is None and rnd.random() < 0.8:
                # an empty sequence is dull: mostly pick another one
                p = rnd.choice(self.pairs)
                if p.model.currentbucket is None and rnd.random() < 0.5:
                    self.pairs.remove(p)
                    if len(self.truth) < 8:
                        for _ in range(12):
                            self.insert()
                    self.new_pair()
                    p = self.pairs[-1]
            if x < 0.25:
                self.next_step(c)
            elif x < 0.33:
                self.len_step(p)
            elif x < 0.41:
                self.bool_step(p)
            elif x < 0.50:
                self.index_step(p, self.some_index(p))
            elif x < 0.54:
                self.slice_step(p, rnd.choice([None, self.some_index(p)]),
                                rnd.choice([None, self.some_index(p)]))
                if len(self.pairs) > 5:
                    del self.pairs[rnd.randrange(len(self.pairs))]
            elif x < 0.57:
                self.iter_step(p)
            elif x < 0.67:
                self.insert()
            elif x < 0.77:
                self.delete_random()
            elif x < 0.80:
                self.pop_random()
            elif x < 0.84:
                self.empty_parked_leaf()
            elif x < 0.85:
                self.clear()
            elif x < 0.865:
                self.shrink_last_leaf()
            elif x < 0.88:
                self.new_pair()
            elif x < 0.91:
                self.new_cursor()
            elif x < 0.96:
                self.commit_and_ghostify()
            else:
                # a few steps during which some ghost leaves cannot be loaded
                self.commit_and_ghostify()
                self.pick_failures()
                try:
                    for _ in range(rnd.randrange(1, 5)):
                        q = rnd.choice(self.pairs)
                        y = rnd.random()
                        if y < 0.3:
                            self.next_step(rnd.choice(self.cursors))
                        elif y < 0.45:
                            self.len_step(q)
                        elif y < 0.6:
                            self.bool_step(q)
                        elif y < 0.8:
                            self.index_step(q, self.some_index(q))
                        elif y < 0.85:
                            self.iter_step(q)
                        else:
                            self.slice_step(q, self.some_index(q),
                                            self.some_index(q))
                finally:
                    self.jar.fail = set()
            # (checking walks the whole tree, which loads every ghost leaf)
            if rnd.random() < 0.12:
                self.check_tree()
        self.check_tree()

    def check_tree(self):
        t = self.tree
        if len(t) != len(self.truth):
            raise Failure('%s: len %d != %d'
                          % (self.where, len(t), len(self.truth)))
        t._check()
        if self.is_set:
            if list(t) != sorted(self.truth):
                raise Failure('%s: contents differ' % self.where)
        else:
            if list(t.items()) != sorted(self.truth.items()):
                raise Failure('%s: contents differ' % self.where)


def fixed_scenarios():
    """Hand-written walks over every branch of the seek."""
    fam = FAMILIES[0]
    jar = Jar()
    leaves = Leaves(jar, False)
    t = fam.BTree()
    for i in range(30):
        t[i] = -i
    seq = t.keys()
    m = model_for_range(leaves, chain(t), 'k')

    def both(i):
        e = outcome(lambda: m.subscript(i))
        g = outcome(lambda: seq[i])
        if e != g:
            raise Failure('fixed: seq[%d]: expected %r got %r' % (i, e, g))
        return g

    # right within a leaf, right across leaves, to the very end, past it
    for i in (0, 1, 2, 7, 29, 30, 31, 29, 28, 12, 13, 0, -1, -30, -31, 5):
        both(i)
    assert both(29) == ('ok', 29)
    assert both(30) == ('IndexError', (30,))
    assert both(-31) == ('IndexError', (-1,))
    # park on a leaf in the middle, then shrink that leaf below the offset
    assert both(9) == ('ok', 9)
    del t[9]
    assert both(9)[0] == 'RuntimeError', both(9)
    # the finger did not move: going left from it still works
    assert both(8) == ('ok', 8)
    # empty and unlink the parked leaf: the finger is stranded on a leaf
    # that is no longer part of the chain
    del t[8]
    assert both(8) == ('RuntimeError', (CHANGED_SIZE,))
    assert both(0) == ('IndexError', (0,))      # no way back to the left
    assert both(12) == ('ok', 14)               # but its _next still leads on
    assert both(0) == ('ok', 0)
    assert both(8) == ('ok', 10)
    # moving left over a leaf that was unlinked behind our back
    both(20)
    for k in (14, 15):
        del t[k]
    for i in (19, 14, 13, 12, 3, 25, 26, 2):
        both(i)
    # slices of slices
    s2 = seq[3:17]
    m2 = m.slice(3, 17)
    for i in (0, 13, 14, -14, -15, 5, 4, 12):
        e = outcome(lambda: m2.subscript(i))
        g = outcome(lambda: s2[i])
        if e != g:
            raise Failure('fixed: slice[%d]: expected %r got %r' % (i, e, g))
    t.clear()
    for i in (0, 5, -1, 2):
        both(i)
    # an empty sequence
    empty = t.keys()
    for i in (0, -1, 1):
        if outcome(lambda: empty[i]) != ('IndexError', (i,)):
            raise Failure('fixed: empty[%d]' % i)
    try:
        seq[::2]
    except RuntimeError as e:
        assert 'step size' in str(e)
    else:
        raise Failure('fixed: step slice accepted')
    t._check()


def expect(exc, fn, *args):
    try:
        got = fn(*args)
    except exc as e:
        return e
    raise Failure('fixed: expected %s, got %r' % (exc.__name__, got))


def fixed_iterator_scenarios():
    """Hand-written interleavings for the iterators, len() and bool()."""
    for fam in FAMILIES:
        mod = fam.mod
        t = fam.BTree()
        for i in range(12):
            t[i] = i + 100
        # leaves: [0,1] [2,3] [4,5] [6,7] [8,9,10,11]
        assert [len(b) for b in chain(t)] == [2, 2, 2, 2, 4]

        # delete everything, then next():  the error is sticky
        it = iter(t)
        assert next(it) == 0
        for k in range(12):
            del t[k]
        for _ in range(3):
            e = expect(RuntimeError, next, it)
            assert e.args == (CHANGED_SIZE,)
        assert len(t) == 0 and not t
        t._check()

        for i in range(12):
            t[i] = i + 100
        # the cursor is parked on the first entry of the next leaf when that
        # leaf is emptied and unlinked
        it = t.iteritems()
        assert [next(it), next(it)] == [(0, 100), (1, 101)]
        del t[2], t[3]
        expect(RuntimeError, next, it)
        expect(RuntimeError, next, it)
        # keys added to or removed from leaves ahead are seen / not seen
        it = t.iterkeys(1, 9)
        assert next(it) == 1
        del t[5]
        t[2] = 0                    # lands in the leaf behind the cursor
        assert list(it) == [4, 6, 7, 8, 9]
        expect(StopIteration, next, it)
        # the leaf holding the end of the range shrinks below the end offset
        it = t.itervalues(6, 10)
        assert next(it) == 106
        del t[8]                    # last leaf is now [9, 10, 11]
        assert [next(it), next(it), next(it)] == [107, 109, 110]
        assert next(it) == 111      # the end is an offset, not a key
        expect(StopIteration, next, it)
        t._check()

        # iterating a single leaf that grows or shrinks
        b = getattr(mod, fam.prefix + 'Bucket')()
        for i in (1, 2, 3):
            b[i] = i + 100
        it = iter(b)
        assert next(it) == 1
        b[4] = 104
        assert [next(it), next(it)] == [2, 3]
        expect(StopIteration, next, it)     # the end offset is fixed
        it = b.iteritems()
        assert next(it) == (1, 101)
        del b[4], b[3], b[2]
        expect(RuntimeError, next, it)
        expect(RuntimeError, next, it)
        it = iter(b)
        b.clear()
        expect(RuntimeError, next, it)

        # len() and bool() of lazy sequences follow the leaves
        t = fam.BTree()
        for i in range(12):
            t[i] = i + 100
        whole = t.keys()
        part = t.values(3, 8)       # from offset 1 of [2,3] to offset 0
        tail = t.items(9)           # within the last leaf only
        assert (len(whole), len(part), len(tail)) == (12, 6, 3)
        assert whole and part and tail
        del t[4], t[5]              # a leaf in the middle goes away
        assert (len(whole), len(part), len(tail)) == (10, 4, 3)
        t[20] = 120                 # the last leaf splits: [8,9] [10,11,20]
        assert [len(b) for b in chain(t)] == [2, 2, 2, 2, 3]
        # the sequences end at their old last leaf and offset
        assert (len(whole), len(part), len(tail)) == (10, 4, 3)
        assert bool(whole) and bool(part) and bool(tail)
        for k in (0, 1, 2, 3, 6, 7):
            del t[k]
        # 'part' starts at offset 1 of a leaf that is gone and ends at offset
        # 0 of [8,9]
        assert len(part) == 0 and not part, len(part)
        assert len(whole) == 4 and whole
        t.clear()
        assert len(whole) == 4 and len(tail) == 3
        empty = t.keys()
        assert len(empty) == 0 and not empty
        assert len(t.keys(5, 2)) == 0
        t._check()


def set_operation_scenarios():
    """nextBTreeItems / nextTreeSetItems walk a tree by seeking 0, 1, 2..."""
    rnd = random.Random(20240915)
    for fam in FAMILIES:
        for _ in range(6):
            a = fam.BTree()
            b = fam.TreeSet()
            da = {}
            db = set()
            for _ in range(rnd.randrange(0, 40)):
                k = fam.key(rnd)
                v = fam.value(rnd, k)
                a[k] = v
                da[k] = v
            for _ in range(rnd.randrange(0, 40)):
                k = fam.key(rnd)
                b.add(k)
                db.add(k)
            u = fam.mod.union(a, b)
            if list(u) != sorted(set(da) | db):
                raise Failure('%s union' % fam.prefix)
            x = fam.mod.intersection(b, a)
            if list(x) != sorted(set(da) & db):
                raise Failure('%s intersection' % fam.prefix)
            d = fam.mod.difference(a, b)
            if list(d.items()) != sorted((k, v) for k, v in da.items()
                                         if k not in db):
                raise Failure('%s difference' % fam.prefix)
            if fam.valkind in 'iu' and da:
                lim = sorted(da.values())[len(da) // 2]
                got = a.byValue(lim)
                # byValue() normalizes: integer values are divided by a
                # positive minimum
                want = sorted(((v // lim if lim > 0 else v, k)
                               for k, v in da.items() if v >= lim),
                              reverse=True)
                if list(got) != want:
                    raise Failure('%s byValue' % fam.prefix)
            a._check()
            b._check()


def main():
    fixed_scenarios()
    fixed_iterator_scenarios()
    set_operation_scenarios()
    total = {'ok': 0, 'IndexError': 0, 'RuntimeError': 0, 'Boom': 0,
             'StopIteration': 0}
    steps = 0
    seed = 0
    for fam in FAMILIES:
        for is_set in (False, True):
            for n in range(10):
                seed += 1
                r = Round(fam, is_set, 'C15-u-%d' % seed)
                r.run(400)
                steps += r.steps
                for k, v in r.seen.items():
                    total[k] += v
    for k in ('ok', 'IndexError', 'RuntimeError', 'Boom'):
        if total[k] < 50:
            raise Failure('outcome %s was hardly exercised: %r' % (k, total))
    for k, v in COVER.items():
        if v < 50:
            raise Failure('path %s was hardly exercised: %r' % (k, COVER))
    print('compared %d steps: %r' % (steps, total))
    print('paths taken (model): %r' % (COVER,))
    print('OK')


if __name__ == '__main__':
    try:
        main()
    except Failure as e:
        print('FAILED:', e)
        sys.exit(1)
