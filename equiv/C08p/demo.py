"""Equivalence demonstration for refactoring C08p (property C08: concurrent
transactions on a tree merge, serialize or conflict - nothing else).

Run:  PYTHONPATH=<worktree>/src /venv/bin/python demo.py
Exits 0 when every check passes (with and without the patch).
"""

import gc
import hashlib
import io
import itertools
import pickle
import random
import sys

import BTrees
from BTrees.Interfaces import BTreesConflictError
from BTrees import check as btcheck

FAILURES = []


def expect(cond, msg):
    if not cond:
        FAILURES.append(msg)
        if len(FAILURES) <= 25:
            print("FAIL:", msg)


def finish(name):
    if FAILURES:
        print("%s: %d check(s) FAILED" % (name, len(FAILURES)))
        sys.exit(1)
    print("%s: all checks passed" % name)
    sys.exit(0)


# ---------------------------------------------------------------------------
# A very small object database with optimistic concurrency control and
# conflict resolution, shaped after ZODB (which is not installed here):
#
#  * Storage: oid -> (serial, class, state pickle); references to other
#    persistent objects are stored as (oid, class) persistent ids.
#  * Connection: the data manager ("jar") of the objects it loads; it
#    implements exactly the calls `persistent` makes on a jar: setstate(),
#    register(), readCurrent(); plus add()/commit().
#  * commit(): (1) every object declared with readCurrent() and not written
#    by this transaction must still carry the serial that was read, else
#    ReadConflictError; (2) every written object whose stored serial moved
#    goes through  klass._p_resolveConflict(old, committed, new)  - a
#    BTreesConflictError (or any failure) aborts the whole transaction; (3)
#    only then are all records written under one new serial.
# ---------------------------------------------------------------------------

class ConflictError(Exception):
    pass


class ReadConflictError(ConflictError):
    pass


class Storage:
    def __init__(self):
        self.records = {}       # oid -> (serial, klass, pickle)
        self.history = {}       # (oid, serial) -> (klass, pickle)
        self.next_oid = 0
        self.serial = 0

    def new_oid(self):
        self.next_oid += 1
        return b'%08d' % self.next_oid

    def load(self, oid):
        return self.records[oid]

    def load_serial(self, oid, serial):
        return self.history[(oid, serial)]


def _ser(n):
    return n.to_bytes(8, 'big')


_KLASSES = []     # classes are stored by number (they may be local classes)


def _klass_id(klass):
    if klass not in _KLASSES:
        _KLASSES.append(klass)
    return _KLASSES.index(klass)


class _Pickler(pickle.Pickler):
    def __init__(self, f, conn, current):
        super().__init__(f, 2)
        self.conn = conn
        self.current = current

    def persistent_id(self, obj):
        if obj is self.current:
            return None
        oid = getattr(obj, '_p_oid', None)
        if not hasattr(type(obj), '_p_oid'):
            return None
        if oid is None:
            oid = self.conn.add(obj)
        return (oid, _klass_id(type(obj)))


class _Unpickler(pickle.Unpickler):
    def __init__(self, f, getter):
        super().__init__(f)
        self.getter = getter

    def persistent_load(self, pid):
        return self.getter(pid[0], _KLASSES[pid[1]])


class _ResolveJar:
    """Turns references in the three states handed to _p_resolveConflict into
    never-loaded placeholders: one per oid, so that 'same reference' is
    'same object'."""

    def __init__(self):
        self.refs = {}

    def get(self, oid, klass):
        try:
            return self.refs[oid]
        except KeyError:
            ob = self.refs[oid] = klass.__new__(klass)
            ob._p_oid = oid
            return ob

    def add(self, obj):
        raise ConflictError("resolved state refers to a new object")


class Connection:
    def __init__(self, storage):
        self.storage = storage
        self.cache = {}
        self.registered = []
        self.added = []
        self.read_current = {}
        self.log = []           # ('readCurrent'|'register'|'setstate', oid)

    # -- data manager interface used by `persistent` ------------------------
    def setstate(self, obj):
        oid = obj._p_oid
        serial, klass, data = self.storage.load(oid)
        self.log.append(('setstate', oid))
        state = _Unpickler(io.BytesIO(data), self.get).load()
        obj.__setstate__(state)
        obj._p_serial = _ser(serial)

    def register(self, obj):
        self.log.append(('register', obj._p_oid))
        self.registered.append(obj)

    def readCurrent(self, obj):
        self.log.append(('readCurrent', obj._p_oid))
        self.read_current.setdefault(obj._p_oid, obj._p_serial)

    # -- application interface ---------------------------------------------
    def get(self, oid, klass=None):
        try:
            return self.cache[oid]
        except KeyError:
            pass
        if klass is None:
            klass = self.storage.load(oid)[1]
        obj = klass.__new__(klass)
        obj._p_jar = self
        obj._p_oid = oid
        obj._p_changed = None           # make it a ghost
        self.cache[oid] = obj
        return obj

    def add(self, obj):
        assert obj._p_oid is None and obj._p_jar is None
        oid = self.storage.new_oid()
        obj._p_jar = self
        obj._p_oid = oid
        self.cache[oid] = obj
        self.added.append(obj)
        return oid

    def _dump(self, obj, jar=None):
        f = io.BytesIO()
        _Pickler(f, jar or self, obj).dump(obj.__getstate__())
        return f.getvalue()

    def commit(self):
        st = self.storage
        writes = {}             # oid -> (klass, pickle)
        todo = list(self.registered)
        seen = set()
        n_added = 0
        while todo or n_added < len(self.added):
            if not todo:
                todo.append(self.added[n_added])
                n_added += 1
            obj = todo.pop(0)
            if obj._p_oid in seen:
                continue
            seen.add(obj._p_oid)
            writes[obj._p_oid] = (type(obj), self._dump(obj), obj)

        # (1) read dependencies
        for oid, serial in self.read_current.items():
            if oid in writes:
                continue
            if _ser(st.load(oid)[0]) != serial:
                raise ReadConflictError(oid)

        # (2) write-write conflicts
        records = {}
        resolved = []
        for oid, (klass, data, obj) in writes.items():
            if oid in st.records:
                cur_serial, cur_klass, cur_data = st.load(oid)
                if _ser(cur_serial) != obj._p_serial:
                    old_serial = int.from_bytes(obj._p_serial, 'big')
                    old_data = st.load_serial(oid, old_serial)[1]
                    rjar = _ResolveJar()
                    states = [
                        _Unpickler(io.BytesIO(d), rjar.get).load()
                        for d in (old_data, cur_data, data)]
                    resolver = klass.__new__(klass)
                    try:
                        new_state = resolver._p_resolveConflict(*states)
                    except BTreesConflictError as e:
                        raise ConflictError(oid, e.reason)
                    f = io.BytesIO()
                    _Pickler(f, rjar, None).dump(new_state)
                    data = f.getvalue()
                    resolved.append(oid)
            records[oid] = (klass, data)

        # (3) store
        st.serial += 1
        for oid, (klass, data) in records.items():
            st.records[oid] = (st.serial, klass, data)
            st.history[(oid, st.serial)] = (klass, data)
        return resolved


def db_with_tree(tree):
    """Commit `tree` as the one root object of a new storage."""
    st = Storage()
    c = Connection(st)
    root_oid = c.add(tree)
    c.commit()
    return st, root_oid


def open_tree(st, root_oid):
    c = Connection(st)
    return c, c.get(root_oid)


def interior_path(tree, key):
    """[(oid, already modified?)] of the stored interior nodes a descent to
    `key` goes through (independent walk over __getstate__ data)."""
    path = []
    node = tree
    while True:
        state = node.__getstate__()
        path.append((node._p_oid, bool(node._p_changed)))
        if state is None or len(state) == 1:    # empty / embedded bucket
            return path
        data = state[0]
        children = data[0::2]
        seps = data[1::2]
        i = 0
        for j, s in enumerate(seps):
            if key >= s:
                i = j + 1
        child = children[i]
        if type(child) is not type(node):
            return path
        node = child


def tree_shape(tree):
    """(depth, number of interior nodes, number of leaves)."""
    depth = 0
    nodes = leaves = 0
    level = [tree]
    while level:
        nxt = []
        depth += 1
        for n in level:
            st = n.__getstate__()
            nodes += 1
            if st is None or len(st) == 1:
                leaves += 1 if st is not None else 0
                continue
            for ch in st[0][0::2]:
                if type(ch) is type(n):
                    nxt.append(ch)
                else:
                    leaves += 1
        level = nxt
    return depth, nodes, leaves


def _check_ranges(node, lo, hi, leaves):
    """Independent structural check over __getstate__ data: every key lies
    in the half-open range its ancestors' separators promise."""
    state = node.__getstate__()
    if state is None:
        return
    if len(state) == 1:
        flat = state[0][0]
        keys = flat if 'Set' in type(node).__name__ else flat[0::2]
        expect(all(lo is None or k >= lo for k in keys)
               and all(hi is None or k < hi for k in keys),
               "embedded bucket keys out of range")
        return
    data = state[0]
    children, seps = data[0::2], list(data[1::2])
    expect(seps == sorted(set(seps)), "separators not increasing: %r" % (seps,))
    bounds = [lo] + seps + [hi]
    for i, ch in enumerate(children):
        clo, chi = bounds[i], bounds[i + 1]
        if type(ch) is type(node):
            _check_ranges(ch, clo, chi, leaves)
        else:
            leaves.append(ch)
            keys = list(ch.keys())
            expect(keys, "empty leaf left in the tree")
            expect(all(clo is None or k >= clo for k in keys)
                   and all(chi is None or k < chi for k in keys),
                   "leaf keys %r outside [%r, %r)" % (keys, clo, chi))


def check_sound(tree):
    tree._check()
    if type(tree) in btcheck._type2kind:
        btcheck.check(tree)
    leaves = []
    _check_ranges(tree, None, None, leaves)
    for a, b in zip(leaves, leaves[1:]):
        expect(a.__getstate__()[1] is b, "leaf chain broken")
    if leaves:
        expect(len(leaves[-1].__getstate__()) == 1, "last leaf has a successor")
    keys = list(tree.keys())
    expect(keys == sorted(set(keys)), "keys not strictly increasing: %r" % (keys,))
    for k in keys:
        expect(k in tree, "key %r iterated but unreachable" % (k,))
    expect(len(tree) == len(keys), "len() disagrees with iteration")


def apply_ops(target, ops, is_set):
    for op in ops:
        if op[0] == 'ins' or op[0] == 'chg':
            if is_set:
                target.add(op[1]) if not isinstance(target, dict) \
                    else target.__setitem__(op[1], None)
            else:
                target[op[1]] = op[2]
        elif op[0] == 'del':
            if is_set and not isinstance(target, dict):
                target.remove(op[1])
            else:
                del target[op[1]]
        elif op[0] == 'clear':
            target.clear()
        else:
            raise AssertionError(op)


def contents(tree, is_set):
    if is_set:
        return {k: None for k in tree.keys()}
    return dict(tree.items())


def occ_round(make_tree, base_items, ops_a, ops_b, is_set, stats):
    """Two transactions from the same committed tree, committed one after the
    other; returns nothing, records failed expectations."""
    t = make_tree()
    apply_ops(t, [('ins', k, v) for k, v in base_items], is_set)
    st, root = db_with_tree(t)
    base = dict((k, None if is_set else v) for k, v in base_items)

    ca, ta = open_tree(st, root)
    cb, tb = open_tree(st, root)

    # writes: read dependencies on exactly the interior nodes on the path
    for conn, tree, ops in ((ca, ta, ops_a), (cb, tb, ops_b)):
        for op in ops:
            if op[0] == 'clear':
                apply_ops(tree, [op], is_set)
                continue
            path = interior_path(tree, op[1])
            if type(tree).__name__.endswith('Py'):
                want = [oid for oid, changed in path]
            else:
                # the C implementation (persistent's readCurrent) does not
                # repeat the declaration for a node this transaction has
                # already modified and will therefore store anyway
                want = [oid for oid, changed in path if not changed]
            del conn.log[:]
            apply_ops(tree, [op], is_set)
            got = [oid for what, oid in conn.log if what == 'readCurrent']
            expect(got == want,
                   "%s %r: readCurrent on %r, interior path is %r"
                   % (type(tree).__name__, op, got, path))

    ca.commit()
    try:
        cb.commit()
    except ConflictError as e:
        outcome = 'conflict'
        stats[type(e).__name__ + repr(e.args[1:])] = stats.get(
            type(e).__name__ + repr(e.args[1:]), 0) + 1
    else:
        outcome = 'committed'
        stats['committed'] = stats.get('committed', 0) + 1

    model_a = dict(base)
    apply_ops(model_a, ops_a, is_set)
    model_b = dict(base)
    apply_ops(model_b, ops_b, is_set)

    cc, tc = open_tree(st, root)
    del cc.log[:]
    check_sound(tc)
    final = contents(tc, is_set)
    # pure reads declare no read dependency
    tc.get(0) if not is_set else tc.has_key(0)
    list(tc.keys(1, 5))
    len(tc)
    bool(tc)
    if final:
        tc.minKey(), tc.maxKey()
    expect(not [x for x in cc.log if x[0] in ('readCurrent', 'register')],
           "a read declared something: %r" % (cc.log,))

    if outcome == 'conflict':
        expect(final == model_a, "after a conflict the first transaction's "
               "result must be stored: %r != %r" % (final, model_a))
        return outcome

    allowed = []
    # (a) serial: B's operations after A's
    serial = dict(model_a)
    try:
        apply_ops(serial, ops_b, is_set)
    except KeyError:
        pass
    else:
        allowed.append(serial)
    # (b) merge of net key-level changes, which must touch disjoint keys
    _missing = object()

    def delta(model):
        return {k: model.get(k, _missing)
                for k in set(base) | set(model)
                if model.get(k, _missing) != base.get(k, _missing)
                or (k in model) != (k in base)}
    da, db_ = delta(model_a), delta(model_b)
    if not (set(da) & set(db_)):
        merged = dict(base)
        for d in (da, db_):
            for k, v in d.items():
                if v is _missing:
                    del merged[k]
                else:
                    merged[k] = v
        allowed.append(merged)
    expect(final in allowed,
           "base=%r A=%r B=%r stored %r, allowed %r"
           % (base_items, ops_a, ops_b, final, allowed))
    return outcome


def small_transactions(base_keys, universe, is_set, val=None, with_clear=True):
    """All one-operation transactions over `universe`, plus clear()."""
    if val is None:
        def val(k, tag):
            return '%s%d' % (tag, k)
    txns = []
    for k in universe:
        if k in base_keys:
            txns.append([('del', k)])
            if not is_set:
                txns.append([('chg', k, val(k, 'new'))])
        else:
            txns.append([('ins', k, val(k, 'v'))])
    if with_clear:
        txns.append([('clear',)])
    return txns


def sized(base, leaf, internal):
    """Subclass with tiny nodes, so that few keys give deep trees."""
    class T(base):
        max_leaf_size = leaf
        max_internal_size = internal
    T.__name__ = T.__qualname__ = base.__name__
    return T


def occ_sweep(base, sizes=((2, 3),), key_counts=(1, 2, 3, 5, 8, 12),
              pair_ops=True, val=None):
    """Every pair of small transactions on every base tree; returns the
    histogram of outcomes and the set of tree shapes seen."""
    is_set = 'Set' in base.__name__
    if val is None:
        def val(k, tag):
            return '%s%d' % (tag, k)
    stats, shapes = {}, set()
    for leaf, internal in sizes:
        T = sized(base, leaf, internal)
        for nkeys in key_counts:
            base_keys = [2 * i + 2 for i in range(nkeys)]
            items = [(k, val(k, 'b')) for k in base_keys]
            t = T()
            apply_ops(t, [('ins', k, v) for k, v in items], is_set)
            shapes.add(tree_shape(t))
            universe = range(1, 2 * nkeys + 4)
            txns = small_transactions(set(base_keys), universe, is_set, val)
            if pair_ops and nkeys <= 5:
                # two-operation transactions: delete a leaf minimum and
                # insert next to it
                for k in base_keys:
                    txns.append([('del', k), ('ins', k + 1, val(k + 1, 'v'))])
                    txns.append([('ins', k - 1, val(k - 1, 'v')), ('del', k)])
            for a in txns:
                for b in txns:
                    occ_round(T, items, a, b, is_set, stats)
    return stats, shapes


# ---------------------------------------------------------------------------
# Bucket-level three-way merge: C against pure Python, against a key-level
# model of the property, and against digests recorded on the unmodified tree.
# ---------------------------------------------------------------------------

def family(prefix):
    mod = __import__('BTrees.%sBTree' % prefix, fromlist=['*'])
    return mod


def _vconv(prefix):
    return float if prefix[1] == 'F' else (lambda v: v)


def bucket_states(keys, values):
    """All mapping-bucket states over `keys`, each key absent or bound to one
    of `values`."""
    out = []
    for combo in itertools.product([None] + list(values), repeat=len(keys)):
        flat = []
        for k, v in zip(keys, combo):
            if v is not None:
                flat.extend((k, v))
        out.append(tuple(flat))
    return out


def set_states(keys):
    out = []
    for combo in itertools.product([False, True], repeat=len(keys)):
        out.append(tuple(k for k, c in zip(keys, combo) if c))
    return out


def outcome(klass, s_old, s_com, s_new):
    try:
        st = klass()._p_resolveConflict(s_old, s_com, s_new)
    except BTreesConflictError as e:
        return ('conflict',) + tuple(e.args)
    except Exception as e:
        return ('error', type(e).__name__, str(e))
    return ('ok', st)


def model_check(flat_old, flat_com, flat_new, res, is_set):
    """The property at key level: a resolved merge equals the old contents
    with both sides' net changes applied, and those touch disjoint keys."""
    def d(flat):
        if is_set:
            return {k: None for k in flat}
        return dict(zip(flat[0::2], flat[1::2]))
    o, c, n = d(flat_old), d(flat_com), d(flat_new)
    missing = object()
    if res[0] != 'ok':
        return True
    got = d(res[1][0])
    exp = {}
    for k in set(o) | set(c) | set(n):
        vo, vc, vn = (x.get(k, missing) for x in (o, c, n))
        if vc == vo:
            v = vn
        elif vn == vo:
            v = vc
        else:
            return False        # both sides touched k, yet no conflict
        if v is not missing:
            exp[k] = v
    flat = res[1][0]
    ks = list(flat) if is_set else list(flat[0::2])
    return got == exp and ks == sorted(set(ks)) and len(c) > 0 and len(n) > 0 \
        and len(exp) > 0


def merge_matrix(prefix, full=True):
    """Returns (digest, reasons histogram).  Checks C == Py on every triple."""
    mod = family(prefix)
    conv = _vconv(prefix)
    h = hashlib.sha256()
    reasons = {}
    jobs = []
    if prefix[1] != 'x':
        bs = [tuple(conv(x) if i % 2 else x for i, x in enumerate(s))
              for s in bucket_states([1, 2, 3] if full else [1, 2], [7, 8])]
        jobs.append((getattr(mod, prefix + 'Bucket'),
                     getattr(mod, prefix + 'BucketPy'), bs, False))
    ss = set_states([1, 2, 3, 4, 5] if full else [1, 2, 3])
    jobs.append((getattr(mod, prefix + 'Set'),
                 getattr(mod, prefix + 'SetPy'), ss, True))
    for c_klass, py_klass, states, is_set in jobs:
        for a in states:
            for b in states:
                for c in states:
                    rc = outcome(c_klass, (a,), (b,), (c,))
                    rp = outcome(py_klass, (a,), (b,), (c,))
                    if rc != rp:
                        expect(False, "%s: C %r != Py %r for %r"
                               % (c_klass.__name__, rc, rp, (a, b, c)))
                    if not model_check(a, b, c, rc, is_set):
                        expect(False, "%s: %r -> %r breaks the key-level "
                               "model" % (c_klass.__name__, (a, b, c), rc))
                    key = rc[0] if rc[0] != 'conflict' else rc[-1]
                    reasons[key] = reasons.get(key, 0) + 1
                    norm = repr(rc).replace('.0', '')
                    h.update(norm.encode())
    return h.hexdigest(), reasons


def random_merges(prefix, n, seed, universe=10):
    """Longer buckets (tail loops), with and without a successor."""
    mod = family(prefix)
    conv = _vconv(prefix)
    rnd = random.Random(seed)
    c_b, py_b = getattr(mod, prefix + 'Bucket'), getattr(mod, prefix + 'BucketPy')
    c_s, py_s = getattr(mod, prefix + 'Set'), getattr(mod, prefix + 'SetPy')
    h = hashlib.sha256()
    nxt_c, nxt_c2 = c_b(), c_b()
    nxt_p, nxt_p2 = py_b(), py_b()
    for i in range(n):
        keys = sorted(rnd.sample(range(universe), rnd.randint(1, universe - 2)))
        old = {k: conv(rnd.randint(0, 3)) for k in keys}

        def mutate():
            m = dict(old)
            for _ in range(rnd.randint(0, 3)):
                k = rnd.randrange(universe)
                r = rnd.random()
                if r < 0.4:
                    m.pop(k, None)
                elif r < 0.8:
                    m[k] = conv(rnd.randint(0, 3))
            return m
        com, new = mutate(), mutate()
        trip = [tuple(x for k in sorted(m) for x in (k, m[k]))
                for m in (old, com, new)]
        strip = [tuple(sorted(m)) for m in (old, com, new)]
        mode = rnd.randrange(4)
        for (ck, pk, t, is_set, ncs, nps) in (
                (c_b, py_b, trip, False, (nxt_c, nxt_c2), (nxt_p, nxt_p2)),
                (c_s, py_s, strip, True, (nxt_c, nxt_c2), (nxt_p, nxt_p2))):
            if is_set:
                ncs = (c_s(), c_s())
                nps = (py_s(), py_s())
            if mode == 0:       # no successor
                sc = sp = [(x,) for x in t]
            elif mode in (1, 2):  # same successor everywhere
                sc = [(x, ncs[0]) for x in t]
                sp = [(x, nps[0]) for x in t]
            else:               # one side changed its successor: reason 0
                j = rnd.randrange(3)
                sc = [(x, ncs[1] if i2 == j else ncs[0])
                      for i2, x in enumerate(t)]
                sp = [(x, nps[1] if i2 == j else nps[0])
                      for i2, x in enumerate(t)]
            rc = outcome(ck, *sc)
            rp = outcome(pk, *sp)
            # successors are different objects in the two runs: compare by
            # position in the (first, second) pair
            def norm(r, pair):
                if r[0] == 'ok' and len(r[1]) == 2:
                    return ('ok', (r[1][0], pair.index(r[1][1])))
                return r
            rc, rp = norm(rc, ncs), norm(rp, nps)
            expect(rc == rp, "%s random #%d: C %r != Py %r for %r"
                   % (ck.__name__, i, rc, rp, t))
            if mode == 3:
                expect(rc == ('conflict', -1, -1, -1, 0),
                       "changed successor must give reason 0, got %r" % (rc,))
            elif mode in (1, 2) and rc[0] == 'ok':
                expect(rc[1][1] == 0, "successor not carried over")
            if mode != 3:
                expect(model_check(t[0], t[1], t[2],
                                   rc if rc[0] != 'ok' else ('ok', (rc[1][0],)),
                                   is_set),
                       "%s random #%d breaks the key-level model: %r -> %r"
                       % (ck.__name__, i, t, rc))
            h.update(repr(rc).replace('.0', '').encode())
    return h.hexdigest()


class _Boom(Exception):
    pass


class _K:
    """Key whose comparisons can be made to fail on demand."""
    armed = False

    def __init__(self, v):
        self.v = v

    def _cmp(self, other, op):
        if _K.armed:
            raise _Boom(self.v)
        return op(self.v, other.v)

    def __lt__(self, o):
        return self._cmp(o, lambda a, b: a < b)

    def __gt__(self, o):
        return self._cmp(o, lambda a, b: a > b)

    def __le__(self, o):
        return self._cmp(o, lambda a, b: a <= b)

    def __ge__(self, o):
        return self._cmp(o, lambda a, b: a >= b)

    def __eq__(self, o):
        return self._cmp(o, lambda a, b: a == b)

    def __ne__(self, o):
        return self._cmp(o, lambda a, b: a != b)

    def __hash__(self):
        return hash(self.v)

    def __repr__(self):
        return 'K(%r)' % self.v


def refcount_and_error_paths():
    """Object keys/values: no reference is lost or leaked by a merge,
    whether it resolves, refuses, or fails in a key comparison."""
    from BTrees.OOBTree import OOBucket, OOBucketPy, OOSet, OOSetPy, OOBTree
    from BTrees.OOBTree import OOTreeSet
    ks = [_K(i) for i in range(8)]
    vs = ['value-%d' % i * 2 for i in range(4)]     # not interned
    nxt = OOBucket()
    tracked = ks + vs + [nxt]

    def counts():
        gc.collect()
        return [sys.getrefcount(x) for x in tracked]

    def flat(idx, vmap):
        out = []
        for i in idx:
            out.extend((ks[i], vs[vmap.get(i, 0)]))
        return tuple(out)

    cases = [
        # resolves: inserts on both sides, value change, delete
        ((0, 2, 4), {}, (0, 1, 2, 4), {}, (0, 2, 4, 6), {}, 'ok'),
        ((0, 2, 4, 6), {}, (0, 2, 4), {}, (0, 2, 4, 6, 7), {2: 1}, 'ok'),
        ((1, 3), {}, (0, 1, 3), {}, (1, 2, 3, 5), {}, 'ok'),
        # refusals 1..9, 12, 13
        ((0, 2), {}, (0, 2), {0: 1}, (0, 2), {0: 2}, 1),
        ((0, 2, 4), {}, (0, 2, 4), {2: 1}, (0, 4), {}, 2),
        ((0, 2, 4), {}, (0, 4), {}, (0, 2, 4), {2: 1}, 3),
        ((0, 4), {}, (0, 2, 4), {}, (0, 2, 4), {}, 4),
        ((0, 2, 6), {}, (0, 4, 6), {}, (0, 5, 6), {}, 5),
        ((0,), {}, (0, 3), {}, (0, 3), {}, 6),
        ((0, 2, 4), {}, (0, 2, 4), {4: 1}, (0, 2), {}, 7),
        ((0, 2, 4), {}, (0, 2), {}, (0, 2, 4), {4: 1}, 8),
        ((0, 2, 4), {}, (0, 2), {}, (0, 2), {}, 9),
        ((0, 2), {}, (), {}, (0, 2, 3), {}, 12),
        ((0, 2), {}, (0, 2, 3), {}, (2,), {}, 13),
        ((0, 2), {}, (2,), {}, (0, 2, 3), {}, 13),
    ]
    before = counts()
    for with_next in (False, True):
        for old, vo, com, vc, new, vn, want in cases:
            for klass in (OOBucket, OOBucketPy):
                states = [flat(old, vo), flat(com, vc), flat(new, vn)]
                nx = nxt if klass is OOBucket else OOBucketPy()
                states = [(s, nx) if with_next else (s,) for s in states]
                r = outcome(klass, *states)
                if want == 'ok':
                    expect(r[0] == 'ok', "%s expected to resolve: %r"
                           % (klass.__name__, r))
                    if with_next and r[0] == 'ok':
                        expect(r[1][1] is nx, "successor lost")
                else:
                    expect(r[0] == 'conflict' and r[-1] == want,
                           "%s expected reason %r: %r"
                           % (klass.__name__, want, r))
                # a comparison that fails half way through the merge
                _K.armed = True
                try:
                    r2 = outcome(klass, *states)
                finally:
                    _K.armed = False
                if len(com) and len(new):
                    expect(r2[:2] == ('error', '_Boom'),
                           "%s: failing comparison gave %r"
                           % (klass.__name__, r2))
                del r, r2, states, nx
    # the tree-level entry point wraps the bucket state
    t = OOBTree()
    def wrap(idx):
        return (((flat(idx, {}),),),)
    r = t._p_resolveConflict(wrap((0, 2)), wrap((0, 1, 2)), wrap((0, 2, 5)))
    expect(r == wrap((0, 1, 2, 5)), "tree-level merge: %r" % (r,))
    del r, t
    after = counts()
    expect(before == after, "reference counts moved: %r -> %r" % (before, after))


# ---------------------------------------------------------------------------
# C08p: bucket_merge() - every "copy the item, step the iterator" pair goes
# through the new helper merge_output_next().
# ---------------------------------------------------------------------------

# Recorded on the unmodified tree (HEAD ff4f7c2).
FULL_DIGEST = '94beddc9f70c87da02d1caaa398d6a6a6115b662477b719490c2475f672f472f'
SMALL_DIGEST = 'd17743a50bbbeb8d37e1565cc2c7acc2fac9991d3c8fe894c40dd404af7ccdea'
RANDOM_DIGEST = 'c57e216b4d6b8c57cdf01f7d6bc2c61216dd027181f0c2f3b34a2b7e47605f84'
OCC_MAP = {'ConflictError(4,)': 38, 'ConflictError(12,)': 160, 'committed': 2090, 'ConflictError(13,)': 42, 'ConflictError(1,)': 31, 'ConflictError(2,)': 14, 'ConflictError(7,)': 12, 'ConflictError(6,)': 27, 'ConflictError(3,)': 6, 'ConflictError(8,)': 12, 'ConflictError(11,)': 404, 'ConflictError(5,)': 2, 'ConflictError(9,)': 5, 'ReadConflictError()': 686, 'ConflictError(0,)': 334}
OCC_SET = {'ConflictError(4,)': 38, 'ConflictError(12,)': 126, 'committed': 922, 'ConflictError(13,)': 30, 'ConflictError(6,)': 27, 'ConflictError(7,)': 4, 'ConflictError(8,)': 4, 'ConflictError(11,)': 376, 'ConflictError(5,)': 2, 'ConflictError(9,)': 5, 'ReadConflictError()': 414, 'ConflictError(0,)': 276}


def main():
    all_reasons = {'ok', 1, 2, 3, 4, 5, 6, 7, 8, 9, 12, 13}
    # 1. exhaustive small merges, C == Py == model == recorded digest
    for prefix in ('OO', 'II'):
        digest, reasons = merge_matrix(prefix, full=True)
        expect(digest == FULL_DIGEST, "%s full matrix digest %s" % (prefix, digest))
        expect(set(reasons) == all_reasons, "reasons seen: %r" % (reasons,))
    for prefix in ('LF', 'OL', 'UO', 'QQ', 'IU', 'LO'):
        digest, reasons = merge_matrix(prefix, full=False)
        expect(digest == SMALL_DIGEST, "%s small matrix digest %s" % (prefix, digest))
    # 2. longer buckets, successors (every tail loop of bucket_merge)
    for prefix in ('OO', 'IF', 'LO', 'OI', 'QL'):
        digest = random_merges(prefix, 3000, 8)
        expect(digest == RANDOM_DIGEST, "%s random digest %s" % (prefix, digest))
    # 3. references and the error exits
    refcount_and_error_paths()
    # 4. the property itself: two transactions, both orders, tiny nodes
    from BTrees.OOBTree import OOBTree, OOBTreePy, OOTreeSet
    from BTrees.IIBTree import IIBTree, IITreeSet

    def ival(k, tag):
        return {'b': 0, 'v': 1000, 'new': 2000}[tag] + k
    for base, val, want in ((OOBTree, None, OCC_MAP), (IIBTree, ival, OCC_MAP),
                            (OOBTreePy, None, OCC_MAP),
                            (OOTreeSet, None, OCC_SET),
                            (IITreeSet, None, OCC_SET)):
        stats, shapes = occ_sweep(base, val=val)
        expect(stats == want, "%s outcomes %r" % (base.__name__, stats))
        expect(max(s[0] for s in shapes) >= 2, "no multi-level tree seen")
    stats, shapes = occ_sweep(OOBTree, sizes=((2, 3),), key_counts=(20,),
                              pair_ops=False)
    expect(max(s[0] for s in shapes) >= 3, "no three-level tree seen")
    expect(stats.get('committed', 0) > 1000, "deep tree: %r" % (stats,))
    finish('C08p demo')


if __name__ == '__main__':
    main()
