# Equivalence demonstration for refactoring C05r (property C05: evicting nodes
# from the object cache never changes behaviour).
# Run as:  PYTHONPATH=<worktree>/src /venv/bin/python demo.py
# Exit status 0 = every check passed and the digest of all observations equals
# the one recorded with the unmodified sources.
#
# ---------------------------------------------------------------------------
# Shared harness: a ZODB-free object cache ("jar") for BTrees nodes.
#
# * Jar keeps the committed state of every persistent node (the tuples returned
#   by __getstate__, which reference the child nodes directly), hands out oids,
#   and owns a persistent.PickleCache, so nodes can really be turned into
#   ghosts (_p_deactivate) and are reloaded through Jar.setstate().
# * sweep() plays the role of cache.minimize(): it asks *every* node to become
#   a ghost.  Nodes that are pinned (sticky, _p_state == 2) or modified refuse.
# * K is an object key whose comparisons call a hook, so that a sweep (or an
#   exception) can be placed inside any key comparison of an operation.
# ---------------------------------------------------------------------------
import hashlib
import random
import sys

from persistent import Persistent, PickleCache

GHOST, UPTODATE, CHANGED, STICKY = -1, 0, 1, 2


class LoadFailure(Exception):
    """Raised by Jar.setstate() when a fault is injected."""


class CmpError(Exception):
    """Raised by K comparisons when a fault is injected."""


class Jar(object):

    def __init__(self):
        self.cache = PickleCache(self, 100000)
        self.states = {}
        self.order = []          # nodes, in oid order
        self.loads = 0
        self.fail_at = None      # fail the n-th load from now (1-based)
        self.fail_only = None    # ... counting only nodes accepted by this
        self.log = []            # oids loaded, in order

    # -- data manager protocol used by persistent --------------------------
    def setstate(self, obj):
        self.loads += 1
        if self.fail_at is not None and (
                self.fail_only is None or self.fail_only(obj)):
            self.fail_at -= 1
            if self.fail_at == 0:
                self.fail_at = None
                raise LoadFailure(obj._p_oid)
        self.log.append(obj._p_oid)
        obj.__setstate__(self.states[obj._p_oid])

    def register(self, obj):
        pass

    def readCurrent(self, obj):
        pass

    # -- "transaction" ------------------------------------------------------
    def commit(self, root):
        """Give oids to new nodes reachable from root, save changed states."""
        seen = set()
        todo = [root]
        while todo:
            o = todo.pop()
            if id(o) in seen:
                continue
            seen.add(id(o))
            new = o._p_jar is None
            if new:
                o._p_oid = (len(self.order) + 1).to_bytes(8, 'big')
                o._p_jar = self
                self.cache[o._p_oid] = o
                self.order.append(o)
            if o._p_state == GHOST and not new:
                st = self.states[o._p_oid]      # unchanged, do not load
            else:
                st = o.__getstate__()
                if new or o._p_changed:
                    self.states[o._p_oid] = st
                    o._p_changed = False
            stack = [st]
            while stack:
                s = stack.pop()
                if isinstance(s, tuple):
                    stack.extend(s)
                elif isinstance(s, Persistent):
                    todo.append(s)

    # -- cache control / observation ---------------------------------------
    def sweep(self):
        for o in self.order:
            o._p_deactivate()

    def states_vector(self):
        return tuple(o._p_state for o in self.order)

    def sticky(self):
        return [o._p_oid for o in self.order if o._p_state == STICKY]

    def lru(self):
        return tuple(oid for oid, _ in self.cache.lru_items())


class K(object):
    """Totally ordered object key; every comparison calls K.hook()."""
    __slots__ = ('v',)
    hook = None

    def __init__(self, v):
        self.v = v

    def _c(self, other):
        h = K.hook
        if h is not None:
            h()
        return other.v

    def __lt__(self, other):
        return self.v < self._c(other)

    def __le__(self, other):
        return self.v <= self._c(other)

    def __gt__(self, other):
        return self.v > self._c(other)

    def __ge__(self, other):
        return self.v >= self._c(other)

    def __eq__(self, other):
        if not isinstance(other, K):
            return NotImplemented
        return self.v == self._c(other)

    def __ne__(self, other):
        if not isinstance(other, K):
            return NotImplemented
        return self.v != self._c(other)

    def __hash__(self):
        return hash(self.v)

    def __repr__(self):
        return 'K(%r)' % (self.v,)


def plain(x):
    """Normalise a result so that it can be compared / hashed."""
    if isinstance(x, K):
        return ('K', x.v)
    if isinstance(x, (tuple, list)):
        return tuple(plain(y) for y in x)
    return x


def outcome(fn, *args):
    """('ok', result) or ('err', exception class name)."""
    try:
        return ('ok', plain(fn(*args)))
    except Exception as e:      # noqa
        return ('err', type(e).__name__)


class Trace(object):
    """Everything observed, folded into one digest."""

    def __init__(self):
        self.h = hashlib.sha256()
        self.n = 0

    def add(self, *things):
        self.n += 1
        self.h.update(repr(things).encode('ascii', 'backslashreplace'))
        self.h.update(b'\n')

    def digest(self):
        return self.h.hexdigest()[:24]


failures = []


def check(cond, *msg):
    if not cond:
        failures.append(msg)
        if len(failures) <= 20:
            print('FAIL:', *msg)


def small(cls, leaf=4, internal=4):
    """Subclass of a tree class with tiny nodes (=> deep trees)."""
    return type(cls)('Small' + cls.__name__, (cls,),
                     {'max_leaf_size': leaf, 'max_internal_size': internal})


def finish(trace, expected):
    d = trace.digest()
    print('observations: %d   digest: %s' % (trace.n, d))
    if expected is None:
        print('(no recorded digest)')
    else:
        check(d == expected, 'digest differs from the recorded one', expected)
    if failures:
        print('%d check(s) FAILED' % len(failures))
        sys.exit(1)
    print('OK')
    sys.exit(0)
# ---------------------------------------------------------------------------
# C05r: the places where a BTree node reads the firstbucket pointer of one of
# its children while holding that child only for the duration of the read:
#   * BTree_split           (inserts that split an interior node)
#   * _BTree_set, deletes   (replacing a separator key by the smallest key of
#                            the child's subtree; adopting the child's new
#                            firstbucket after its old one went away)
# Histories of inserts and deletes on trees with tiny nodes, with the cache
# swept between operations and inside key comparisons, plus injected
# comparison errors and reload failures.
# ---------------------------------------------------------------------------
import pickle

from BTrees.OOBTree import OOBTree, OOTreeSet, OOBTreePy
from BTrees.IOBTree import IOBTree, IOBTreePy
from BTrees.LLBTree import LLTreeSet

EXPECTED_DIGEST = "38f9c1a043bd36c3344442e5"   # recorded with the unmodified sources

trace = Trace()


class SmallOO(OOBTree):
    max_leaf_size = 3
    max_internal_size = 3


class SmallOOSet(OOTreeSet):
    max_leaf_size = 3
    max_internal_size = 3


class SmallIO(IOBTree):
    max_leaf_size = 3
    max_internal_size = 3


class SmallLLSet(LLTreeSet):
    max_leaf_size = 3
    max_internal_size = 3


def history(rng, universe):
    """A list of (opname, key) growing a tree, churning it, and taking it
    apart from the left, from the right and from the middle."""
    ops = []
    keys = list(range(universe))
    rng.shuffle(keys)
    for k in keys[:universe * 3 // 4]:
        ops.append(('set', k))
    for _ in range(universe):
        k = rng.randrange(-2, universe + 2)
        ops.append((rng.choice(['set', 'del', 'del', 'pop', 'setdefault',
                                'insert']), k))
    for k in range(0, universe // 2):            # from the left
        ops.append(('del', k))
    for k in keys[:universe // 2]:
        ops.append(('set', k))
    for k in range(universe, universe // 2, -1):  # from the right
        ops.append(('del', k))
    for k in keys:
        ops.append(('set', k))
    mid = list(range(universe // 4, universe * 3 // 4))
    for k in mid:                                 # from the middle
        ops.append(('pop', k))
    for k in keys + [-2, -1, universe, universe + 1]:   # until nothing is left
        ops.append(('del', k))
    ops.append(('set', 5))
    ops.append(('del', 5))
    return ops


def apply(t, is_set, name, key, mk):
    k = mk(key)
    if is_set:
        if name in ('set', 'setdefault'):
            return t.add(k)
        if name == 'insert':
            return t.insert(k)
        if name == 'pop':
            return t.discard(k) if hasattr(t, 'discard') else t.remove(k)
        return t.remove(k)
    if name == 'set':
        t[k] = key * 10
        return None
    if name == 'del':
        del t[k]
        return None
    if name == 'pop':
        # (always with a default: without one, BTree.pop() of a missing key
        # looks at the root again while the KeyError is still pending)
        return t.pop(k, 'gone')
    if name == 'setdefault':
        return t.setdefault(k, -key)
    if name == 'insert':
        return t.insert(k, key * 7)
    raise AssertionError(name)


def model_apply(model, is_set, name, key):
    """Independent reference: a dict."""
    if is_set:
        if name in ('set', 'setdefault', 'insert'):
            r = 0 if key in model else 1
            model[key] = None
            return ('ok', r)
        if key in model:
            del model[key]
            return ('ok', None)
        return ('err', 'KeyError')
    if name == 'set':
        model[key] = key * 10
        return ('ok', None)
    if name == 'del':
        if key in model:
            del model[key]
            return ('ok', None)
        return ('err', 'KeyError')
    if name == 'pop':
        return ('ok', model.pop(key, 'gone'))
    if name == 'setdefault':
        return ('ok', model.setdefault(key, -key))
    if name == 'insert':
        if key in model:
            return ('ok', 0)
        model[key] = key * 7
        return ('ok', 1)


def contents(t, is_set):
    if is_set:
        return tuple(plain(k) for k in t.keys())
    return tuple((plain(k), v) for k, v in t.items())


def run_history(cls, mk, ops, schedule, label, seed):
    """Apply ops to a cached tree and an uncached twin, evicting per schedule."""
    rng = random.Random(seed)
    is_set = 'Set' in cls.__name__
    t, twin, model = cls(), cls(), {}
    jar = Jar()
    jar.commit(t)

    def hook():
        jar.sweep()
    for step, (name, key) in enumerate(ops):
        if schedule in ('all', 'inside'):
            jar.sweep()
        elif schedule == 'random':
            for i in range(len(jar.order)):
                if rng.random() < 0.5:
                    jar.order[i]._p_deactivate()
        if schedule == 'inside' and mk is K:
            K.hook = hook
        try:
            got = outcome(apply, t, is_set, name, key, mk)
        finally:
            K.hook = None
        want = outcome(apply, twin, is_set, name, key, mk)
        check(got == want, label, schedule, step, name, key, got, want)
        exp = model_apply(model, is_set, name, key)
        if is_set and name == 'pop':
            exp = ('ok', None)          # discard()
        check(got == exp, label, schedule, 'model', step, name, key, got, exp)
        check(not jar.sticky(), label, schedule, step, name, key,
              'pinned after return', jar.sticky())
        trace.add(label, schedule, step, name, key, got, jar.states_vector())
        jar.commit(t)
        if step % 16 == 0 or len(model) < 8:
            c = contents(t, is_set)
            check(c == contents(twin, is_set), label, schedule, step, 'twin')
            if is_set:
                check(c == tuple(plain(mk(k)) for k in sorted(model)), label,
                      schedule, step, 'model contents')
            else:
                check(c == tuple((plain(mk(k)), model[k])
                                 for k in sorted(model)), label, schedule,
                      step, 'model contents')
            check(not jar.sticky(), label, schedule, step, 'pinned by items()')
            t._check()
            check(len(t) == len(model), label, schedule, step, 'len')
            trace.add(label, schedule, step, 'contents', c, jar.lru())
    check(len(t) == 0 and not model, label, schedule, 'not empty at the end')
    return len(jar.order)


def structure(t):
    """Shape of a tree: nested tuples of node sizes."""
    st = t.__getstate__()
    if st is None:
        return ()
    if len(st) == 1:
        return ('inline',)
    kids = st[0][::2]
    if type(kids[0]) is type(t):
        return tuple(structure(k) for k in kids)
    return tuple(len(k) for k in kids)


def fault_injection(cls, mk, ops, label, every):
    """At chosen points of the history, run the next operation on copies of
    the tree, with (a) the n-th key comparison raising, (b) the m-th reload
    failing, both with the cache swept before and inside every comparison."""
    is_set = 'Set' in cls.__name__
    twin = cls()
    for step, (name, key) in enumerate(ops):
        if step % every == 0 and len(twin) > 0:
            blob = pickle.dumps(twin, 2)
            before = contents(twin, is_set)
            # (a) comparison errors
            if mk is K:
                n = 0
                while True:
                    n += 1
                    t = pickle.loads(blob)
                    jar = Jar()
                    jar.commit(t)
                    jar.sweep()
                    count = [0]

                    def hook():
                        count[0] += 1
                        jar.sweep()
                        if count[0] == n:
                            raise CmpError()
                    K.hook = hook
                    try:
                        got = outcome(apply, t, is_set, name, key, mk)
                    finally:
                        K.hook = None
                    check(not jar.sticky(), label, 'cmp', step, n, 'pinned',
                          jar.sticky())
                    trace.add(label, 'cmp', step, name, key, n, got,
                              jar.states_vector(), jar.lru())
                    if count[0] < n:
                        break
                    check(got == ('err', 'CmpError'), label, 'cmp', step, n, got)
                    # a failed comparison happens before anything is changed
                    # or in the middle of it (a delete that has to compare
                    # the key with a separator on the way back up); the tree
                    # can be read afterwards without pinning anything
                    c = outcome(contents, t, is_set)
                    check(not jar.sticky(), label, 'cmp', step, n, 'pinned 2')
                    trace.add(label, 'cmp-after', step, n, c == ('ok', before),
                              c[0])
            # (b) reload failures
            m = 0
            while True:
                m += 1
                t = pickle.loads(blob)
                jar = Jar()
                jar.commit(t)
                jar.sweep()
                jar.fail_at = m
                if mk is K:
                    K.hook = jar.sweep
                try:
                    got = outcome(apply, t, is_set, name, key, mk)
                finally:
                    K.hook = None
                fired = jar.fail_at is None
                jar.fail_at = None
                check(not jar.sticky(), label, 'load', step, m, 'pinned',
                      jar.sticky())
                trace.add(label, 'load', step, name, key, m, got,
                          jar.states_vector(), jar.lru())
                if not fired:
                    check(got == outcome(apply, pickle.loads(blob), is_set,
                                         name, key, mk), label, 'load', step)
                    break
                check(got == ('err', 'LoadFailure'), label, 'load', step, m, got)
        outcome(apply, twin, is_set, name, key, mk)
        if step % every == 0:
            trace.add(label, 'shape', step, structure(twin))


ident = lambda k: k     # noqa
ops = history(random.Random(4242), 120)
for schedule in ('all', 'random', 'none', 'inside'):
    n = run_history(SmallOO, K, ops, schedule, 'OO', 99)
trace.add('nodes ever created', n)
run_history(SmallIO, ident, ops, 'all', 'IO', 7)
run_history(SmallIO, ident, ops, 'random', 'IO', 8)
run_history(SmallOOSet, K, ops, 'inside', 'OOTreeSet', 9)
run_history(SmallLLSet, ident, ops, 'random', 'LLTreeSet', 10)
# C and pure Python agree on the whole history (no cache involved)
cpy, ppy = OOBTree(), OOBTreePy()
for name, key in ops:
    a = outcome(apply, cpy, False, name, key, K)
    b = outcome(apply, ppy, False, name, key, K)
    check(a == b, 'C vs Py', name, key, a, b)
check(contents(cpy, False) == contents(ppy, False), 'C vs Py contents')

short = history(random.Random(777), 48)
fault_injection(SmallOO, K, short, 'OO', 3)
fault_injection(SmallIO, ident, short, 'IO', 5)
fault_injection(SmallOOSet, K, short, 'OOTreeSet', 7)

finish(trace, EXPECTED_DIGEST)
