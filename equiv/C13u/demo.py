"""Differential demo for refactoring u (C13): conversion of key and value at
the top of C `_bucket_set` (extracted helper) and the float value conversion.

Every family (22) is driven through the entry points that end in _bucket_set:
item assignment, setdefault, insert, update, constructors, add, deletion and
pop, on plain buckets/sets and on small-node trees, C and Python classes.

Checked:
  * representable values read back exactly (floats as float32 rounding in C),
  * anything else is refused with TypeError (exact C message), before the
    container is touched (contents, length, _p_changed, jar registration),
    and before a ghost is activated,
  * deletion converts the key but does not apply the store-time key check,
  * reference counts of object keys/values,
  * a seeded randomized differential against a dict model.

Run:  PYTHONPATH=<tree>/src python demo.py      (exit status 0 == OK)
"""
import gc
import importlib
import math
import operator
import random
import struct
import sys

FAILURES = []


def check(cond, *what):
    if not cond:
        FAILURES.append(' '.join(str(w) for w in what))
        if len(FAILURES) > 40:
            finish()


def finish():
    if FAILURES:
        for f in FAILURES:
            print('FAIL:', f[:400])
        print('%d failure(s)' % len(FAILURES))
        sys.exit(1)
    print('OK')
    sys.exit(0)


# ---------------------------------------------------------------- the model

FAMILIES = ['II', 'IO', 'IF', 'IU', 'LL', 'LO', 'LF', 'LQ', 'OI', 'OL', 'OO',
            'OQ', 'OU', 'QF', 'QL', 'QO', 'QQ', 'UF', 'UI', 'UO', 'UU', 'fs']

INT_RANGE = {'I': (-2 ** 31, 2 ** 31 - 1), 'U': (0, 2 ** 32 - 1),
             'L': (-2 ** 63, 2 ** 63 - 1), 'Q': (0, 2 ** 64 - 1)}


class Plain:
    """default comparison: may be a value, never a key"""


class Flt:
    def __float__(self):
        return 1.0


class Idx:
    def __index__(self):
        return 1


class Ordered:
    def __init__(self, n):
        self.n = n

    def __lt__(self, other):
        return self.n < other.n

    def __eq__(self, other):
        return isinstance(other, Ordered) and self.n == other.n

    def __hash__(self):
        return hash(self.n)


def f32(x):
    try:
        return struct.unpack('f', struct.pack('f', x))[0]
    except OverflowError:
        return math.copysign(math.inf, x)


def same(a, b):
    if isinstance(a, float) and isinstance(b, float) and a != a:
        return b != b
    return type(a) is type(b) and a == b


def int_message(code, v, what):
    """exact C message for an int slot, None if representable"""
    lo, hi = INT_RANGE[code]
    if not isinstance(v, int):
        return 'expected integer key'       # (sic) also for values
    if code in 'IU':
        if not (-2 ** 63 <= v <= 2 ** 63 - 1):
            return 'integer out of range'
        if code == 'U' and v < 0:
            return "can't convert negative value to unsigned int"
        return None if lo <= v <= hi else 'integer out of range'
    if code == 'L':
        return None if lo <= v <= hi else \
            "couldn't convert integer to C long long"
    return None if lo <= v <= hi else \
        'overflow error converting int to C long long'


def classify_value(code, v, is_c):
    """-> (accepted, stored, c_message)"""
    if code in INT_RANGE:
        msg = int_message(code, v, 'value')
        return msg is None, (int(v) if msg is None else None), msg
    if code == 'F':
        if isinstance(v, float):
            return True, (f32(v) if is_c else None), None
        if isinstance(v, int):
            if -2 ** 63 <= v <= 2 ** 63 - 1:
                return True, (f32(float(v)) if is_c else None), None
            return False, None, 'integer out of range'
        return False, None, 'expected float or int value'
    if code == 's':
        okay = isinstance(v, bytes) and len(v) == 6
        return okay, v, None if okay else 'expected six-character string key'
    return True, v, None        # 'O'


def classify_key(code, k):
    """-> (accepted for a store, c_message)"""
    if code in INT_RANGE:
        msg = int_message(code, k, 'key')
        return msg is None, msg
    if code == 'f':
        okay = isinstance(k, bytes) and len(k) == 2
        return okay, None if okay else 'expected two-character string key'
    # object keys
    if k is None:
        return True, None
    if type(k).__lt__ is object.__lt__:
        return False, 'Object of class %s has default comparison' % (
            type(k).__name__)
    return True, None


VALUE_PROBES = {
    'int': [0, 1, -1, True, False, 127, -128, 2 ** 31 - 1, 2 ** 31,
            -2 ** 31, -2 ** 31 - 1, 2 ** 32 - 1, 2 ** 32, 2 ** 63 - 1, 2 ** 63,
            -2 ** 63, -2 ** 63 - 1, 2 ** 64 - 1, 2 ** 64, 10 ** 40, -10 ** 40,
            1.0, 0.5, float('nan'), float('inf'), '1', b'123456', b'12',
            None, (1,), Plain(), Idx()],
    'F': [0.0, -0.0, 1.0, 0.1, -0.1, 1.5, 16777217.0, 3.4028234e38,
          3.4028235677973366e38, 1e39, 1e300, -1e300, 1e-45, 1e-46, 1e-50,
          5e-324, float('inf'), float('-inf'), float('nan'),
          0, 1, -1, True, 2 ** 24 + 1, 2 ** 31, 2 ** 62, -2 ** 63,
          2 ** 63 - 1, 2 ** 63, -2 ** 63 - 1, 10 ** 40,
          '1.0', b'123456', None, (1.0,), Plain(), Flt(), 1 + 0j],
    's': [b'123456', b'\x00' * 6, b'\xff' * 6, b'', b'12345', b'1234567',
          '123456', 123456, None, bytearray(b'123456'), (b'123456',)],
    'O': [None, 0, 2 ** 70, 1.5, 'x', b'y', (1, 2), Plain(), [1], {}],
}


def value_probes(code):
    if code in INT_RANGE:
        return VALUE_PROBES['int']
    return VALUE_PROBES[code]


def good_key(code, n):
    if code == 'f':
        return struct.pack('>H', n)
    if code == 'O':
        return 'k%05d' % n
    return n


def good_value(code, n):
    if code == 's':
        return struct.pack('>HI', 7, n)
    if code == 'O':
        return 'v%d' % n
    if code == 'F':
        return n + 0.5
    return n


KEY_PROBES = {
    'int': [0, 5, -5, True, 2 ** 31 - 1, 2 ** 31, -2 ** 31, -2 ** 31 - 1,
            2 ** 32 - 1, 2 ** 32, 2 ** 63 - 1, 2 ** 63, -2 ** 63,
            -2 ** 63 - 1, 2 ** 64 - 1, 2 ** 64, 10 ** 40, 1.0, '1', b'ab',
            None, Plain()],
    'f': [b'ab', b'\x00\x00', b'\xff\xff', b'', b'a', b'abc', 'ab', 1, None,
          bytearray(b'ab')],
    'O': [None, 'zz', Plain(), object()],
}


def key_probes(code):
    if code in INT_RANGE:
        return KEY_PROBES['int']
    return KEY_PROBES[code]


# ---------------------------------------------------------------- plumbing

class Jar:
    """Minimal stand-in for a ZODB connection."""

    def __init__(self):
        self.registered = []
        self.states = {}
        self.fail = False
        self.loads = 0

    def register(self, obj):
        self.registered.append(obj)

    def readCurrent(self, obj):
        pass

    def setstate(self, obj):
        self.loads += 1
        if self.fail:
            raise RuntimeError('activation failed')
        obj.__setstate__(self.states[obj._p_oid])


def adopt(obj, jar, oid=b'\0' * 7 + b'\1'):
    obj._p_jar = jar
    obj._p_oid = oid
    obj._p_changed = False      # pretend it was just saved
    del jar.registered[:]
    return obj


def classes(fam, py):
    mod = importlib.import_module('BTrees.%sBTree' % fam)
    sfx = 'Py' if py else ''
    return [getattr(mod, fam + kind + sfx)
            for kind in ('BTree', 'Bucket', 'TreeSet', 'Set')]


def small(cls):
    return type(cls.__name__ + 'Small', (cls,),
                {'max_leaf_size': 4, 'max_internal_size': 3})


def outcome(f, *a):
    try:
        return ('ok', f(*a))
    except TypeError as e:
        return ('TypeError', str(e))
    except KeyError:
        return ('KeyError', None)
    except RuntimeError as e:
        return ('RuntimeError', str(e))
    except OverflowError as e:
        return ('OverflowError', str(e))


def expect_reject(tag, is_c, msg, got):
    check(got[0] == 'TypeError', tag, 'expected TypeError, got', got)
    if is_c and got[0] == 'TypeError' and msg is not None:
        check(got[1] == msg, tag, 'message', repr(got[1]), '!=', repr(msg))


def py_known_difference(code, v):
    """Inputs on which the Python datatypes are known to differ from C."""
    if isinstance(v, (Idx, Flt)):
        return True
    if code == 'F':
        if isinstance(v, int) and not (-2 ** 63 <= v <= 2 ** 63 - 1):
            return True
        if isinstance(v, float) and v == v and abs(v) > 3.4028235677973366e38 \
                and not math.isinf(v):
            return True     # struct.pack('f') overflows
    return False


# ---------------------------------------------------------------- sections

def section_values(fam, py):
    kc, vc = fam[0], fam[1]
    is_c = not py
    BTree, Bucket, TreeSet, Set = classes(fam, py)
    base = [(good_key(kc, n), good_value(vc, n)) for n in (10, 20, 30, 40, 50,
                                                           60, 70)]
    k_old = good_key(kc, 30)
    k_new = good_key(kc, 35)
    for cls in (Bucket, small(BTree)):
        for v in value_probes(vc):
            if py and py_known_difference(vc, v):
                continue
            okay, stored, msg = classify_value(vc, v, is_c)
            tag = '%s value=%r' % (cls.__name__, v)
            writers = ['setitem', 'setdefault', 'update', 'ctor']
            if hasattr(cls, 'insert'):
                writers.append('insert')
            for how in writers:
                for k in (k_old, k_new):
                    jar = Jar()
                    c = adopt(cls(base), jar)
                    before = list(c.items())
                    if how == 'setitem':
                        got = outcome(c.__setitem__, k, v)
                    elif how == 'setdefault':
                        got = outcome(c.setdefault, k, v)
                    elif how == 'update':
                        got = outcome(c.update, [(k, v)])
                    elif how == 'insert':
                        got = outcome(c.insert, k, v)
                    else:
                        got = outcome(cls, base + [(k, v)])
                        if got[0] == 'ok':
                            c = got[1]
                    t = '%s %s key=%r' % (tag, how, k)
                    if not okay and is_c and how == 'setdefault' \
                            and k == k_old:
                        # C looks the key up first and never gets as far as
                        # converting the value when the key is present.
                        check(got == ('ok', dict(before)[k]), t, got)
                        check(list(c.items()) == before, t, 'contents')
                        check(not c._p_changed, t, '_p_changed set')
                        continue
                    if not okay:
                        expect_reject(t, is_c, msg, got)
                        check(list(c.items()) == before, t,
                              'contents changed by a rejected write')
                        check(len(c) == len(before), t, 'len')
                        if how != 'ctor':
                            check(not c._p_changed, t, '_p_changed set')
                            check(jar.registered == [], t, 'jar notified')
                        continue
                    check(got[0] == 'ok', t, 'expected success, got', got)
                    if got[0] != 'ok':
                        continue
                    model = dict(before)
                    keeps_old = how in ('setdefault', 'insert') and k == k_old
                    if not keeps_old:
                        model[k] = stored
                    if stored is None and vc == 'F':
                        # Python classes keep the double (known); accept
                        # either the double or its float32 rounding.
                        r = c[k]
                        if not keeps_old:
                            fv = float(v)
                            check(same(r, fv) or same(r, f32(fv)), t,
                                  'float readback', r)
                        continue
                    items = list(c.items())
                    want = sorted(model.items())
                    check(len(items) == len(want) and all(
                        a[0] == b[0] and same(a[1], b[1])
                        for a, b in zip(items, want)), t, 'readback',
                        items, want)
                    if vc == 'O' and not keeps_old:
                        check(c[k] is v, t, 'object identity')
                    if how == 'setdefault':
                        # (for a new key the argument itself is returned)
                        check(same(got[1], model[k]) or
                              (k == k_new and got[1] is v), t,
                              'setdefault result', got[1])
                    if how == 'insert':
                        check(got[1] == (0 if k == k_old else 1), t,
                              'insert result', got[1])
                    if how != 'ctor' and k == k_new and cls is Bucket:
                        check(c._p_changed, t, '_p_changed not set')
                        check(len(jar.registered) >= 1, t, 'jar not notified')


def section_keys(fam, py):
    kc, vc = fam[0], fam[1]
    is_c = not py
    BTree, Bucket, TreeSet, Set = classes(fam, py)
    base_keys = [good_key(kc, n) for n in (10, 20, 30, 40, 50, 60, 70)]
    v = good_value(vc, 1)
    for cls in (Bucket, small(BTree), Set, small(TreeSet)):
        mapping = cls.__name__[2:].startswith(('BTree', 'Bucket'))
        for k in key_probes(kc):
            if py and isinstance(k, Idx):
                continue
            okay, msg = classify_key(kc, k)
            tag = '%s key=%r' % (cls.__name__, k)
            jar = Jar()
            if mapping:
                c = adopt(cls([(x, v) for x in base_keys]), jar)
                before = list(c.items())
                store = [('setitem', lambda: c.__setitem__(k, v)),
                         ('setdefault', lambda: c.setdefault(k, v)),
                         ('update', lambda: c.update([(k, v)]))]
                snap = lambda: list(c.items())      # noqa
            else:
                c = adopt(cls(base_keys), jar)
                before = list(c)
                store = [('add', lambda: c.add(k)),
                         ('update', lambda: c.update([k]))]
                snap = lambda: list(c)      # noqa
            if not okay:
                for name, f in store:
                    # (C setdefault searches first: with object keys the
                    # failure is then the comparison's, not the check's)
                    m = None if (kc == 'O' and name == 'setdefault') else msg
                    expect_reject(tag + ' ' + name, is_c, m, outcome(f))
                check(snap() == before, tag, 'contents changed')
                check(not c._p_changed and jar.registered == [], tag,
                      'persistence effect of a rejected write')
                # deletion: the key is converted, but the store-time check
                # (default comparison) is not applied.
                dele = outcome(c.__delitem__ if mapping else c.remove, k)
                if kc == 'O' and py:
                    # the Python classes apply the store-time check too
                    expect_reject(tag + ' delete', is_c, msg, dele)
                elif kc == 'O':
                    check(dele[0] == 'TypeError' and
                          'default comparison' not in dele[1], tag,
                          'delete of an unorderable key', dele)
                    e = cls()
                    check(outcome(e.__delitem__ if mapping else e.remove,
                                  k)[0] == 'KeyError', tag,
                          'delete from an empty container')
                else:
                    expect_reject(tag + ' delete', is_c, msg, dele)
                check(snap() == before, tag, 'contents changed by delete')
            else:
                got = outcome(store[0][1])
                check(got[0] == 'ok', tag, got)
                check(k in c, tag, 'not stored')
                if 'Tree' not in cls.__name__:   # (trees delegate to a leaf)
                    check(c._p_changed and jar.registered, tag,
                          'persistence effect missing')
                dele = outcome(c.__delitem__ if mapping else c.remove, k)
                check(dele[0] == 'ok' and k not in c, tag, 'delete', dele)
                check(snap() == before, tag, 'contents after delete')


def section_ghost(fam, py):
    """Conversion errors are reported before the ghost is activated."""
    kc, vc = fam[0], fam[1]
    is_c = not py
    BTree, Bucket, TreeSet, Set = classes(fam, py)
    bad_keys = [k for k in key_probes(kc) if not classify_key(kc, k)[0]
                and not isinstance(k, Idx)]
    bad_values = [v for v in value_probes(vc)
                  if not classify_value(vc, v, is_c)[0]
                  and not py_known_difference(vc, v)]
    k, v = good_key(kc, 5), good_value(vc, 5)
    src = Bucket([(good_key(kc, n), good_value(vc, n)) for n in (1, 2, 3)])
    jar = Jar()
    b = adopt(Bucket(), jar)
    jar.states[b._p_oid] = src.__getstate__()
    b._p_deactivate()
    check(b._p_changed is None, fam, 'not a ghost')
    jar.fail = True
    for bk in bad_keys[:3]:
        got = outcome(operator.setitem, b, bk, v)
        expect_reject('%s ghost bad key %r' % (fam, bk), is_c,
                      classify_key(kc, bk)[1], got)
    for bv in bad_values[:4]:
        got = outcome(operator.setitem, b, k, bv)
        expect_reject('%s ghost bad value %r' % (fam, bv), is_c,
                      classify_value(vc, bv, is_c)[2], got)
    check(jar.loads == 0, fam, 'ghost activated by a rejected write',
          jar.loads)
    check(b._p_changed is None, fam, 'ghost state changed')
    got = outcome(operator.setitem, b, k, v)
    check(got == ('RuntimeError', 'activation failed'), fam,
          'failed activation', got)
    check(jar.loads == 1 and b._p_changed is None, fam, 'after failure')
    jar.fail = False
    b[k] = v
    check(len(b) == 4 and b._p_changed and jar.registered == [b], fam,
          'store into activated ghost')


def section_refcounts():
    from BTrees.OOBTree import OOBucket, OOSet, OOBTree
    from BTrees.OIBTree import OIBucket
    from BTrees.IOBTree import IOBucket
    gc.collect()
    for cls in (OOBucket, OOBTree):
        c = cls()
        k, v, v2, bad = Ordered(1), Plain(), Plain(), Plain()
        rk, rv = sys.getrefcount(k), sys.getrefcount(v)
        rv2, rbad = sys.getrefcount(v2), sys.getrefcount(bad)
        c[k] = v
        check(sys.getrefcount(k) == rk + 1 and sys.getrefcount(v) == rv + 1,
              cls.__name__, 'store refcounts')
        c[k] = v2       # replace: old value released, key untouched
        check(sys.getrefcount(k) == rk + 1 and sys.getrefcount(v) == rv and
              sys.getrefcount(v2) == rv2 + 1, cls.__name__,
              'replace refcounts')
        check(c.setdefault(k, v) is v2, cls.__name__, 'setdefault')
        check(sys.getrefcount(v) == rv, cls.__name__, 'setdefault refcount')
        got = outcome(c.__setitem__, bad, v)
        check(got[0] == 'TypeError', cls.__name__, got)
        got = None
        gc.collect()
        check(sys.getrefcount(bad) == rbad and sys.getrefcount(v) == rv,
              cls.__name__, 'rejected store refcounts',
              sys.getrefcount(bad), rbad, sys.getrefcount(v), rv)
        del c[k]
        check(sys.getrefcount(k) == rk and sys.getrefcount(v2) == rv2,
              cls.__name__, 'delete refcounts')
    s = OOSet()
    k = Ordered(2)
    rk = sys.getrefcount(k)
    s.add(k)
    s.add(k)
    check(sys.getrefcount(k) == rk + 1, 'OOSet add refcount')
    s.remove(k)
    check(sys.getrefcount(k) == rk, 'OOSet remove refcount')
    # object key, native value that does not convert
    c = OIBucket()
    k = Ordered(3)
    rk = sys.getrefcount(k)
    got = outcome(c.__setitem__, k, 2 ** 40)
    check(got == ('TypeError', 'integer out of range'), 'OI', got)
    check(sys.getrefcount(k) == rk and len(c) == 0, 'OI rejected value')
    # native key, object value, key does not convert
    c = IOBucket()
    v = Plain()
    rv = sys.getrefcount(v)
    got = outcome(c.__setitem__, 2 ** 40, v)
    check(got == ('TypeError', 'integer out of range'), 'IO', got)
    check(sys.getrefcount(v) == rv and len(c) == 0, 'IO rejected key')


def section_random(fam, py, rng, nops):
    kc, vc = fam[0], fam[1]
    is_c = not py
    BTree, Bucket, TreeSet, Set = classes(fam, py)
    kprobes = [k for k in key_probes(kc) if not isinstance(k, (Idx, Plain))
               and type(k) is not object and k is not None]
    vprobes = [v for v in value_probes(vc)
               if not (py and py_known_difference(vc, v))]
    for cls in (Bucket, small(BTree)):
        c = cls()
        model = {}
        tag = '%s random' % cls.__name__
        for n in range(nops):
            if rng.random() < 0.8:
                k = good_key(kc, rng.randrange(40))
            else:
                k = rng.choice(kprobes)
            if rng.random() < 0.7:
                v = good_value(vc, rng.randrange(1000))
            else:
                v = rng.choice(vprobes)
            kok, _ = classify_key(kc, k)
            vok, stored, _ = classify_value(vc, v, is_c)
            if stored is None and vok and vc == 'F':
                stored = float(v)       # Python classes keep the double
                if same(stored, stored) is False:
                    continue
            op = rng.choice(('set', 'set', 'set', 'setdefault', 'del', 'pop'))
            try:
                hash(k)
            except TypeError:
                continue
            if op == 'set':
                got = outcome(c.__setitem__, k, v)
                if kok and vok:
                    model[k] = stored
                    want = ('ok', None)
                else:
                    want = ('TypeError',)
            elif op == 'setdefault':
                got = outcome(c.setdefault, k, v)
                if kok and vok:
                    want = ('ok', model.setdefault(k, stored))
                elif kok and is_c and k in model:
                    want = ('ok', model[k])     # value never converted
                else:
                    want = ('TypeError',)
            elif op == 'del':
                got = outcome(c.__delitem__, k)
                if not kok:
                    want = ('TypeError',)
                elif k in model:
                    del model[k]
                    want = ('ok', None)
                else:
                    want = ('KeyError', None)
            else:
                got = outcome(c.pop, k, 'D')
                if not kok:
                    want = ('TypeError',)
                else:
                    want = ('ok', model.pop(k, 'D'))
            if want == ('TypeError',):
                check(got[0] == 'TypeError', tag, n, op, repr(k), repr(v),
                      got)
            else:
                check(got[0] == want[0] and (
                    got[1] is want[1] or same(got[1], want[1]) or
                    (op == 'setdefault' and (got[1] is v or
                                             got[1] == want[1])) or
                    (is_c is False and vc == 'F')), tag, n, op, repr(k),
                    repr(v), got, want)
            if n % 50 == 0 or n == nops - 1:
                items = list(c.items())
                want_items = sorted(model.items())
                check(len(items) == len(want_items) and all(
                    a[0] == b[0] and (same(a[1], b[1]) or (
                        py and vc == 'F' and same(a[1], f32(b[1]))))
                    for a, b in zip(items, want_items)), tag,
                    'contents diverged at', n, items, want_items)
                if hasattr(c, '_check'):
                    c._check()


def main():
    rng = random.Random(0xC13 + 1)
    for fam in FAMILIES:
        for py in (False, True):
            section_values(fam, py)
            section_keys(fam, py)
            if not py:
                # (the Python classes activate the ghost while looking up
                # self._to_key, i.e. before converting; C converts first)
                section_ghost(fam, py)
            section_random(fam, py, rng, 4000 if not py else 800)
    section_refcounts()
    finish()


if __name__ == '__main__':
    main()
