"""Differential demo for refactoring u (Length.change and Length.__call__).

Run as:  PYTHONPATH=<tree>/src /venv/bin/python demo.py
Exits 0 when
  * change(delta) is exactly  ``self.value += delta``  (one attribute read,
    one in-place addition, one attribute write, in that order; nothing is
    written when the read or the addition fails), returns None, loads a ghost
    and registers the object with its jar exactly like an attribute store;
  * calling the object returns the stored object itself, ignores positional
    arguments, reads the attribute exactly once and never marks the object
    changed.
"""
import pickle
import random
import sys

from persistent import PickleCache

from BTrees.Length import Length

FAILS = []


def check(cond, what):
    if not cond:
        FAILS.append(what)
        print("FAIL:", what)


class Jar(object):
    """Tiny stand-in for a ZODB connection."""

    def __init__(self):
        self.store = {}
        self.setstates = []
        self.registered = []
        self._cache = PickleCache(self)
        self._n = 0

    def add(self, obj):
        self._n += 1
        oid = ('%08d' % self._n).encode('ascii')
        obj._p_jar = self
        obj._p_oid = oid
        self._cache[oid] = obj
        self.store[oid] = obj.__getstate__()
        obj._p_changed = False
        return oid

    def setstate(self, obj):
        self.setstates.append(obj._p_oid)
        obj.__setstate__(self.store[obj._p_oid])

    def register(self, obj):
        self.registered.append(obj._p_oid)

    def commit(self, obj):
        self.store[obj._p_oid] = obj.__getstate__()
        obj._p_changed = False

    def reset(self):
        del self.setstates[:]
        del self.registered[:]


LOG = []


class Boom(Exception):
    pass


class Tr(object):
    """Operand logging every arithmetic operation applied to it."""

    def __init__(self, name, inplace=True, fail=()):
        self.name = name
        self.inplace = inplace
        self.fail = fail

    def _do(self, op, other):
        oname = other.name if isinstance(other, Tr) else repr(other)
        LOG.append((op, self.name, oname))
        if op in self.fail:
            raise Boom(op)
        return Tr('%s(%s,%s)' % (op, self.name, oname), self.inplace)

    def __add__(self, other):
        return self._do('add', other)

    def __radd__(self, other):
        return self._do('radd', other)

    def __iadd__(self, other):
        if not self.inplace:
            return NotImplemented
        return self._do('iadd', other)


class Logged(Length):
    """Length whose ``value`` attribute is a logging property."""
    fail_get = False
    fail_set = False

    def _get(self):
        LOG.append(('get',))
        if self.fail_get:
            raise Boom('get')
        return self.__dict__.get('_cell', 0)

    def _set(self, v):
        LOG.append(('set', v))
        if self.fail_set:
            raise Boom('set')
        self.__dict__['_cell'] = v

    value = property(_get, _set)


def rand_int(rng):
    kind = rng.randrange(5)
    if kind == 0:
        return rng.randrange(-5, 6)
    if kind == 1:
        return rng.randrange(-2 ** 31, 2 ** 31)
    if kind == 2:
        return rng.randrange(-2 ** 64, 2 ** 64)
    if kind == 3:
        return rng.randrange(-2 ** 300, 2 ** 300)
    return rng.choice([0, 1, -1, sys.maxsize, -sys.maxsize - 1,
                       2 ** 63, 2 ** 64 - 1])


def main():
    rng = random.Random(1900191)

    class Sub(Length):
        def __getstate__(self):          # must not influence __call__
            raise AssertionError("__call__ must not go through __getstate__")

        def set(self, v):                # must not influence change
            raise AssertionError("change must not go through set")

    # ---- 1. randomized differential run against an int model -------------
    jar = Jar()
    cells = []
    for i in range(8):
        start = rand_int(rng)
        cls = (Length, Sub)[i % 2] if i < 6 else Length
        obj = cls(start)
        if i % 4 in (1, 2) and cls is Length:
            jar.add(obj)
        cells.append([obj, start])
    n_changes = 0
    for step in range(30000):
        cell = cells[rng.randrange(len(cells))]
        obj, model = cell
        op = rng.randrange(10)
        if op < 5:
            d = rand_int(rng)
            was_saved = obj._p_jar is not None
            before_reg = len(jar.registered)
            unchanged_before = was_saved and not obj._p_changed
            res = obj.change(d)
            n_changes += 1
            cell[1] = model = model + d
            check(res is None, "change returns None")
            if was_saved:
                check(obj._p_changed is True, "change marks changed")
                check(len(jar.registered) == before_reg +
                      (1 if unchanged_before else 0),
                      "registered once per transaction")
        elif op < 8:
            args = tuple(range(rng.randrange(4)))
            got = obj(*args)
            check(got == model and type(got) is int,
                  "call result %r != %r" % (got, model))
            check(got is obj.__dict__.get('value', 0) or got == 0,
                  "call returns the stored object")
        elif op == 8 and obj._p_jar is not None:
            jar.commit(obj)
            if rng.randrange(2):
                obj._p_deactivate()
                check(obj._p_state == -1, "deactivated")
                before = len(jar.setstates)
                if rng.randrange(2):
                    check(obj() == model, "ghost call loads state")
                    check(obj._p_changed is False, "call leaves it clean")
                else:
                    d = rand_int(rng)
                    obj.change(d)
                    cell[1] = model + d
                    check(obj._p_changed is True, "ghost change -> changed")
                check(len(jar.setstates) == before + 1,
                      "exactly one load of the ghost")
        elif op == 9 and type(obj) is Length:
            clone = pickle.loads(pickle.dumps(obj, rng.randrange(0, 6)))
            check(clone() == model, "pickle round trip")
    for obj, model in cells:
        check(obj() == model, "final value")
        check(obj.__dict__['value'] == model, "final instance attribute")
    check(n_changes > 10000, "enough changes exercised")
    check(Length.value == 0 and Sub.value == 0, "class default untouched")

    # ---- 2. persistence effects in detail --------------------------------
    jar = Jar()
    a = Length(10)
    oid = jar.add(a)
    check((a._p_state, jar.setstates, jar.registered) == (0, [], []), "setup")
    check(a() == 10 and a(1, 2, 3) == 10, "call, extra positional arguments")
    check((a._p_state, jar.registered) == (0, []), "call does not register")
    a.change(5)
    check((a._p_state, jar.setstates, jar.registered) == (1, [], [oid]),
          "change registers once: %r" % ((a._p_state, jar.registered),))
    a.change(-2)
    check(jar.registered == [oid] and a() == 13, "second change: no re-register")
    jar.commit(a)
    jar.reset()
    a._p_deactivate()
    check(a._p_state == -1 and 'value' not in a.__dict__, "ghost has no dict")
    a.change(7)
    check((a(), a._p_state, jar.setstates, jar.registered) ==
          (20, 1, [oid], [oid]), "ghost change: one load, one register")
    check(jar.store[oid] == 13, "store not written by change")
    jar.commit(a)
    jar.reset()

    # failing addition on a clean object: nothing written, nothing registered
    for bad in ['x', None, [1], (1,), object()]:
        try:
            a.change(bad)
        except TypeError:
            pass
        else:
            check(False, "change(%r) must raise TypeError" % (bad,))
    check((a(), a._p_state, jar.registered) == (20, 0, []),
          "failed change leaves a clean object clean")
    # failing addition on a ghost: it is loaded, but not registered
    a._p_deactivate()
    try:
        a.change('x')
    except TypeError:
        pass
    else:
        check(False, "ghost change('x') must raise")
    check((a._p_state, jar.setstates, jar.registered) == (0, [oid], []),
          "failed ghost change: loaded, clean, unregistered: %r"
          % ((a._p_state, jar.setstates, jar.registered),))
    check(a() == 20, "value after failed ghost change")
    # arity
    for args, kw in [((), {}), ((1, 2), {}), ((), {'d': 1})]:
        try:
            a.change(*args, **kw)
        except TypeError:
            pass
        else:
            check(False, "change%r%r must raise TypeError" % (args, kw))
    a.change(delta=4)
    check(a() == 24, "change(delta=...) keyword")
    try:
        a(x=1)
    except TypeError:
        pass
    else:
        check(False, "call with keyword must raise TypeError")
    try:
        a(*(), **{'args': ()})
    except TypeError:
        pass
    else:
        check(False, "call with keyword 'args' must raise TypeError")

    # ---- 3. bare instance: class-level default is the starting point -----
    b = Length.__new__(Length)
    check(b() == 0 and 'value' not in b.__dict__, "bare instance reads default")
    b.change(3)
    check(b.__dict__ == {'value': 3} and Length.value == 0,
          "change on bare instance writes the instance only")

    # ---- 4. in-place protocol --------------------------------------------
    lst = [1]
    c = Length(lst)
    c.change([2])
    check(c() is lst and lst == [1, 2], "list value extended in place")
    c.change((3,))                       # list += tuple works, list + tuple not
    check(c() is lst and lst == [1, 2, 3], "+= semantics, not +")
    tup = (1,)
    c = Length(tup)
    c.change((2,))
    check(c() == (1, 2) and c() is not tup and tup == (1,), "tuple rebinding")
    c = Length('ab')
    c.change('cd')
    check(c() == 'abcd', "str concatenation")
    c = Length(1.5)
    c.change(2)
    check(c() == 3.5 and type(c()) is float, "float")
    c = Length(True)
    c.change(True)
    check(c() == 2 and type(c()) is int, "bool")

    def run(obj, delta):
        del LOG[:]
        try:
            res = obj.change(delta)
            check(res is None, "change returns None (traced)")
            return 'ok', list(LOG)
        except Boom as e:
            return 'boom:%s' % e, list(LOG)

    c = Length(Tr('v'))
    check(run(c, 4) == ('ok', [('iadd', 'v', '4')]), "__iadd__ preferred")
    check(c().name == 'iadd(v,4)', "result of __iadd__ stored")
    c = Length(Tr('v', inplace=False))
    check(run(c, 4) == ('ok', [('add', 'v', '4')]),
          "__add__ when __iadd__ returns NotImplemented")
    c = Length(6)
    check(run(c, Tr('d')) == ('ok', [('radd', 'd', '6')]), "__radd__ of delta")
    check(c().name == 'radd(d,6)', "result of __radd__ stored")
    v = Tr('v', fail=('iadd',))
    c = Length(v)
    check(run(c, 4) == ('boom:iadd', [('iadd', 'v', '4')]), "failing __iadd__")
    check(c() is v, "value untouched after failing __iadd__")
    # the stored object is returned by identity
    marker = object()
    c = Length(marker)
    check(c() is marker and c(None) is marker, "call returns stored object")

    # ---- 5. attribute traffic (value as a logging property) --------------
    p = Logged.__new__(Logged)
    del LOG[:]
    check(p() == 0 and LOG == [('get',)], "call: exactly one read")
    del LOG[:]
    check(p(1, 2) == 0 and LOG == [('get',)], "call with args: one read")
    del LOG[:]
    check(p.change(5) is None and LOG == [('get',), ('set', 5)],
          "change: read then write: %r" % (LOG,))
    del LOG[:]
    p.change(2 ** 80)
    check(LOG == [('get',), ('set', 5 + 2 ** 80)], "change: big delta")
    del LOG[:]
    try:
        p.change('x')
    except TypeError:
        pass
    else:
        check(False, "Logged.change('x') must raise")
    check(LOG == [('get',)], "failed addition: no write: %r" % (LOG,))
    p.fail_get = True
    del LOG[:]
    try:
        p.change(1)
    except Boom:
        pass
    else:
        check(False, "failing read must propagate from change")
    check(LOG == [('get',)], "failing read: nothing else happens")
    del LOG[:]
    try:
        p()
    except Boom:
        pass
    else:
        check(False, "failing read must propagate from call")
    check(LOG == [('get',)], "failing read in call")
    p.fail_get = False
    p.fail_set = True
    del LOG[:]
    try:
        p.change(1)
    except Boom:
        pass
    else:
        check(False, "failing write must propagate from change")
    check(LOG == [('get',), ('set', 6 + 2 ** 80)], "failing write attempted once")
    p.fail_set = False
    check(p() == 5 + 2 ** 80, "value after failed write")
    # combination: traced value inside the logging property
    q = Logged.__new__(Logged)
    q.__dict__['_cell'] = Tr('v')
    del LOG[:]
    q.change(9)
    check([e[0] for e in LOG] == ['get', 'iadd', 'set'],
          "read, in-place add, write: %r" % (LOG,))

    # ---- 6. counter law through change on two copies ---------------------
    for i in range(2000):
        old = rand_int(rng)
        x = rand_int(rng)
        y = rand_int(rng)
        t1 = Length(old)
        t2 = Length(old)
        t1.change(x)
        t2.change(y)
        r = Length.__new__(Length)
        m1 = r._p_resolveConflict(old, t1(), t2())
        m2 = r._p_resolveConflict(old, t2(), t1())
        check(m1 == m2 == old + x + y, "counter law %r" % ((old, x, y),))

    if FAILS:
        print("%d check(s) failed" % len(FAILS))
        return 1
    print("demo u: OK")
    return 0


if __name__ == '__main__':
    sys.exit(main())
