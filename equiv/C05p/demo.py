# ---------------------------------------------------------------------------
# Shared harness: a ZODB-free object cache ("jar") for BTrees nodes.
#
# * Jar keeps the committed state of every persistent node (the tuples returned
#   by __getstate__, which reference the child nodes directly), hands out oids,
#   and owns a persistent.PickleCache, so nodes can really be turned into
#   ghosts (_p_deactivate) and are reloaded through Jar.setstate().
# * sweep() plays the role of cache.minimize(): it asks *every* node to become
#   a ghost.  Nodes that are pinned (sticky, _p_state == 2) or modified refuse.
# * K is an object key whose comparisons call a hook, so that a sweep (or an
#   exception) can be placed inside any key comparison of an operation.
# ---------------------------------------------------------------------------
import hashlib
import random
import sys

from persistent import Persistent, PickleCache

GHOST, UPTODATE, CHANGED, STICKY = -1, 0, 1, 2


class LoadFailure(Exception):
    """Raised by Jar.setstate() when a fault is injected."""


class CmpError(Exception):
    """Raised by K comparisons when a fault is injected."""


class Jar(object):

    def __init__(self):
        self.cache = PickleCache(self, 100000)
        self.states = {}
        self.order = []          # nodes, in oid order
        self.loads = 0
        self.fail_at = None      # fail the n-th load from now (1-based)
        self.log = []            # oids loaded, in order

    # -- data manager protocol used by persistent --------------------------
    def setstate(self, obj):
        self.loads += 1
        if self.fail_at is not None:
            self.fail_at -= 1
            if self.fail_at == 0:
                self.fail_at = None
                raise LoadFailure(obj._p_oid)
        self.log.append(obj._p_oid)
        obj.__setstate__(self.states[obj._p_oid])

    def register(self, obj):
        pass

    def readCurrent(self, obj):
        pass

    # -- "transaction" ------------------------------------------------------
    def commit(self, root):
        """Give oids to new nodes reachable from root, save changed states."""
        seen = set()
        todo = [root]
        while todo:
            o = todo.pop()
            if id(o) in seen:
                continue
            seen.add(id(o))
            new = o._p_jar is None
            if new:
                o._p_oid = (len(self.order) + 1).to_bytes(8, 'big')
                o._p_jar = self
                self.cache[o._p_oid] = o
                self.order.append(o)
            if o._p_state == GHOST and not new:
                st = self.states[o._p_oid]      # unchanged, do not load
            else:
                st = o.__getstate__()
                if new or o._p_changed:
                    self.states[o._p_oid] = st
                    o._p_changed = False
            stack = [st]
            while stack:
                s = stack.pop()
                if isinstance(s, tuple):
                    stack.extend(s)
                elif isinstance(s, Persistent):
                    todo.append(s)

    # -- cache control / observation ---------------------------------------
    def sweep(self):
        for o in self.order:
            o._p_deactivate()

    def states_vector(self):
        return tuple(o._p_state for o in self.order)

    def sticky(self):
        return [o._p_oid for o in self.order if o._p_state == STICKY]

    def lru(self):
        return tuple(oid for oid, _ in self.cache.lru_items())


class K(object):
    """Totally ordered object key; every comparison calls K.hook()."""
    __slots__ = ('v',)
    hook = None

    def __init__(self, v):
        self.v = v

    def _c(self, other):
        h = K.hook
        if h is not None:
            h()
        return other.v

    def __lt__(self, other):
        return self.v < self._c(other)

    def __le__(self, other):
        return self.v <= self._c(other)

    def __gt__(self, other):
        return self.v > self._c(other)

    def __ge__(self, other):
        return self.v >= self._c(other)

    def __eq__(self, other):
        if not isinstance(other, K):
            return NotImplemented
        return self.v == self._c(other)

    def __ne__(self, other):
        if not isinstance(other, K):
            return NotImplemented
        return self.v != self._c(other)

    def __hash__(self):
        return hash(self.v)

    def __repr__(self):
        return 'K(%r)' % (self.v,)


def plain(x):
    """Normalise a result so that it can be compared / hashed."""
    if isinstance(x, K):
        return ('K', x.v)
    if isinstance(x, (tuple, list)):
        return tuple(plain(y) for y in x)
    return x


def outcome(fn, *args):
    """('ok', result) or ('err', exception class name)."""
    try:
        return ('ok', plain(fn(*args)))
    except Exception as e:      # noqa
        return ('err', type(e).__name__)


class Trace(object):
    """Everything observed, folded into one digest."""

    def __init__(self):
        self.h = hashlib.sha256()
        self.n = 0

    def add(self, *things):
        self.n += 1
        self.h.update(repr(things).encode('ascii', 'backslashreplace'))
        self.h.update(b'\n')

    def digest(self):
        return self.h.hexdigest()[:24]


failures = []


def check(cond, *msg):
    if not cond:
        failures.append(msg)
        if len(failures) <= 20:
            print('FAIL:', *msg)


def small(cls, leaf=4, internal=4):
    """Subclass of a tree class with tiny nodes (=> deep trees)."""
    return type(cls)('Small' + cls.__name__, (cls,),
                     {'max_leaf_size': leaf, 'max_internal_size': internal})


def finish(trace, expected):
    d = trace.digest()
    print('observations: %d   digest: %s' % (trace.n, d))
    if expected is None:
        print('(no recorded digest)')
    else:
        check(d == expected, 'digest differs from the recorded one', expected)
    if failures:
        print('%d check(s) FAILED' % len(failures))
        sys.exit(1)
    print('OK')
    sys.exit(0)
# ---------------------------------------------------------------------------
# C05p: _BTree_get  (t[k], t.get(k), k in t, t.has_key(k)) under cache sweeps
# ---------------------------------------------------------------------------
from BTrees.OOBTree import OOBTree, OOTreeSet, OOBTreePy, OOTreeSetPy
from BTrees.IOBTree import IOBTree, IOTreeSet, IOBTreePy, IOTreeSetPy
from BTrees.LLBTree import LLBTree, LLBTreePy

EXPECTED_DIGEST = "df567f43976eb6aaf73b65a4"   # recorded with the unmodified sources

trace = Trace()
rng = random.Random(50505)


def build(cls, keys, mk):
    """A tree in a jar, an uncached C twin, and (maybe) a pure-Python twin."""
    is_set = 'Set' in cls.__name__
    t = small(cls)()
    twin = small(cls)()
    for k in keys:
        if is_set:
            t.add(mk(k)); twin.add(mk(k))
        else:
            t[mk(k)] = k * 10; twin[mk(k)] = k * 10
    jar = Jar()
    jar.commit(t)
    return t, twin, jar


def reads(mk, k, is_set, present):
    """The read-only operations that end up in _BTree_get, for key k."""
    ops = [
        ('in', lambda t: mk(k) in t),
        ('has_key', lambda t: t.has_key(mk(k))),
    ]
    if not is_set:
        ops += [
            ('getitem', lambda t: t[mk(k)]),
            ('get', lambda t: t.get(mk(k))),
            ('get_default', lambda t: t.get(mk(k), 'dflt')),
        ]
        # the two callers that let a TypeError for an unusable key through;
        # chosen so that they do not modify the tree
        if present:
            ops.append(('setdefault', lambda t: t.setdefault(mk(k), -7)))
        else:
            ops.append(('pop_default', lambda t: t.pop(mk(k), 'dflt')))
    return ops


def exercise(cls, pycls, keys, probe, mk, label):
    is_set = 'Set' in cls.__name__
    t, twin, jar = build(cls, keys, mk)
    pytwin = pycls()
    for k in keys:
        if is_set:
            pytwin.add(mk(k))
        else:
            pytwin[mk(k)] = k * 10
    model = dict((k, k * 10) for k in keys)
    nodes = len(jar.order)
    jar.sweep()
    refs0 = [sys.getrefcount(o) for o in jar.order]
    trace.add(label, 'nodes', nodes)

    # -- schedule A: everything evicted before every operation -------------
    # -- schedule C: a random subset evicted before every operation --------
    for schedule in ('all', 'random', 'none'):
        for k in probe:
            for name, op in reads(mk, k, is_set, k in model):
                if schedule == 'all':
                    jar.sweep()
                elif schedule == 'random':
                    for i in range(nodes):
                        if rng.random() < 0.5:
                            jar.order[i]._p_deactivate()
                before = jar.states_vector()
                got = outcome(op, t)
                want = outcome(op, twin)
                check(got == want, label, schedule, name, k, got, want)
                # independent model
                if isinstance(k, int) and abs(k) < 2 ** 31:
                    if name == 'in':
                        check(got == ('ok', k in model), label, name, k, got)
                    elif name == 'has_key':
                        check(got == ('ok', k in model), label, name, k, got)
                    elif name == 'setdefault':
                        check(got == ('ok', model[k]), label, name, k, got)
                    elif name == 'pop_default':
                        check(got == ('ok', 'dflt'), label, name, k, got)
                    elif name == 'getitem':
                        exp = ('ok', model[k]) if k in model else ('err', 'KeyError')
                        check(got == exp, label, name, k, got, exp)
                    elif name == 'get':
                        check(got == ('ok', model.get(k)), label, name, k, got)
                    elif name == 'get_default':
                        check(got == ('ok', model.get(k, 'dflt')), label, name, k, got)
                check(got == outcome(op, pytwin), label, 'py', name, k, got)
                check(not jar.sticky(), label, schedule, name, k,
                      'pinned after return', jar.sticky())
                if schedule == 'all':
                    # only the nodes on the search path were loaded
                    check(all(b == GHOST for b in before), 'not all ghosts')
                trace.add(label, schedule, name, plain(k), got,
                          jar.states_vector(), jar.lru())

    # -- schedule B: a sweep inside every key comparison -------------------
    if mk is K:
        seen = []

        def hook():
            jar.sweep()
            seen.append(jar.states_vector())
        for k in probe:
            if not isinstance(k, int):
                continue
            for name, op in reads(mk, k, is_set, k in model):
                jar.sweep()
                del seen[:]
                K.hook = hook
                try:
                    got = outcome(op, t)
                finally:
                    K.hook = None
                want = outcome(op, twin)
                check(got == want, label, 'B', name, k, got, want)
                check(seen or not keys, label, 'no comparison ran?')
                # while a comparison runs exactly one node is protected
                for v in seen:
                    # (a BTree node, or the lowest BTree node and its bucket)
                    check(set(v) <= {GHOST, STICKY} and
                          v.count(STICKY) in (1, 2), label, 'B', name, k, v)
                check(not jar.sticky(), label, 'B', name, k, 'pinned')
                trace.add(label, 'B', name, k, got, tuple(seen),
                          jar.states_vector(), jar.lru())

        # -- schedule D: the n-th comparison raises ------------------------
        for k in probe:
            if not isinstance(k, int):
                continue
            for name, op in reads(mk, k, is_set, k in model):
                n = 0
                while True:
                    n += 1
                    count = [0]

                    def hook():
                        count[0] += 1
                        jar.sweep()
                        if count[0] == n:
                            raise CmpError()
                    jar.sweep()
                    K.hook = hook
                    try:
                        got = outcome(op, t)
                    finally:
                        K.hook = None
                    check(not jar.sticky(), label, 'D', name, k, n, 'pinned')
                    trace.add(label, 'D', name, k, n, got,
                              jar.states_vector(), jar.lru())
                    if count[0] < n:
                        check(got == outcome(op, twin), label, 'D', name, k)
                        break
                    check(got == ('err', 'CmpError'), label, 'D', name, k, n, got)

    # -- schedule E: the n-th reload fails ---------------------------------
    for k in probe[:6]:
        for name, op in reads(mk, k, is_set, k in model):
            n = 0
            while True:
                n += 1
                jar.sweep()
                jar.fail_at = n
                got = outcome(op, t)
                fired = jar.fail_at is None
                jar.fail_at = None
                check(not jar.sticky(), label, 'E', name, k, n, 'pinned',
                      jar.sticky())
                trace.add(label, 'E', name, plain(k), n, got,
                          jar.states_vector(), jar.lru())
                if not fired:
                    check(got == outcome(op, twin), label, 'E', name, k, got)
                    break
                if got[0] == 'err' and got[1] != 'LoadFailure':
                    # key conversion fails before any node is loaded
                    check(got == outcome(op, twin), label, 'E', name, k, got)
                    break
                check(got == ('err', 'LoadFailure'), label, 'E', name, k, n, got)

    # nothing leaked, nothing changed
    jar.sweep()
    check(all(s == GHOST for s in jar.states_vector()), label, 'not evictable')
    refs1 = [sys.getrefcount(o) for o in jar.order]
    check(refs0 == refs1, label, 'node reference counts changed',
          [(i, a, b) for i, (a, b) in enumerate(zip(refs0, refs1)) if a != b])
    check(outcome(list, t.keys()) == outcome(list, twin.keys()), label, 'keys')
    t._check()


big = list(range(0, 200, 2))                 # 4 levels with 4-way nodes
probe_int = [-1, 0, 1, 2, 56, 57, 100, 101, 198, 199, 500]
exercise(OOBTree, OOBTreePy, big, probe_int, K, 'OO-deep')
exercise(OOBTree, OOBTreePy, [2, 4, 6], [1, 2, 5, 6, 7], K, 'OO-one-bucket')
exercise(OOBTree, OOBTreePy, [], [1], K, 'OO-empty')
exercise(OOBTree, OOBTreePy, list(range(10)), [0, 3, 9, 10], K, 'OO-two-level')
exercise(OOTreeSet, OOTreeSetPy, big, [0, 1, 100, 199], K, 'OOTreeSet')
ident = lambda k: k     # noqa
# integer keys: unusable keys ('x', None, 1.5, 2**40 for 32-bit keys)
bad = ['x', None, 1.5, 2 ** 40, -2 ** 40]
exercise(IOBTree, IOBTreePy, big, probe_int + bad, ident, 'IO-deep')
exercise(IOBTree, IOBTreePy, [], [1, 'x'], ident, 'IO-empty')
exercise(IOTreeSet, IOTreeSetPy, big, [0, 1, 198, 'x', 2 ** 40], ident, 'IOTreeSet')
exercise(LLBTree, LLBTreePy, big, [0, 1, 2 ** 40, 2 ** 70, 'x'], ident, 'LL-deep')

finish(trace, EXPECTED_DIGEST)
