"""Differential demo for refactoring u (C06): the C leaf state functions
(``bucket_getstate``, ``_bucket_setstate`` / ``bucket_setstate``,
``_set_setstate`` / ``set_setstate``).

Run as:  PYTHONPATH=<tree>/src /venv/bin/python demo.py

Exits 0 iff every check holds.  Everything is seeded; no network, no ZODB.

Part 1  randomized histories on small-node C and pure-Python trees of all
        22 families, both kinds, compared with a dict/set model: states,
        __setstate__, pickles (protocols 0..5), copies, C<->Python; every
        tree state and pickle goes through the leaf functions (embedded
        leaves, leaf chains).
Part 2  the C leaves (Bucket and Set of all 22 families) on their own: exact
        state layout and element types against a plain model and against
        the Python leaves, next pointers, __setstate__ on fresh and on
        populated leaves, native conversions and their limits, malformed
        states, conversion failures at every position, exact reference
        counts.
Part 3  ghosts: a stand-in jar reloads trees and leaves via __setstate__.
"""
import copy
import gc
import io
import pickle
import random
import sys

import BTrees
from BTrees import check as btcheck

FAMILIES = (
    'OO', 'OI', 'OU', 'OL', 'OQ',
    'II', 'IO', 'IF', 'IU',
    'LL', 'LO', 'LF', 'LQ',
    'UU', 'UO', 'UF', 'UI',
    'QQ', 'QO', 'QF', 'QL',
    'fs',
)

CHECKS = [0]


def ok(cond, *what):
    CHECKS[0] += 1
    if not cond:
        raise AssertionError(' '.join(str(w) for w in what))


def mod(fam):
    return getattr(__import__('BTrees.%sBTree' % fam), '%sBTree' % fam)


# --------------------------------------------------------------------------
# key / value generators per family letter
# --------------------------------------------------------------------------

def gen_key(fam, rnd, span):
    c = fam[0]
    if fam == 'fs':
        n = rnd.randrange(span)
        return bytes((65 + n // 26 % 26, 65 + n % 26))
    if c == 'O':
        return rnd.randrange(-span, span)
    if c in 'IL':
        return rnd.randrange(-span, span)
    return rnd.randrange(0, 2 * span)      # U, Q


def gen_value(fam, rnd):
    c = fam[1]
    if fam == 'fs':
        return bytes(rnd.randrange(97, 123) for _ in range(6))
    if c == 'O':
        return rnd.choice((None, 'v%d' % rnd.randrange(50), rnd.randrange(9),
                           (1, 2), 2.5))
    if c == 'F':
        return rnd.randrange(-64, 64) * 0.25    # exact in a C float
    if c in 'IL':
        return rnd.randrange(-1000, 1000)
    return rnd.randrange(0, 2000)


def bad_key(fam):
    """A key the family's native conversion must refuse (None: no such)."""
    if fam == 'fs':
        return b'abc'
    if fam[0] == 'O':
        return None
    return 'not-an-int'


# --------------------------------------------------------------------------
# small-node subclasses, importable from __main__ so that they pickle
# --------------------------------------------------------------------------

SMALL = {}
SAVED_SIZES = []


def shrink_nodes():
    """Small nodes on the stock classes (both implementations read the sizes
    from the class), so that a few dozen keys give three-level trees that
    still pickle under the stock names.  Undone by restore_nodes()."""
    for fam in FAMILIES:
        m = mod(fam)
        for kind in ('BTree', 'TreeSet'):
            for suffix in ('', 'Py'):
                cls = getattr(m, fam + kind + suffix)
                SAVED_SIZES.append(
                    (cls, cls.max_leaf_size, cls.max_internal_size))
                cls.max_leaf_size = 4
                cls.max_internal_size = 3


def restore_nodes():
    while SAVED_SIZES:
        cls, leaf, internal = SAVED_SIZES.pop()
        cls.max_leaf_size = leaf
        cls.max_internal_size = internal


def small(fam, kind, impl):
    """impl 'C' (stock C class), 'P' (stock Python class) or 'S' (a subclass
    of the C class); kind 'BTree' or 'TreeSet'.  Needs shrink_nodes()."""
    m = mod(fam)
    if impl == 'C':
        return getattr(m, fam + kind)
    if impl == 'P':
        return getattr(m, fam + kind + 'Py')
    key = (fam, kind)
    if key not in SMALL:
        name = 'Sub_%s%s' % (fam, kind)
        cls = type(name, (getattr(m, fam + kind),), {})
        globals()[name] = cls
        SMALL[key] = cls
    return SMALL[key]


class CrossUnpickler(pickle.Unpickler):
    """Loads a pickle that names the C classes into the Python classes."""

    def find_class(self, module, name):
        if module.startswith('BTrees.') and not name.endswith('Py'):
            return getattr(sys.modules[module], name + 'Py')
        return super().find_class(module, name)


def loads_as_python(data):
    return CrossUnpickler(io.BytesIO(data)).load()


# --------------------------------------------------------------------------
# observations
# --------------------------------------------------------------------------

def contents(t, is_map):
    return list(t.items()) if is_map else list(t.keys())


def model_contents(model, is_map):
    if is_map:
        return sorted(model.items())
    return sorted(model)


def is_tree(o):
    return hasattr(o, '_check') and hasattr(o, '_firstbucket') or \
        type(o).__name__.endswith(('BTree', 'TreeSet', 'BTreePy',
                                   'TreeSetPy'))


def shape(o, is_map, seen=None):
    """Implementation-independent description of a node and all below it."""
    s = o.__getstate__()
    tn = type(o).__name__
    if tn.endswith('Py'):
        tn = tn[:-2]
    if tn.endswith(('Bucket', 'Set')) and not tn.endswith('TreeSet'):
        return (tn, s[0], len(s))
    if s is None:
        return (tn, None)
    if len(s) == 1:
        ok(type(s[0]) is tuple and len(s[0]) == 1, 'embedded form', s)
        leaf = s[0][0]
        # (an interior node with a single leaf embeds it too, next included)
        ok(type(leaf) is tuple and len(leaf) in (1, 2), 'embedded leaf', s)
        return (tn, 'embedded', leaf[0], len(leaf))
    ok(len(s) == 2 and len(s[0]) % 2 == 1, 'normal form', s)
    kids = [shape(c, is_map) for c in s[0][0::2]]
    return (tn, s[0][1::2], kids)


def interior_embedded(sh, top=True):
    """Does some node below the root use the embedded form?  Pickled outside
    a database such a tree reloads with two copies of that leaf (one in the
    leaf chain, one under the node), see notes.md; the demo then only
    compares contents and shapes of reloaded copies."""
    if len(sh) == 4 and sh[1] == 'embedded':
        return not top
    if len(sh) == 3 and type(sh[2]) is list:
        return any(interior_embedded(k, False) for k in sh[2])
    return False


def first_leaf(t):
    s = t.__getstate__()
    while True:
        if s is None or len(s) == 1:
            return None
        c = s[0][0]
        cs = c.__getstate__()
        tn = type(c).__name__
        if 'Bucket' in tn or (tn.endswith(('Set', 'SetPy'))
                              and 'TreeSet' not in tn):
            return c
        if cs is None or len(cs) == 1:
            return None
        s = cs


def check_state_form(t, model):
    s = t.__getstate__()
    if not model:
        ok(s is None, 'empty tree state', s)
        return 'none'
    ok(type(s) is tuple, 'state type', s)
    if len(s) == 1:
        return 'embedded'
    ok(len(s) == 2, 'state length', s)
    items, fb = s
    ok(type(items) is tuple and len(items) % 2 == 1, 'items', items)
    leaf = first_leaf(t)
    if leaf is not None:
        ok(fb is leaf, 'firstbucket is the leftmost leaf')
    return 'normal'


def sound(t, base_check):
    t._check()
    if base_check or type(t) in btcheck._type2kind:
        btcheck.check(t)


def apply_ops(t, model, is_map, fam, rnd, n, span):
    for _ in range(n):
        k = gen_key(fam, rnd, span)
        r = rnd.random()
        if r < 0.6:
            if is_map:
                v = gen_value(fam, rnd)
                t[k] = v
                model[k] = v
            else:
                t.add(k)
                model.add(k)
        else:
            if is_map:
                if k in model:
                    del t[k]
                    del model[k]
                else:
                    ok(k not in t, 'absent', k)
            else:
                if k in model:
                    t.remove(k)
                    model.discard(k)
                else:
                    ok(k not in t, 'absent', k)


FORMS_SEEN = {}
TWINS = [0]


def checkpoint(fam, kind, trees, model, is_map, rnd, span):
    want = model_contents(model, is_map)
    shapes = {}
    pickles = {}
    for impl, t in trees.items():
        cls = type(t)
        ok(contents(t, is_map) == want, fam, kind, impl, 'contents')
        sound(t, False)
        form = check_state_form(t, model)
        FORMS_SEEN[(kind, impl, form)] = FORMS_SEEN.get(
            (kind, impl, form), 0) + 1
        shapes[impl] = shape(t, is_map)
        twin_leaf = interior_embedded(shapes[impl])
        TWINS[0] += twin_leaf
        state = t.__getstate__()

        # __setstate__ on a fresh tree and on a populated one
        fresh = cls()
        ok(fresh.__setstate__(state) is None, '__setstate__ returns None')
        ok(contents(fresh, is_map) == want, fam, kind, impl, 'fresh')
        ok(len(fresh) == len(want), 'len')
        sound(fresh, False)
        used = cls()
        apply_ops(used, set() if not is_map else {}, is_map, fam,
                  random.Random(5), 30, span)
        used.__setstate__(state)
        ok(contents(used, is_map) == want, fam, kind, impl, 'populated')
        sound(used, False)
        ok(shape(used, is_map) == shapes[impl], 'state reproduced')
        used.__setstate__(None)
        ok(len(used) == 0 and used.__getstate__() is None, 'None state')
        # (fresh shares its children with t unless embedded: drop it now)
        del fresh, used

        # pickles, all protocols
        per_proto = []
        for proto in range(0, pickle.HIGHEST_PROTOCOL + 1):
            data = pickle.dumps(t, proto)
            per_proto.append(data)
            t2 = pickle.loads(data)
            ok(type(t2) is (cls if impl != 'P' else type(trees['C'])),
               'class kept (Python pickles load as C)')
            ok(contents(t2, is_map) == want, fam, kind, impl, proto)
            if not twin_leaf:
                sound(t2, False)
            ok(shape(t2, is_map) == shapes[impl], 'shape kept', proto)
            if not twin_leaf and impl != 'P':
                ok(pickle.dumps(t2, proto) == data, 'pickle stable', proto)
        pickles[impl] = per_proto
        # a loaded copy is fully usable
        t3 = pickle.loads(per_proto[rnd.randrange(len(per_proto))])
        m3 = copy.copy(model)
        r3 = random.Random(rnd.random())
        if not twin_leaf:
            apply_ops(t3, m3, is_map, fam, r3, 40, span)
            ok(contents(t3, is_map) == model_contents(m3, is_map), 'usable')
            sound(t3, False)
        ok(contents(t, is_map) == want, 'original untouched')

        # copies
        # (copy.copy of a multi-bucket Python tree is not attempted: it
        # builds a C tree around the Python children, see notes.md)
        if impl != 'P' or form != 'normal':
            cp = copy.copy(t)
            ok(contents(cp, is_map) == want, 'copy.copy')
            ok(shape(cp, is_map)[1:] == shapes[impl][1:], 'copy.copy shape')
            del cp
        d = copy.deepcopy(t)
        ok(contents(d, is_map) == want and shape(d, is_map) == shapes[impl],
           'copy.deepcopy')
        if not twin_leaf:
            sound(d, False)

    # the two implementations agree
    ok(shapes['C'] == shapes['P'], fam, kind, 'same shape C / Python')
    twin = interior_embedded(shapes['C'])
    for proto, (a, b) in enumerate(zip(pickles['C'], pickles['P'])):
        # (fs: the Python tree shares one bytes object between a separator
        # and the leaf key it was copied from, which pickle memoizes; the C
        # tree makes new bytes objects.  See notes.md.)
        if fam != 'fs' or len(shapes['C']) != 3:
            ok(a == b, fam, kind, 'byte-identical pickles', proto)
        # Python loads C's pickle, C loads Python's
        p = loads_as_python(a)
        ok(type(p) is type(trees['P']), 'loaded as Python', type(p))
        ok(contents(p, is_map) == want, 'C -> Python', proto)
        if not twin:
            sound(p, False)
        c = pickle.loads(b)
        ok(type(c) is type(trees['C']), 'loaded as C', type(c))
        ok(contents(c, is_map) == want, 'Python -> C', proto)
        if not twin:
            sound(c, False)


def part1():
    for fi, fam in enumerate(FAMILIES):
        for kind in ('BTree', 'TreeSet'):
            is_map = kind == 'BTree'
            rnd = random.Random(1000 * fi + len(kind))
            span = 40 if fam != 'fs' else 120
            trees = dict((i, small(fam, kind, i)()) for i in 'CPS')
            models = dict((i, {} if is_map else set()) for i in 'CPS')
            checkpoint(fam, kind, trees, models['C'], is_map, rnd, span)
            # grow through the three forms, then shrink back through them
            for phase, (n, bias) in enumerate(
                    ((3, 1.0), (6, 1.0), (40, 0.8), (60, 0.6),
                     (60, 0.15), (60, 0.05))):
                seed = rnd.random()
                for impl in 'CPS':
                    r2 = random.Random(seed)
                    t, model = trees[impl], models[impl]
                    for _ in range(n):
                        k = gen_key(fam, r2, span)
                        if r2.random() < bias:
                            if is_map:
                                v = gen_value(fam, r2)
                                t[k] = v
                                model[k] = v
                            else:
                                t.add(k)
                                model.add(k)
                        elif k in model:
                            if is_map:
                                del t[k]
                                del model[k]
                            else:
                                t.remove(k)
                                model.discard(k)
                ok(models['C'] == models['P'] == models['S'], 'same history')
                checkpoint(fam, kind, trees, models['C'], is_map, rnd, span)
            # drain completely: back to the None form
            for impl in 'CPS':
                for k in list(models[impl]):
                    if is_map:
                        del trees[impl][k]
                    else:
                        trees[impl].remove(k)
                models[impl].clear()
            checkpoint(fam, kind, trees, models['C'], is_map, rnd, span)



def part1_stock_sizes():
    for fam in ('OO', 'IO', 'LF', 'QQ', 'fs'):
        m = mod(fam)
        for kind in ('BTree', 'TreeSet'):
            is_map = kind == 'BTree'
            rnd = random.Random(fam + kind)
            c = getattr(m, fam + kind)()
            p = getattr(m, fam + kind + 'Py')()
            model = {} if is_map else set()
            for _ in range(700):
                k = gen_key(fam, rnd, 2000)
                if is_map:
                    v = gen_value(fam, rnd)
                    c[k] = v
                    p[k] = v
                    model[k] = v
                else:
                    c.add(k)
                    p.add(k)
                    model.add(k)
            want = model_contents(model, is_map)
            for proto in range(pickle.HIGHEST_PROTOCOL + 1):
                a = pickle.dumps(c, proto)
                b = pickle.dumps(p, proto)
                ok(a == b, fam, kind, 'base classes: identical pickles')
                for t in (pickle.loads(a), loads_as_python(a)):
                    ok(contents(t, is_map) == want, 'base reload')
                    sound(t, True)
            s = c.__getstate__()
            ok(len(s) == (2 if fam != 'fs' else 1), 'multi-bucket base tree')
            again = type(c)()
            again.__setstate__(s)
            sound(again, True)
            ok(contents(again, is_map) == want, 'base setstate')


# --------------------------------------------------------------------------
# Part 2: hand-built states for the C tree __setstate__
# --------------------------------------------------------------------------

def raises(exc, msg, f, *a):
    try:
        f(*a)
    except exc as e:
        ok(type(e) is exc, 'exact exception type', type(e), exc)
        if msg is not None:
            ok(str(e) == msg, 'message', repr(str(e)), 'expected', repr(msg))
        return e
    raise AssertionError('%r not raised by %r%r' % (exc, f, a))


def rc(o):
    return sys.getrefcount(o)


def empty_and_usable(t, fam, is_map):
    ok(len(t) == 0 and not t and t.__getstate__() is None, 'left empty')
    ok(contents(t, is_map) == [], 'left empty (iteration)')
    k = gen_key(fam, random.Random(3), 10)
    if is_map:
        v = gen_value(fam, random.Random(4))
        t[k] = v
        ok(list(t.items()) == [(k, v)], 'usable after failure')
    else:
        t.add(k)
        ok(list(t.keys()) == [k], 'usable after failure')
    t._check()
    t.clear()


def keys3(fam):
    if fam == 'fs':
        return b'aa', b'mm', b'zz'
    if fam[0] in 'UQ':
        return 1, 50, 90
    return -7, 50, 90


def good_values(fam, rnd, n):
    return [gen_value(fam, rnd) for _ in range(n)]


def sorted_keys(fam, rnd, n, span=400):
    ks = set()
    while len(ks) < n:
        ks.add(gen_key(fam, rnd, span))
    return sorted(ks)


def native(fam, letter_index, x):
    """What the C leaf gives back for a stored x."""
    if fam == 'fs':
        return x
    c = fam[letter_index]
    if c == 'O':
        return x
    if c == 'F':
        return float(x)
    return int(x)


def exact_type(fam, letter_index):
    if fam == 'fs':
        return bytes
    return {'O': None, 'F': float}.get(fam[letter_index], int)


def bad_value(fam):
    if fam == 'fs':
        return b'short'
    if fam[1] == 'O':
        return None
    return 'not-a-number'


def part2():
    for fi, fam in enumerate(FAMILIES):
        m = mod(fam)
        for leafkind in ('Bucket', 'Set'):
            is_map = leafkind == 'Bucket'
            L = getattr(m, fam + leafkind)
            P = getattr(m, fam + leafkind + 'Py')
            rnd = random.Random(77 * fi + len(leafkind))
            stride = 2 if is_map else 1

            def interleave(ks, vs):
                if not is_map:
                    return tuple(ks)
                out = []
                for k, v in zip(ks, vs):
                    out.append(k)
                    out.append(v)
                return tuple(out)

            def fill(cls, ks, vs):
                b = cls()
                for k, v in zip(ks, vs):
                    if is_map:
                        b[k] = v
                    else:
                        b.add(k)
                return b

            for n in (0, 1, 2, 3, 7, 16, 17, 33, 64, 150):
                ks = sorted_keys(fam, rnd, n)
                vs = good_values(fam, rnd, n)
                want_items = interleave(ks, vs)
                c = fill(L, ks, vs)
                p = fill(P, ks, vs)

                # --- __getstate__: exact layout, exact element types
                s = c.__getstate__()
                ok(type(s) is tuple and len(s) == 1, 'no next: 1-tuple', s)
                ok(type(s[0]) is tuple and len(s[0]) == n * stride, 'items')
                ok(s[0] == want_items, fam, leafkind, 'items', s[0])
                for j, x in enumerate(s[0]):
                    et = exact_type(fam, j % stride if is_map else 0)
                    if et is not None:
                        ok(type(x) is et, 'native element type', type(x))
                    else:
                        ok(x is want_items[j], 'object kept by identity')
                ok(s == p.__getstate__(), 'same state as Python', fam)
                ok(c.__getstate__() == s and c.__getstate__() is not s,
                   'a new state each time')
                for proto in range(pickle.HIGHEST_PROTOCOL + 1):
                    a = pickle.dumps(c, proto)
                    ok(a == pickle.dumps(p, proto), 'identical pickles',
                       fam, leafkind, n, proto)
                    c2 = pickle.loads(a)
                    ok(type(c2) is L and c2.__getstate__() == s, 'reload')
                    p2 = loads_as_python(a)
                    ok(type(p2) is P and p2.__getstate__() == s, 'as Python')
                    ok(pickle.dumps(c2, proto) == a, 'stable')
                for cp in (copy.copy(c), copy.deepcopy(c)):
                    ok(type(cp) is L and cp.__getstate__() == s, 'copy')
                    if n:
                        k0 = ks[0]
                        if is_map:
                            del cp[k0]
                        else:
                            cp.remove(k0)
                        ok(len(cp) == n - 1 and len(c) == n, 'independent')

                # --- __setstate__ on fresh and on populated leaves
                for target in (L(), fill(L, sorted_keys(fam, rnd, 5),
                                         good_values(fam, rnd, 5)),
                               fill(L, sorted_keys(fam, rnd, 90),
                                    good_values(fam, rnd, 90))):
                    ok(target.__setstate__(s) is None, 'returns None')
                    ok(target.__getstate__() == s, 'state reproduced')
                    ok(len(target) == n and list(target.keys()) == ks, 'keys')
                    if is_map:
                        ok(list(target.values()) ==
                           [native(fam, 1, v) for v in vs], 'values')
                    # usable: search, insert, delete
                    for k in ks:
                        ok(k in target, 'has key')
                    extra = gen_key(fam, rnd, 400)
                    if is_map:
                        ev = gen_value(fam, rnd)
                        target[extra] = ev
                        ok(target[extra] == ev, 'insert after setstate')
                    else:
                        target.add(extra)
                    ok(list(target.keys()) == sorted(set(ks) | {extra}),
                       'sorted after insert')
                    if extra not in ks:
                        if is_map:
                            del target[extra]
                        else:
                            target.remove(extra)
                        ok(target.__getstate__() == s, 'back')
                    target.__setstate__(((),))
                    ok(len(target) == 0 and target.__getstate__() == ((),),
                       'emptied by an empty state')

                # --- next pointer
                nxt = fill(L, sorted_keys(fam, rnd, 2), good_values(fam, rnd, 2))
                r0 = rc(nxt)
                c.__setstate__((s[0], nxt))
                ok(rc(nxt) == r0 + 1, 'next referenced once')
                s2 = c.__getstate__()
                ok(len(s2) == 2 and s2[0] == s[0] and s2[1] is nxt, 'next')
                del s2
                ok(rc(nxt) == r0 + 1, 'state released')
                pn = P()
                p.__setstate__((s[0], pn))
                ps = p.__getstate__()
                ok(len(ps) == 2 and ps[0] == s[0] and ps[1] is pn, 'py next')
                c.__setstate__(s)                       # next dropped again
                ok(rc(nxt) == r0 and c.__getstate__() == s, 'next released')
                c.__setstate__((s[0], nxt))
                del c
                ok(rc(nxt) == r0, 'next released on dealloc')

            # --- conversions done by __setstate__
            if fam != 'fs':
                c = L()
                if fam[0] != 'O':
                    items = interleave([False, True, 7], [1, 2, 3]
                                       if fam[1] != 'O' else ['a', 'b', 'c'])
                    c.__setstate__((items,))
                    got = c.__getstate__()[0]
                    ok(got[0::stride] == (0, 1, 7) and
                       all(type(k) is int for k in got[0::stride]), 'bool keys')
                if is_map and fam[1] == 'F':
                    ks = sorted_keys(fam, rnd, 3)
                    c.__setstate__((interleave(ks, [1, 2.5, True]),))
                    got = c.__getstate__()[0][1::2]
                    ok(got == (1.0, 2.5, 1.0) and
                       all(type(v) is float for v in got), 'float values')
                if is_map and fam[1] in 'ILUQ':
                    ks = sorted_keys(fam, rnd, 2)
                    big = 2 ** 31 - 1 if fam[1] == 'I' else (
                        2 ** 32 - 1 if fam[1] == 'U' else (
                            2 ** 63 - 1 if fam[1] == 'L' else 2 ** 64 - 1))
                    c.__setstate__((interleave(ks, [0, big]),))
                    ok(c.__getstate__()[0][1::2] == (0, big), 'extreme value')
                    raises(TypeError, None, c.__setstate__,
                           (interleave(ks, [0, big + 1]),))
                    ok(len(c) == 0, 'left empty')
                    if fam[1] in 'UQ':
                        raises(TypeError, None, c.__setstate__,
                               (interleave(ks, [0, -1]),))
                    else:
                        c.__setstate__((interleave(ks, [0, -big - 1]),))
                        ok(c.__getstate__()[0][3] == -big - 1, 'most negative')
                if fam[0] in 'ILUQ':
                    big = 2 ** 31 - 1 if fam[0] == 'I' else (
                        2 ** 32 - 1 if fam[0] == 'U' else (
                            2 ** 63 - 1 if fam[0] == 'L' else 2 ** 64 - 1))
                    vs = good_values(fam, rnd, 2)
                    c.__setstate__((interleave([3, big], vs),))
                    ok(c.__getstate__()[0][0::stride] == (3, big), 'big key')
                    raises(TypeError, None, c.__setstate__,
                           (interleave([3, big + 1], vs),))
                    ok(len(c) == 0 and c.__getstate__() == ((),), 'left empty')
                    if fam[0] in 'UQ':
                        raises(TypeError, None, c.__setstate__,
                               (interleave([-1, 3], vs),))
                    else:
                        c.__setstate__((interleave([-big - 1, 3], vs),))
                        ok(c.__getstate__()[0][0] == -big - 1, 'min key')

            # --- malformed states
            ks = sorted_keys(fam, rnd, 4)
            vs = good_values(fam, rnd, 4)
            full = (interleave(ks, vs),)
            c = fill(L, ks, vs)
            raises(SystemError, None, c.__setstate__, None)
            raises(SystemError, None, c.__setstate__, 5)
            raises(SystemError, None, c.__setstate__, [full[0]])
            pre = '__setstate__()' if is_map else 'function'
            raises(TypeError, pre + ' takes at least 1 argument (0 given)',
                   c.__setstate__, ())
            raises(TypeError, pre + ' takes at most 2 arguments (3 given)',
                   c.__setstate__, (full[0], L(), L()))
            for notatuple in (None, 5, list(full[0]), 'ab', L()):
                raises(TypeError, 'tuple required for first state element',
                       c.__setstate__, (notatuple,))
                raises(TypeError, 'tuple required for first state element',
                       c.__setstate__, (notatuple, L()))
            # all of these are refused before the leaf is touched
            ok(c.__getstate__() == full, 'contents kept')
            raises(TypeError, None, c.__setstate__)
            raises(TypeError, None, c.__setstate__, full, full)
            ok(c.__getstate__() == full, 'contents kept')
            if is_map:
                # a trailing key without a value is dropped
                c.__setstate__((full[0] + (ks[0],),))
                ok(c.__getstate__() == full, 'odd length')
                c.__setstate__((full[0][:1],))
                ok(c.__getstate__() == ((),), 'single element: empty')

            # --- conversion failures at every position: the leaf is left
            # empty and usable; the references taken before the failure are
            # measured (they are the same on both trees)
            bk = bad_key(fam)
            bv = bad_value(fam) if is_map else None
            for pos in range(4):
                for which, bad in (('key', bk), ('value', bv)):
                    if bad is None:
                        continue
                    obj_vals = is_map and fam[1] == 'O'
                    # (fresh, unshared objects where references are counted)
                    vs1 = [('probe', leafkind, which, pos, j)
                           for j in range(4)] if obj_vals else list(vs)
                    ks2, vs2 = list(ks), list(vs1)
                    if which == 'key':
                        ks2[pos] = bad
                    else:
                        vs2[pos] = bad
                    c = fill(L, ks, vs1)
                    nxt = L()
                    rn = rc(nxt)
                    r0 = [rc(x) for x in vs1]
                    raises(TypeError, None, c.__setstate__,
                           (interleave(ks2, vs2), nxt))
                    ok(rc(nxt) == rn, 'next not taken on failure')
                    ok(len(c) == 0 and c.__getstate__() == ((),)
                       and list(c.keys()) == [], 'left empty', fam)
                    r1 = [rc(x) for x in vs1]
                    if obj_vals:
                        # the old contents are gone (-1 each); the values
                        # converted before the bad key stay referenced (+1)
                        kept = [r1[j] - r0[j] + 1 for j in range(4)]
                        LEAKS.setdefault('object-valued Bucket, bad key',
                                         {}).setdefault(pos, set()).add(
                                             tuple(kept))
                    c.__setstate__((interleave(ks, vs1),))
                    ok(c.__getstate__() == (interleave(ks, vs1),),
                       'usable after failure')
                    del c

            # --- object keys and values: one reference each, by identity
            if fam[0] == 'O' or (is_map and fam[1] == 'O'):
                k_objs = ['key-%d-%s' % (i, leafkind) for i in range(5)] \
                    if fam[0] == 'O' else [1, 2, 3, 4, 5]
                v_objs = [('value', i, leafkind) for i in range(5)] \
                    if fam[1] == 'O' else [1, 2, 3, 4, 5]
                tracked = (k_objs if fam[0] == 'O' else []) + (
                    v_objs if is_map and fam[1] == 'O' else [])
                r0 = [rc(x) for x in tracked]
                c = L()
                c.__setstate__((interleave(k_objs, v_objs),))
                ok([rc(x) for x in tracked] == [r + 1 for r in r0], 'one ref')
                s = c.__getstate__()
                ok([rc(x) for x in tracked] == [r + 2 for r in r0],
                   'the state holds one more')
                got = list(s[0])
                ok(all(a is b for a, b in
                       zip(got, interleave(k_objs, v_objs))), 'identity')
                del s, got
                c.__setstate__((interleave(k_objs[:2], v_objs[:2]),))
                ok([rc(x) for x in tracked][2:5] == r0[2:5], 'old released')
                c.__setstate__(((),))
                ok([rc(x) for x in tracked] == r0, 'all released')
                c.__setstate__((interleave(k_objs, v_objs),))
                del c
                ok([rc(x) for x in tracked] == r0, 'released on dealloc')



def empty_and_usable_no_insert(t):
    ok(len(t) == 0 and t.__getstate__() is None and list(t.keys()) == [],
       'left empty')


LEAKS = {}


# --------------------------------------------------------------------------
# Part 3: ghosts
# --------------------------------------------------------------------------

class Jar(object):
    """Just enough of a ZODB connection to revive ghosts."""

    def __init__(self):
        self.states = {}
        self.loads = 0
        self.registered = []

    def add(self, obj):
        oid = ('%08d' % (len(self.states) + 1)).encode('ascii')
        obj._p_jar = self
        obj._p_oid = oid
        self.states[oid] = None
        return oid

    def save(self, obj):
        self.states[obj._p_oid] = obj.__getstate__()
        obj._p_changed = False

    def setstate(self, obj):
        self.loads += 1
        obj.__setstate__(self.states[obj._p_oid])

    def register(self, obj):
        self.registered.append(obj)

    def readCurrent(self, obj):
        pass


def nodes(t):
    """All persistent nodes of a multi-bucket tree: the tree nodes depth
    first through their states, then the leaves along the leaf chain (an
    interior node with a single leaf embeds it as long as it has no oid)."""
    out = []

    def walk(n):
        out.append(n)
        s = n.__getstate__()
        if s is not None and len(s) == 2:
            for c in s[0][0::2]:
                if 'Tree' in type(c).__name__:
                    walk(c)
    walk(t)
    leaf = t.__getstate__()[1]
    while leaf is not None:
        out.append(leaf)
        s = leaf.__getstate__()
        leaf = s[1] if len(s) == 2 else None
    return out


def leafless(sh):
    """A shape with interior nodes holding one leaf normalized: such a node
    embeds the leaf while it has no oid and refers to it once it has."""
    if len(sh) == 4 and sh[1] == 'embedded':
        return ('leaf', sh[2])
    if len(sh) == 3 and type(sh[2]) is list:
        kids = [leafless(k) for k in sh[2]]
        if len(kids) == 1 and kids[0][0] == 'leaf':
            return kids[0]
        return (sh[0], sh[1], kids)
    if len(sh) == 3:
        return ('leaf', sh[1])
    return sh


def part3():
    for fam in ('OO', 'IO', 'LL', 'UF', 'QO', 'fs', 'OI'):
        for kind in ('BTree', 'TreeSet'):
            is_map = kind == 'BTree'
            for impl in 'CP':
                rnd = random.Random(fam + kind)
                t = small(fam, kind, impl)()
                model = {} if is_map else set()
                apply_ops(t, model, is_map, fam, rnd, 120, 60)
                want = model_contents(model, is_map)
                jar = Jar()
                all_nodes = nodes(t)
                ok(len(all_nodes) > 5, 'several nodes')
                for n in all_nodes:
                    jar.add(n)
                for n in all_nodes:
                    jar.save(n)
                before = shape(t, is_map)
                for n in all_nodes:
                    n._p_deactivate()
                    ok(n._p_changed is None, 'ghost', impl, type(n))
                ok(jar.loads == 0, 'nothing loaded yet')
                ok(contents(t, is_map) == want, 'revived', fam, kind, impl)
                ok(0 < jar.loads <= len(all_nodes), 'loaded on demand')
                after = shape(t, is_map)
                ok(jar.loads == len(all_nodes), 'each node loaded once',
                   jar.loads, len(all_nodes))
                ok(after[0] == before[0] and after[1] == before[1],
                   'same root after reload')
                ok(leafless(after) == leafless(before), 'same shape')
                t._check()
                ok(not jar.registered, 'loading does not dirty anything')
                # a second cycle, loading only what a lookup needs
                for n in all_nodes:
                    n._p_deactivate()
                jar.loads = 0
                if want:
                    k = want[0][0] if is_map else want[0]
                    ok(k in t, 'lookup in ghost tree')
                    ok(0 < jar.loads < len(all_nodes), 'partial load')
                # usable and registers changes
                apply_ops(t, model, is_map, fam, rnd, 30, 60)
                ok(contents(t, is_map) == model_contents(model, is_map),
                   'usable after reload')
                t._check()
                ok(jar.registered, 'changes registered')

            # a one-bucket tree whose bucket has an oid is not embedded
            for impl in 'CP':
                cls = small(fam, kind, impl)
                t = cls()
                model = {} if is_map else set()
                apply_ops(t, model, is_map, fam, random.Random(9), 3, 60)
                want = model_contents(model, is_map)
                s = t.__getstate__()
                ok(len(s) == 1, 'embedded while the bucket has no oid')
                jar = Jar()
                jar.add(t)
                ok(t.__getstate__() == s, 'still embedded')
                b = t._firstbucket
                jar.add(b)
                s2 = t.__getstate__()
                ok(len(s2) == 2 and s2[0] == (b,) and s2[0][0] is b
                   and s2[1] is b, 'bucket with an oid: normal form', s2)
                t2 = cls()
                t2.__setstate__(s2)
                ok(t2._firstbucket is b, 'same bucket')
                ok(contents(t2, is_map) == want, 'one child, normal form')
                t2._check()
                t3 = cls()
                t3.__setstate__(s)
                ok(t3._firstbucket is not b, 'embedded: a bucket of its own')
                ok(contents(t3, is_map) == want, 'embedded')
                ok(t3.__getstate__() == s, 'embedded state reproduced')
                # ghost cycle of the two
                jar.save(b)
                jar.save(t)
                t._p_deactivate()
                b._p_deactivate()
                ok(t._p_changed is None and b._p_changed is None, 'ghosts')
                ok(contents(t, is_map) == want, 'revived')
                ok(t._firstbucket is b and jar.loads == 2, 'same bucket')


def main():
    shrink_nodes()
    try:
        part1()
        part3()
    finally:
        restore_nodes()
    part1_stock_sizes()
    part2()
    # each kind and implementation went through each of the three forms
    for kind in ('BTree', 'TreeSet'):
        for impl in 'CPS':
            for form in ('none', 'embedded', 'normal'):
                ok(FORMS_SEEN.get((kind, impl, form), 0) >= 22,
                   'form coverage', kind, impl, form, FORMS_SEEN)
    # References still held after a failed C leaf __setstate__ (the items
    # converted before the failing one were already INCREF'ed, and the leaf
    # is left with len == 0): per position of the bad item, the same on the
    # unmodified and the refactored tree.
    for what, per_pos in sorted(LEAKS.items()):
        print('note: %s: references kept, by position of the bad item: %s' %
              (what, dict((k, sorted(v)) for k, v in sorted(per_pos.items()))))
    ok(LEAKS == EXPECTED_LEAKS, 'reference deltas on failure paths', LEAKS)
    gc.collect()
    print('demo u: OK (%d checks)' % CHECKS[0])
    return 0


EXPECTED_LEAKS = {'object-valued Bucket, bad key': {
    0: {(0, 0, 0, 0)}, 1: {(1, 0, 0, 0)}, 2: {(1, 1, 0, 0)}, 3: {(1, 1, 1, 0)}}}

if __name__ == '__main__':
    sys.exit(main())
