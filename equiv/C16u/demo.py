"""Differential demo for refactoring u (BTreeTemplate.c: BTree_grow with its
new helper BTree_reserve_item, and the child removal at the end of _BTree_set,
now BTree_remove_child).

Run as:  PYTHONPATH=<tree>/src /venv/bin/python demo.py

Trees and tree sets with tiny nodes are driven against a dict / set model.
For the object-keyed families the reference count of every pooled key and
value object is compared after every operation with the number of slots that
the persistent state (bucket entries + separator keys from index 1) says hold
it.  The sequence of node structures gone through is digested and compared
with the digest taken on the unmodified tree.
"""
import gc
import hashlib
import random
import sys

import BTrees  # noqa: F401


def check(cond, *what):
    if not cond:
        raise AssertionError(what)


def family(name):
    mod = __import__('BTrees.%sBTree' % name, fromlist=['x'])
    return (getattr(mod, name + 'Bucket'), getattr(mod, name + 'Set'),
            getattr(mod, name + 'BTree'), getattr(mod, name + 'TreeSet'))


FAMILIES = ['OO', 'II', 'LO', 'OI', 'LF', 'UU', 'QQ', 'OL', 'fs']
for _n in FAMILIES:
    check(not family(_n)[2].__name__.endswith('Py'), 'C extension not in use')


class K(object):
    boom = False
    ncmp = 0
    __slots__ = ('n',)

    def __init__(self, n):
        self.n = n

    def _chk(self):
        K.ncmp += 1
        if K.boom:
            raise RuntimeError('comparison failed')

    def __lt__(self, other):
        self._chk()
        return self.n < other.n

    def __eq__(self, other):
        self._chk()
        return isinstance(other, K) and self.n == other.n

    def __hash__(self):
        return hash(self.n)

    def __repr__(self):
        return 'K(%d)' % self.n


class V(object):
    __slots__ = ('n',)

    def __init__(self, n):
        self.n = n

    def __repr__(self):
        return 'V(%d)' % self.n


NKEYS = 60
NVALS = 7
KPOOL = [K(i) for i in range(NKEYS)]
VPOOL = [V(i) for i in range(NVALS)]


def mk_key(letter, i):
    if letter == 'O':
        return KPOOL[i]
    if letter == 'f':
        return bytes([65 + i // 8, 65 + i % 8])
    if letter in 'UQ':
        return i * 5
    return i * 5 - 100


def mk_val(letter, j):
    if letter == 'O':
        return VPOOL[j]
    if letter == 's':
        return bytes([97 + j]) * 6
    if letter == 'F':
        return j * 0.25
    if letter in 'UQ':
        return j * 11
    return j * 11 - 20


def rc_snapshot():
    return ([sys.getrefcount(k) for k in KPOOL],
            [sys.getrefcount(v) for v in VPOOL])


# ---------------------------------------------------------------------------
# walking the persistent state
# ---------------------------------------------------------------------------
def is_node(x):
    return hasattr(x, '_p_jar') and hasattr(x, '__getstate__')


def unpool(x):
    return ('#', x.n) if type(x) in (K, V) else x


def bucket_part(flat, mapping, kc, vc, plain):
    """flat is the (k, v, k, v, ...) or (k, k, ...) tuple of a bucket"""
    if mapping:
        ks, vs = flat[0::2], flat[1::2]
    else:
        ks, vs = flat, ()
    for k in ks:
        if type(k) is K:
            kc[k.n] = kc.get(k.n, 0) + 1
    for v in vs:
        if type(v) is V:
            vc[v.n] = vc.get(v.n, 0) + 1
    # (pool objects are pictured by their number: the picture must not hold
    # references to them)
    plain.append(('B', tuple(unpool(k) for k in ks),
                  tuple(unpool(v) for v in vs)))


def walk(node, mapping, kc, vc):
    """-> plain-data picture of the node;  counts the references that the
    state shows (entries of buckets, separator keys from index 1 on)."""
    st = node.__getstate__()
    if st is None:
        return None
    plain = []
    if not hasattr(node, '_firstbucket'):        # a bucket / set
        bucket_part(st[0], mapping, kc, vc, plain)
        return plain[0]
    data = st[0]
    if len(data) == 1 and isinstance(data[0], tuple):
        # one bucket without oid: its state is inlined
        bucket_part(data[0][0], mapping, kc, vc, plain)
        return ('T1', plain[0])
    for n, x in enumerate(data):
        if n % 2 == 0:
            check(is_node(x), 'child expected', x)
            plain.append(walk(x, mapping, kc, vc))
        else:
            if type(x) is K:
                kc[x.n] = kc.get(x.n, 0) + 1
            plain.append(unpool(x))
    return ('T', tuple(plain))


class Tracker(object):
    def __init__(self):
        self.base = rc_snapshot()

    def verify(self, kcount, vcount, where, live=()):
        kcount = dict(kcount)
        vcount = dict(vcount)
        o = None
        for o in live:      # held by a local of the caller and by `live`
            if type(o) is K:
                kcount[o.n] = kcount.get(o.n, 0) + 2
            elif type(o) is V:
                vcount[o.n] = vcount.get(o.n, 0) + 2
        del o
        now = rc_snapshot()
        for i in range(NKEYS):
            check(now[0][i] - self.base[0][i] == kcount.get(i, 0),
                  'key refcount', where, i, now[0][i] - self.base[0][i],
                  kcount.get(i, 0))
        for j in range(NVALS):
            check(now[1][j] - self.base[1][j] == vcount.get(j, 0),
                  'value refcount', where, j, now[1][j] - self.base[1][j],
                  vcount.get(j, 0))


def expect_exc(exc, f, *a):
    try:
        f(*a)
    except exc as e:
        return e
    check(False, 'no exception', exc, f, a)


class Jar(object):
    def __init__(self):
        self.registered = []

    def register(self, obj):
        self.registered.append(obj._p_oid)

    def setstate(self, obj):   # pragma: no cover
        raise RuntimeError('nothing to load')

    def readCurrent(self, obj):
        pass


# ---------------------------------------------------------------------------
# the driver
# ---------------------------------------------------------------------------
FAIL = [None]      # None / 'bucket' / 'tree': which constructor refuses


def make_classes(fam, mapping, leaf, internal):
    Bucket, Set, BTree, TreeSet = family(fam)
    leafbase = Bucket if mapping else Set
    treebase = BTree if mapping else TreeSet

    class Leaf(leafbase):
        def __init__(self, *args):
            if FAIL[0] == 'bucket':
                raise RuntimeError('no new bucket')
            leafbase.__init__(self, *args)

    class Tree(treebase):
        max_leaf_size = leaf
        max_internal_size = internal
        _bucket_type = Leaf

        def __init__(self, *args):
            if FAIL[0] == 'tree':
                raise RuntimeError('no new tree node')
            treebase.__init__(self, *args)

    return Tree


def run(fam, mapping, leaf, internal, rng, nops, with_jar=False):
    kl, vl = fam[0], fam[1]
    Tree = make_classes(fam, mapping, leaf, internal)
    t = Tree()
    jar = None
    if with_jar:
        jar = Jar()
        t._p_jar = jar
        t._p_oid = b'\0' * 7 + b'\x21'
    model = {}
    tr = Tracker()
    dig = hashlib.sha256()
    tag = (fam, 'map' if mapping else 'set', leaf, internal)
    cur = [()]

    def put(i, j):
        """insert / overwrite through the public API"""
        if mapping:
            t[mk_key(kl, i)] = mk_val(vl, j)
            model[i] = j
        else:
            t.add(mk_key(kl, i))
            model[i] = None

    def drop(i):
        if mapping:
            del t[mk_key(kl, i)]
        else:
            t.remove(mk_key(kl, i))
        del model[i]

    def after(where):
        ks = sorted(model)
        check(len(t) == len(ks), 'len', where, len(t), len(ks))
        got = list(t.keys())
        check(len(got) == len(ks), 'keys len', where)
        g = e = None
        for g, i in zip(got, ks):
            e = mk_key(kl, i)
            check(g is e if kl == 'O' else g == e, 'key', where, g, e)
        del got, g, e
        if mapping:
            got = list(t.values())
            g = e = None
            for g, i in zip(got, ks):
                e = mk_val(vl, model[i])
                check(g is e if vl == 'O' else g == e, 'value', where, g, e)
            del got, g, e
        t._check()
        kc, vc = {}, {}
        plain = walk(t, mapping, kc, vc)
        if 'O' in fam:
            tr.verify(kc, vc, where, live=cur[0])
        else:
            dig.update(repr(plain).encode())
        if ks:
            check(t.minKey() == mk_key(kl, ks[0]), 'minKey', where)
            check(t.maxKey() == mk_key(kl, ks[-1]), 'maxKey', where)
        if jar is not None:
            dig.update(repr((t._p_changed, len(jar.registered))).encode())
            t._p_changed = False
            del jar.registered[:]
        dig.update(repr((len(ks), ks[:3], ks[-3:])).encode())

    phase_ops = ['rand'] * 6 + ['ascend', 'descend', 'strip_left',
                                'strip_right', 'strip_middle', 'failing',
                                'cmpfail', 'clear']
    step = 0
    while step < nops:
        phase = rng.choice(phase_ops)
        where = tag + (step, phase)
        if phase == 'rand':
            for _ in range(rng.randrange(5, 40)):
                step += 1
                i = rng.randrange(NKEYS)
                j = rng.randrange(NVALS)
                k = mk_key(kl, i)
                cur[0] = (k,)
                if rng.random() < 0.55:
                    put(i, j)
                elif i in model:
                    drop(i)
                else:
                    e = expect_exc(KeyError, t.__delitem__ if mapping
                                   else t.remove, k)
                    check(e.args[0] is k if kl == 'O' else e.args == (k,),
                          'KeyError arg', where)
                    del e
                after(where + (step,))
                del k
                cur[0] = ()
        elif phase in ('ascend', 'descend'):
            lo = rng.randrange(NKEYS)
            rng_ = range(lo, min(NKEYS, lo + rng.randrange(5, 40)))
            if phase == 'descend':
                rng_ = reversed(rng_)
            for i in rng_:
                step += 1
                put(i, rng.randrange(NVALS))
                after(where + (step,))
        elif phase == 'strip_left':
            for i in sorted(model)[:rng.randrange(1, 30)]:
                step += 1
                drop(i)
                after(where + (step,))
        elif phase == 'strip_right':
            for i in sorted(model, reverse=True)[:rng.randrange(1, 30)]:
                step += 1
                drop(i)
                after(where + (step,))
        elif phase == 'strip_middle':
            ks = sorted(model)
            a = rng.randrange(len(ks) + 1)
            for i in ks[a:a + rng.randrange(1, 25)]:
                step += 1
                drop(i)
                after(where + (step,))
        elif phase == 'failing':
            # the constructor of a new bucket or of a new tree node refuses:
            # the split does not take place, the exception comes out
            FAIL[0] = rng.choice(['bucket', 'tree'])
            try:
                for _ in range(rng.randrange(3, 20)):
                    step += 1
                    i = rng.randrange(NKEYS)
                    j = rng.randrange(NVALS)
                    was_empty = not model
                    try:
                        put(i, j)
                        outcome = 'ok'
                    except RuntimeError as e:
                        outcome = str(e)
                        del e
                        # put() did not get as far as updating the model
                        present = t.has_key(mk_key(kl, i))
                        if was_empty:
                            # the bucket of an empty tree could not be made:
                            # the tree is left empty
                            check(FAIL[0] == 'bucket' and not present
                                  and len(t) == 0, 'empty tree', where)
                        else:
                            # the key had gone in before the split was tried
                            check(present, 'key inserted anyway', where)
                            model[i] = j if mapping else None
                    dig.update(outcome.encode())
                    after(where + (step, outcome))
            finally:
                FAIL[0] = None
        elif phase == 'cmpfail':
            if kl != 'O' or not model:
                step += 1
                continue
            step += 1
            K.boom = True
            try:
                k = mk_key(kl, rng.randrange(NKEYS))
                cur[0] = (k,)
                if mapping:
                    e = expect_exc(RuntimeError, t.__setitem__, k, 1)
                    del e
                    e = expect_exc(RuntimeError, t.__delitem__, k)
                    del e
                else:
                    e = expect_exc(RuntimeError, t.add, k)
                    del e
                    e = expect_exc(RuntimeError, t.remove, k)
                    del e
            finally:
                K.boom = False
            after(where)
            del k
            cur[0] = ()
        elif phase == 'clear':
            step += 1
            if rng.random() < 0.3:
                t.clear()
                model.clear()
                after(where)
    # drain completely, key by key, in random order: every kind of child
    # removal at every level, down to the empty tree
    order = sorted(model)
    rng.shuffle(order)
    for i in order:
        drop(i)
        after(tag + ('drain', i))
    check(len(t) == 0 and t.__getstate__() is None, 'drained', tag)
    # and the emptied tree can be used again
    for i in (7, 3, 11, 5, 9, 1):
        put(i, 0)
        after(tag + ('reuse', i))
    t.clear()
    model.clear()
    after(tag + ('final clear',))
    del t
    gc.collect()
    tr.verify({}, {}, tag + ('end',))
    return dig.hexdigest()


# ---------------------------------------------------------------------------
# keys that die when their last slot goes: what does the finalizer see?
# ---------------------------------------------------------------------------
def run_finalizers():
    from BTrees.OOBTree import OOBTree, OOTreeSet
    seen = []

    class Watch(object):
        def __init__(self, n, box):
            self.n = n
            self.box = box

        def __lt__(self, other):
            return self.n < other.n

        def __eq__(self, other):
            return self.n == other.n

        def __hash__(self):
            return self.n

        def __del__(self):
            t = self.box[0]
            if t is None:
                return
            try:
                keys = [k.n for k in t.keys()]
            except RuntimeError as e:
                # the last key of a bucket is released while the emptied
                # bucket is still linked in: iterating then reports
                # "the bucket being iterated changed size"
                keys = str(e)
            seen.append((self.n, keys, len(t)))

    def probe(n):
        return Watch(n, [None])

    out = []
    for base, leaf, internal in ((OOBTree, 2, 2), (OOTreeSet, 1, 2),
                                 (OOBTree, 3, 3)):
        class T(base):
            max_leaf_size = leaf
            max_internal_size = internal

        box = [None]
        t = T()
        box[0] = t
        n = 24
        for i in range(n):
            if base is OOBTree:
                t[Watch(i, box)] = i
            else:
                t.add(Watch(i, box))
        t._check()
        alive = list(range(n))
        rng = random.Random(77)
        order = list(range(n))
        rng.shuffle(order)
        for i in order:
            del seen[:]
            if base is OOBTree:
                del t[probe(i)]
            else:
                t.remove(probe(i))
            alive.remove(i)
            t._check()
            # a key may outlive its deletion as a separator; whenever one
            # dies, the tree it sees is the finished one
            for (who, keys, ln) in seen:
                check(ln == len(alive), 'finalizer len', who, ln)
                check(keys == alive or
                      keys == 'the bucket being iterated changed size',
                      'finalizer view', who, keys, alive)
            out.append((i, sorted((s[0], type(s[1]).__name__)
                                  for s in seen)))
        check(len(t) == 0)
        box[0] = None
        del t
        gc.collect()
    return hashlib.sha256(repr(out).encode()).hexdigest()


def main():
    results = {}
    shapes = [(1, 2), (2, 2), (3, 2), (4, 3), (2, 5), (1, 3)]
    n = 0
    for fam in FAMILIES:
        for (leaf, internal) in shapes:
            n += 1
            rng = random.Random(5000 + n)
            big = fam in ('OO', 'II')
            results['%s map %d/%d' % (fam, leaf, internal)] = run(
                fam, True, leaf, internal, rng, 700 if big else 250)
            if fam in ('OO', 'II', 'LO', 'UU'):
                results['%s set %d/%d' % (fam, leaf, internal)] = run(
                    fam, False, leaf, internal, rng, 500 if big else 200)
        rng = random.Random(9000 + n)
        results['%s map+jar' % fam] = run(fam, True, 3, 2, rng, 300,
                                          with_jar=True)
    results['finalizers'] = run_finalizers()
    h = hashlib.sha256()
    for name in sorted(results):
        h.update(('%s=%s\n' % (name, results[name])).encode())
    total = h.hexdigest()
    if '--print-digest' in sys.argv:
        print(total)
        return 0
    check(total == EXPECTED_TOTAL, 'state history digest differs', total)
    print('OK', total[:16], 'comparisons:', K.ncmp)
    return 0


EXPECTED_TOTAL = (
    '21ddb3eccc41de1aaaaa4451db102dd40ea114323cdf69a1be8fbbed7d31d70e')

if __name__ == '__main__':
    sys.exit(main())
