"""Equivalence demonstration for refactoring C06q.

C06q rewrites the loops of bucket_getstate() and _bucket_setstate()
(BucketTemplate.c): the second running index is gone (slots 2*i / 2*i+1), the
Set/Bucket branches of bucket_getstate() are swapped under the negated test
and the result tuple is built with PyTuple_Pack instead of Py_BuildValue.
The demonstration checks property C06 (state / pickle / copy round trips, C
and pure Python byte-identical and mutually loadable) over all 22 families,
4 kinds, histories crossing the three state forms and protocols 0..5 against
a dict model, and then drives the leaf state code directly: exact layout and
element types of leaf states (with and without `next`), odd-length states,
regrowing vectors, reference counts of keys / values / next (success and
failure paths), malformed states (recorded messages), ghosts and the absence
of persistence notifications.

Run:  PYTHONPATH=<worktree>/src /venv/bin/python demo.py   (exit status 0)
"""
import copy
import gc
import io
import pickle
import pickletools
import struct
import sys

import BTrees
from persistent import Persistent
from BTrees import check as btcheck

sys.setrecursionlimit(20000)   # pickling a tree without ZODB recurses along
                               # the bucket chain

FAMILIES = ['OO', 'OI', 'OL', 'OU', 'OQ', 'IO', 'II', 'IF', 'IU',
            'LO', 'LL', 'LF', 'LQ', 'UO', 'UU', 'UF', 'UI',
            'QO', 'QQ', 'QF', 'QL', 'fs']
KINDS = ['Bucket', 'Set', 'BTree', 'TreeSet']
PROTOCOLS = range(0, pickle.HIGHEST_PROTOCOL + 1)
assert list(PROTOCOLS) == [0, 1, 2, 3, 4, 5]

CHECKS = [0]


def ok(cond, *msg):
    CHECKS[0] += 1
    if not cond:
        raise AssertionError(' '.join(str(m) for m in msg))


def mod(fam):
    return __import__('BTrees.%sBTree' % fam, fromlist=['*'])


def cls_of(fam, kind, impl):
    """impl is 'C' or 'Py'."""
    m = mod(fam)
    c = getattr(m, fam + kind + ('Py' if impl == 'Py' else ''))
    if impl == 'C':
        ok(c is not getattr(m, fam + kind + 'Py'), 'C extension missing', fam)
    return c


# ---------------------------------------------------------------------------
# keys and values of every native kind; i is a small non-negative integer and
# key(i) is strictly increasing in i
# ---------------------------------------------------------------------------
def key_of(fam, i):
    c = fam[0]
    if fam == 'fs':
        return struct.pack('>H', i)
    if c == 'O':
        return i
    if c == 'I':
        return i - 1000                       # negative and positive
    if c == 'L':
        return (i - 5) * (2 ** 33)            # needs 64 bits
    if c == 'U':
        return i + (2 ** 31 if i > 3 else 0)  # above the signed range
    if c == 'Q':
        return i * (2 ** 40) + (2 ** 63 if i > 3 else 0)
    raise AssertionError(fam)


def value_of(fam, i):
    c = fam[1]
    if fam == 'fs':
        return struct.pack('>HI', i, i * 7)
    if c == 'O':
        return ('v', i) if i % 3 else None
    if c == 'I':
        return -i
    if c == 'L':
        return -i * (2 ** 33)
    if c == 'U':
        return i + 2 ** 31
    if c == 'Q':
        return i + 2 ** 63
    if c == 'F':
        return i * 0.5                        # exact as a C float
    raise AssertionError(fam)


def is_set(kind):
    return 'Set' in kind


def build(cls, kind, fam, history, model=None):
    """Apply history (list of ('+', i) / ('-', i)) to a fresh container; the
    model (a dict) gets the same operations applied."""
    obj = cls()
    if model is None:
        model = {}
    for op, i in history:
        k = key_of(fam, i)
        if op == '+':
            if is_set(kind):
                obj.add(k)
                model[k] = None
            else:
                obj[k] = value_of(fam, i)
                model[k] = value_of(fam, i)
        else:
            if is_set(kind):
                obj.remove(k)
            else:
                del obj[k]
            del model[k]
    return obj, model


def contents(obj, kind):
    if is_set(kind):
        return [(k, None) for k in obj.keys()]
    return list(obj.items())


def expected(model):
    return sorted(model.items())


def leaf_size(fam, kind):
    return cls_of(fam, 'BTree', 'Py').max_leaf_size


def histories(fam):
    """name -> history.  Crosses the three state forms in both directions."""
    n = leaf_size(fam, 'BTree')
    grow = [('+', i) for i in range(2 * n + 7)]
    return {
        'empty': [],
        'one': [('+', 5)],
        'few': ([('+', i) for i in (9, 2, 7, 4, 1, 8, 3)] +
                [('-', 7), ('-', 1)]),
        'full-leaf': [('+', i) for i in range(n)],
        'just-split': [('+', i) for i in range(n + 1)],
        'grown': grow,
        'grown-shrunk': grow + [('-', i) for i in range(3, 2 * n + 7)],
        'grown-emptied': grow + [('-', i) for i in range(2 * n + 7)],
        'emptied-regrown': ([('+', 1), ('-', 1)] +
                            [('+', i) for i in (6, 5)]),
    }


# ---------------------------------------------------------------------------
# independent description of a state
# ---------------------------------------------------------------------------
def base_name(obj):
    n = type(obj).__name__      # type(), not __class__: the latter is swapped
    for suffix in ('_C', '_Py', 'Py'):
        if n.endswith(suffix):
            return n[:-len(suffix)]
    return n


def is_tree(x):
    return hasattr(x, '_firstbucket')


def is_node(x):
    return isinstance(x, Persistent)


def norm(x, seen=None):
    """Replace every node in a state by (class name, normalized state) so
    that C and Python states can be compared by value."""
    if seen is None:
        seen = {}
    if isinstance(x, tuple):
        return tuple(norm(e, seen) for e in x)
    if is_node(x):
        if id(x) in seen:
            return ('ref', seen[id(x)])
        seen[id(x)] = len(seen)
        return (base_name(x), norm(x.__getstate__(), seen))
    return x


def flat(model, kind):
    out = []
    for k, v in sorted(model.items()):
        out.append(k)
        if not is_set(kind):
            out.append(v)
    return tuple(out)


def leaf_items(leafstate, kind):
    items = leafstate[0]
    if is_set(kind):
        return [(k, None) for k in items]
    return [(items[i], items[i + 1]) for i in range(0, len(items), 2)]


def subtree_keys(node, kind):
    """Keys below a node, from the states alone (not following `next`)."""
    st = node.__getstate__()
    if not is_tree(node):
        return [k for k, _ in leaf_items(st, kind)]
    if st is None:
        return []
    if len(st) == 1:
        return [k for k, _ in leaf_items(st[0][0], kind)]
    out = []
    for child in st[0][::2]:
        out.extend(subtree_keys(child, kind))
    return out


def walk_state(obj, kind):
    """Contents reconstructed from __getstate__() alone, plus the form."""
    state = obj.__getstate__()
    if kind in ('Bucket', 'Set'):
        ok(isinstance(state, tuple) and len(state) in (1, 2), 'leaf form')
        return leaf_items(state, kind), 'leaf'
    if state is None:
        return [], 'none'
    ok(isinstance(state, tuple), 'tree state is a tuple')
    if len(state) == 1:
        ok(isinstance(state[0], tuple) and len(state[0]) == 1, 'embedded form')
        leafstate = state[0][0]
        ok(len(leafstate) == 1, 'embedded leaf has no next')
        return leaf_items(leafstate, kind), 'embedded'
    ok(len(state) == 2, 'tree form')
    items, first = state
    ok(len(items) % 2 == 1, 'odd number of entries')
    # descend along child 0 to the first leaf
    node = items[0]
    depth = 1
    while node is not None and is_tree(node):
        st = node.__getstate__()
        # (an inner node left with one oid-less leaf embeds it as well)
        node = st[0][0] if len(st) == 2 else None
        depth += 1
    ok(node is None or node is first, 'firstbucket is the leftmost leaf')
    out = []
    leaf = first
    nleaves = 0
    while leaf is not None:
        st = leaf.__getstate__()
        out.extend(leaf_items(st, kind))
        leaf = st[1] if len(st) == 2 else None
        nleaves += 1
    # separators bound their children
    for j in range(1, len(items), 2):
        sep, child = items[j], items[j + 1]
        ck = subtree_keys(child, kind)
        pk = subtree_keys(items[j - 1], kind)
        ok(not pk or pk[-1] < sep, 'separator above left child')
        ok(not ck or sep <= ck[0], 'separator not above right child')
    return out, 'tree/%d' % depth


def sound(obj, kind):
    if kind in ('BTree', 'TreeSet'):
        obj._check()
        if type(obj) in btcheck._type2kind:     # not for subclasses
            btcheck.check(obj)


class PyUnpickler(pickle.Unpickler):
    """Load a pickle into the pure-Python classes."""

    def find_class(self, module, name):
        if module.startswith('BTrees.') and not name.endswith('Py'):
            name += 'Py'
        return super().find_class(module, name)


def py_loads(data):
    return PyUnpickler(io.BytesIO(data)).load()


def ops(data):
    return [(o.name, a) for o, a, _ in pickletools.genops(data)]


def use(obj, kind, fam, model):
    """The loaded container must be fully usable."""
    model = dict(model)
    for i in (900, 0, 901):
        k = key_of(fam, i)
        if is_set(kind):
            obj.add(k)
            model[k] = None
        else:
            obj[k] = value_of(fam, i)
            model[k] = value_of(fam, i)
    for k in list(model)[::3]:
        if is_set(kind):
            obj.remove(k)
        else:
            del obj[k]
        del model[k]
    ok(contents(obj, kind) == expected(model), 'usable after load')
    ok(len(obj) == len(model))
    for k in model:
        ok(k in obj)
    sound(obj, kind)


def roundtrip_checks(fam, kind, hname, history, protocols=PROTOCOLS,
                     byte_identical=True, classes=None):
    """The C06 property for one (family, kind, history)."""
    objs = {}
    model = None
    for impl in ('C', 'Py'):
        cls = classes[impl] if classes else cls_of(fam, kind, impl)
        objs[impl], model = build(cls, kind, fam, history)
    exp = expected(model)
    tag = (fam, kind, hname)

    forms = {}
    for impl, obj in objs.items():
        ok(contents(obj, kind) == exp, tag, impl, 'history vs model')
        sound(obj, kind)
        got, forms[impl] = walk_state(obj, kind)
        ok(got == exp, tag, impl, 'state walk vs model', forms[impl])
    ok(forms['C'] == forms['Py'], tag, 'same state form', forms)
    ok(norm(objs['C'].__getstate__()) == norm(objs['Py'].__getstate__()),
       tag, 'normalized states equal')

    # independently computed state for the two simple forms
    if kind in ('BTree', 'TreeSet'):
        if not model:
            for obj in objs.values():
                ok(obj.__getstate__() is None, tag)
        elif forms['C'] == 'embedded':
            for obj in objs.values():
                ok(obj.__getstate__() == (((flat(model, kind),),),), tag)
    else:
        for obj in objs.values():
            ok(obj.__getstate__() == (flat(model, kind),), tag)

    if fam == 'fs' and forms['C'].startswith('tree'):
        # The Python fs tree shares one bytes object between a separator and
        # the leaf key it was copied from (pickle memoizes it); the C tree
        # stores char[2] and makes new objects.  Same values, other opcodes
        # - already so in the unmodified code; byte identity not checked.
        byte_identical = False
    for proto in protocols:
        dumps = {impl: pickle.dumps(obj, proto) for impl, obj in objs.items()}
        if byte_identical:
            ok(dumps['C'] == dumps['Py'], tag, proto, 'byte-identical pickles')
            ok(ops(dumps['C']) == ops(dumps['Py']), tag, proto)
        for src, data in dumps.items():
            for loader, dst in ((pickle.loads, 'C'), (py_loads, 'Py')):
                if classes and src != dst:
                    continue    # subclasses pickle under their own names
                new = loader(data)
                want = classes[dst] if classes else cls_of(fam, kind, dst)
                ok(type(new) is want, tag, proto, src, dst, type(new))
                ok(contents(new, kind) == exp, tag, proto, src, dst)
                ok(len(new) == len(exp) and bool(new) == bool(exp))
                sound(new, kind)
                ok(norm(new.__getstate__()) == norm(objs[src].__getstate__()))
                if byte_identical:
                    ok(pickle.dumps(new, proto) == data, tag, proto, 're-dump')
                if proto in (0, 2, 5):
                    use(new, kind, fam, model)

    # __getstate__/__setstate__ directly; copy; deepcopy
    for impl, obj in objs.items():
        cls = type(obj)
        new = cls()
        state = obj.__getstate__()
        new.__setstate__(state)
        ok(contents(new, kind) == exp, tag, impl, 'setstate(getstate)')
        ok(norm(new.__getstate__()) == norm(state))
        sound(new, kind)
        # loading a second, different state replaces the first one
        new.__setstate__(cls().__getstate__() if kind in ('BTree', 'TreeSet')
                         else ((),))
        ok(contents(new, kind) == [] and len(new) == 0, tag, impl, 'reset')
        new.__setstate__(state)
        ok(contents(new, kind) == exp, tag, impl, 'setstate twice')
        del new

        if not (classes and impl == 'Py'):
            # (a pure-Python *subclass* keeps its own name but its leaves
            # reduce to the C leaf class, which it then refuses: not covered)
            dc = copy.deepcopy(obj)
            ok(contents(dc, kind) == exp, tag, impl, 'deepcopy')
            sound(dc, kind)
            use(dc, kind, fam, model)
            ok(contents(obj, kind) == exp, tag, impl, 'deepcopy independent')
        if impl == 'C':
            # (copy.copy of a multi-level pure-Python tree hands Python nodes
            # to the C class and is not part of this demonstration)
            sc = copy.copy(obj)
            ok(type(sc) is cls and contents(sc, kind) == exp, tag, 'copy')
            sound(sc, kind)

    # direct cross-implementation setstate where the state holds no nodes
    st_c = objs['C'].__getstate__()
    if norm(st_c) == st_c:
        for a, b in (('C', 'Py'), ('Py', 'C')):
            new = type(objs[b])()
            new.__setstate__(objs[a].__getstate__())
            ok(contents(new, kind) == exp, tag, a, '->', b)
            sound(new, kind)
            use(new, kind, fam, model)
    return forms['C']


def expect_error(fn, exc_name, message=None):
    try:
        fn()
    except BaseException as e:      # noqa
        ok(type(e).__name__ == exc_name,
           'expected', exc_name, 'got', type(e).__name__, e)
        if message is not None:
            ok(str(e) == message, 'message', repr(str(e)), '!=', repr(message))
        return e
    raise AssertionError('no exception, expected ' + exc_name)


class Jar:
    """Minimal data manager: records change notifications."""

    def __init__(self):
        self.registered = []
        self.oids = 0

    def register(self, obj):
        self.registered.append(obj)

    def setstate(self, obj):
        raise AssertionError('unexpected ghost load')

    def readCurrent(self, obj):
        pass

    def adopt(self, obj):
        self.oids += 1
        obj._p_jar = self
        obj._p_oid = struct.pack('>Q', self.oids)


class LoadingJar(Jar):
    """Data manager that can load ghosts from recorded states."""

    def __init__(self):
        Jar.__init__(self)
        self.states = {}
        self.loads = 0

    def setstate(self, obj):
        self.loads += 1
        obj.__setstate__(self.states[obj._p_oid])


def make_small_subclasses(fam, kind):
    """Subclasses with tiny nodes so that short histories give deep trees."""
    out = {}
    for impl in ('C', 'Py'):
        base = cls_of(fam, kind, impl)
        name = 'Small_%s_%s_%s' % (fam, kind, impl)
        if name not in globals():
            globals()[name] = type(name, (base,), {
                'max_leaf_size': 4, 'max_internal_size': 3,
                '__module__': __name__, '__slots__': ()})
        out[impl] = globals()[name]
    return out


def common_checks(families=FAMILIES, kinds=KINDS):
    seen_forms = set()
    for fam in families:
        for kind in kinds:
            for hname, history in histories(fam).items():
                if kind in ('Bucket', 'Set') and hname.startswith('grown'):
                    history = history[:40] + [h for h in history[40:]
                                              if h[0] == '-' and h[1] < 40]
                form = roundtrip_checks(fam, kind, hname, history)
                seen_forms.add((kind in ('BTree', 'TreeSet'), form))
        # deep trees (3+ levels) through tiny-node subclasses
        for kind in ('BTree', 'TreeSet'):
            if kind not in kinds:
                continue
            classes = make_small_subclasses(fam, kind)
            deep = [('+', i) for i in range(60)]
            for hname, history in (
                    ('deep', deep),
                    ('deep-shrunk', deep + [('-', i) for i in range(54)]),
                    ('deep-holes', deep + [('-', i) for i in range(0, 60, 2)]),
            ):
                form = roundtrip_checks(fam, kind, hname, history,
                                        protocols=(0, 2, 5),
                                        byte_identical=False, classes=classes)
                seen_forms.add((True, form))
    return seen_forms


def check_forms(forms):
    """All three state forms were reached: None, embedded leaf, and
    children+separators+firstbucket with one and with several node levels."""
    ok((True, 'none') in forms and (True, 'embedded') in forms, forms)
    ok((True, 'tree/1') in forms, forms)
    ok(any(f[1] in ('tree/3', 'tree/4') for f in forms), forms)
    ok((False, 'leaf') in forms, forms)


# ---------------------------------------------------------------------------
# focus: BucketTemplate.c bucket_getstate() and _bucket_setstate()
# ---------------------------------------------------------------------------
def rcs(objs):
    """Reference counts, always measured the same way."""
    return [sys.getrefcount(o) for o in objs]


def focus_leaf_state():
    # 1. layout of the state of stand-alone and chained leaves, every family,
    #    against the model; Bucket (interleaved) and Set (keys only) branch
    for fam in FAMILIES:
        for kind in ('Bucket', 'Set'):
            for n in (0, 1, 2, 5, 33):
                model = {}
                for i in range(n):
                    model[key_of(fam, i)] = (None if is_set(kind)
                                             else value_of(fam, i))
                want = flat(model, kind)
                for impl in ('C', 'Py'):
                    cls = cls_of(fam, kind, impl)
                    b = cls(list(model) if is_set(kind) else model)
                    st = b.__getstate__()
                    ok(type(st) is tuple and len(st) == 1, fam, kind, impl)
                    ok(type(st[0]) is tuple and st[0] == want, fam, kind, n)
                    ok([type(x) for x in st[0]] == [type(x) for x in want])
                    # chained: (items, next)
                    nxt = cls()
                    b2 = cls()
                    ok(b2.__setstate__((want, nxt)) is None)
                    st2 = b2.__getstate__()
                    ok(type(st2) is tuple and len(st2) == 2)
                    ok(st2[0] == want and st2[1] is nxt)
                    ok(contents(b2, kind) == expected(model))
                    # an odd number of entries: the dangling key is dropped
                    # by the C mapping bucket (len / 2)
                    if kind == 'Bucket' and impl == 'C' and n:
                        b3 = cls()
                        b3.__setstate__((want[:-1],))
                        ok(contents(b3, kind) == expected(model)[:-1])
                        ok(b3.__getstate__() == (want[:-2],))
                    # a bigger state after a smaller one (vectors regrow),
                    # then a smaller one again
                    b2.__setstate__((want + want[:0],))
                    b2.__setstate__(((),))
                    ok(len(b2) == 0 and b2.__getstate__() == ((),))
                    b2.__setstate__((want,))
                    ok(b2.__getstate__() == (want,))

    # 2. reference counts (C): the items tuple owns one reference per key
    #    and value, the state one to `next`; loading a state takes one each
    from BTrees.OOBTree import OOBucket, OOSet
    from BTrees.IOBTree import IOBucket
    from BTrees.OIBTree import OIBucket

    class K(int):
        pass

    keys = [K(i) for i in range(6)]
    vals = [[i] for i in range(6)]
    nxt = OOBucket()
    b = OOBucket()
    objs = keys + vals + [nxt]
    base = rcs(objs)
    inter = []
    for k, v in zip(keys, vals):
        inter += [k, v]
    inter = tuple(inter)
    base = rcs(objs)
    b.__setstate__((inter, nxt))
    ok(rcs(objs) == [n + 1 for n in base])
    st = b.__getstate__()
    ok(rcs(objs) == [n + 2 for n in base])
    ok(st == (inter, nxt) and st[0] is not inter)
    ok(all(a is c for a, c in zip(st[0], inter)))
    ok(sys.getrefcount(st[0]) == 2)         # only the state refers to it
    del st
    ok(rcs(objs) == [n + 1 for n in base])
    b.__setstate__(((),))                   # drops `next` as well
    ok(rcs(objs) == base)
    ok(b.__getstate__() == ((),))
    b.__setstate__((inter, nxt))
    del b
    ok(rcs(objs) == base)

    s = OOSet()
    base = rcs(keys)
    s.__setstate__((tuple(keys),))
    ok(rcs(keys) == [n + 1 for n in base])
    st = s.__getstate__()
    ok(rcs(keys) == [n + 2 for n in base] and len(st) == 1)
    del st, s
    ok(rcs(keys) == base)

    # 3. failing half-way (recorded behaviour of the unmodified code: the
    #    entries converted before the failure stay referenced, the bucket
    #    itself reads as empty)
    v = [['a'], ['b'], ['c']]
    base = rcs(v)
    b = IOBucket()
    expect_error(lambda: b.__setstate__(((1, v[0], 2, v[1], 'x', v[2]),)),
                 'TypeError')
    ok(len(b) == 0 and list(b.items()) == [] and b.__getstate__() == ((),))
    del b
    gc.collect()
    ok([a - n for a, n in zip(rcs(v), base)] == [1, 1, 0],
       [a - n for a, n in zip(rcs(v), base)])
    k = [K(1), K(2), K(3)]
    base = rcs(k)
    b = OIBucket()
    expect_error(lambda: b.__setstate__(((k[0], 1, k[1], 'x', k[2], 3),)),
                 'TypeError')
    ok(len(b) == 0 and b.__getstate__() == ((),))
    del b
    gc.collect()
    ok([a - n for a, n in zip(rcs(k), base)] == [1, 0, 0],
       [a - n for a, n in zip(rcs(k), base)])

    # malformed states: recorded classes and messages (C | Python)
    from BTrees.OOBTree import OOBucketPy
    table = [
        ((), 'TypeError',
         '__setstate__() takes at least 1 argument (0 given)', 'IndexError'),
        ((1,), 'TypeError', 'tuple required for first state element',
         'TypeError'),
        (([],), 'TypeError', 'tuple required for first state element',
         'TypeError'),
        (((), None, 3), 'TypeError',
         '__setstate__() takes at most 2 arguments (3 given)', None),
    ]
    for state, exc, msg, py_exc in table:
        b = OOBucket({1: 2})
        expect_error(lambda: b.__setstate__(state), exc, msg)
        ok(list(b.items()) == [(1, 2)])     # rejected before anything changed
        p = OOBucketPy({1: 2})
        if py_exc:
            expect_error(lambda: p.__setstate__(state), py_exc)
            ok(list(p.items()) == [(1, 2)])

    # 4. ghosts: __getstate__ of a ghost loads it first; neither
    #    __getstate__ nor __setstate__ notifies the data manager
    for fam, kind in (('OO', 'Bucket'), ('II', 'Bucket'), ('OO', 'Set'),
                      ('LF', 'Bucket'), ('fs', 'Bucket'), ('QQ', 'Set')):
        model = {}
        for i in range(7):
            model[key_of(fam, i)] = (None if is_set(kind)
                                     else value_of(fam, i))
        cls = cls_of(fam, kind, 'C')
        jar = LoadingJar()
        b = cls(list(model) if is_set(kind) else model)
        jar.adopt(b)
        jar.states[b._p_oid] = b.__getstate__()
        ok(b._p_changed is False)
        b._p_deactivate()
        ok(b._p_changed is None and jar.loads == 0)
        st = b.__getstate__()
        ok(jar.loads == 1 and b._p_changed is False)
        ok(st == (flat(model, kind),) and jar.registered == [])
        b._p_deactivate()
        ok(pickle.loads(pickle.dumps(b, 3)).__getstate__() == st)
        ok(jar.loads == 2 and jar.registered == [])
        b.__setstate__(((),))
        ok(b._p_changed is False and jar.registered == [] and len(b) == 0)


def main():
    forms = common_checks()
    check_forms(forms)
    focus_leaf_state()
    print('OK: %d checks' % CHECKS[0])


if __name__ == '__main__':
    main()
